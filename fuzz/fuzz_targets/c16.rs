//! libFuzzer target for C16: bytes -> (sub-check selector, random stream of that sub-check's proptest strategy) -> same oracle.
#![no_main]
use libfuzzer_sys::fuzz_target;
use std::sync::OnceLock;

static DEF: OnceLock<vcheck::fw::PropertyDef> = OnceLock::new();

fuzz_target!(|data: &[u8]| {
    let def = DEF.get_or_init(|| vcheck::engines::property("C16", vcheck::fw::Tier::Quick).expect("property"));
    vcheck::fw::fuzz_one("C16", &def.props, data);
});
