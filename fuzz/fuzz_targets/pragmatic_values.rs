//! libFuzzer target: structure-aware value mutation of the repository's example problems; oracles of C10 (totality of
//! reading) and C11 (serialise/parse idempotence) inside the target, see harness/src/engines/fuzzing.rs.
#![no_main]
use libfuzzer_sys::fuzz_target;
use std::sync::Once;

static INIT: Once = Once::new();

fuzz_target!(|data: &[u8]| {
    INIT.call_once(|| {
        // replaces libFuzzer's abort-on-panic hook: known panics are tolerated in-target, everything else is reported below
        vcheck::fw::init_panic_hook();
    });
    if let Err(report) = vcheck::engines::fuzzing::pragmatic_values(data) {
        eprintln!("FINDING {report}");
        std::process::abort();
    }
});
