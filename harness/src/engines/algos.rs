//! C17: contracts of LKH re-sequencing, DBSCAN and k-medoids.

use crate::fw::*;
use proptest::prelude::*;
use serde::{Deserialize, Serialize};
use serde_json::json;
use std::cell::Cell;
use std::collections::{BTreeSet, HashMap, HashSet, VecDeque};
use vrp_core::algorithms::clustering::dbscan::create_clusters;
use vrp_core::algorithms::clustering::kmedoids::{Point, create_hierarchical_kmedoids, create_kmedoids};
use vrp_core::algorithms::lkh::{AdjacencySpec, Edge, Node, lkh_optimize};

// ---------------------------------------------------------------------------------------------
// LKH
// ---------------------------------------------------------------------------------------------

#[derive(Clone, Debug, Serialize, Deserialize)]
pub enum Geometry {
    /// euclidean points on a small integer grid (ties, duplicates, collinear)
    Grid(Vec<(u8, u8)>),
    /// arbitrary symmetric matrix (upper triangle, small ints incl. zeros) - may be non-metric
    Matrix(Vec<u8>),
}

#[derive(Clone, Debug, Serialize, Deserialize)]
pub struct LkhCase {
    pub n: u8,
    pub geometry: Geometry,
    /// permutation seed for the start path
    pub perm: Vec<u16>,
    pub identity_start: bool,
}

pub struct LkhProp;

pub static LKH_BUDGET: std::sync::atomic::AtomicU64 = std::sync::atomic::AtomicU64::new(10_000_000);

struct Adj {
    n: usize,
    cost: Vec<f64>,
    neighbours: Vec<Vec<Node>>,
    calls: Cell<u64>,
}

impl AdjacencySpec for &Adj {
    fn cost(&self, edge: &Edge) -> f64 {
        let c = self.calls.get() + 1;
        self.calls.set(c);
        if c > LKH_BUDGET.load(std::sync::atomic::Ordering::Relaxed) {
            panic!("harness: LKH cost budget exceeded");
        }
        self.cost[edge.0 * self.n + edge.1]
    }
    fn neighbours(&self, node: Node) -> &[Node] {
        &self.neighbours[node]
    }
}

fn build_adj(n: usize, g: &Geometry) -> Adj {
    let mut cost = vec![0f64; n * n];
    match g {
        Geometry::Grid(pts) => {
            for i in 0..n {
                for j in 0..n {
                    let (a, b) = (pts[i % pts.len()], pts[j % pts.len()]);
                    let (dx, dy) = (a.0 as f64 - b.0 as f64, a.1 as f64 - b.1 as f64);
                    cost[i * n + j] = (dx * dx + dy * dy).sqrt();
                }
            }
        }
        Geometry::Matrix(vals) => {
            let mut k = 0;
            for i in 0..n {
                for j in (i + 1)..n {
                    let v = vals[k % vals.len().max(1)] as f64;
                    k += 1;
                    cost[i * n + j] = v;
                    cost[j * n + i] = v;
                }
            }
        }
    }
    let neighbours = (0..n)
        .map(|i| {
            let mut others = (0..n).filter(|j| *j != i).collect::<Vec<_>>();
            others.sort_by(|a, b| cost[i * n + a].total_cmp(&cost[i * n + b]));
            others
        })
        .collect();
    Adj { n, cost, neighbours, calls: Cell::new(0) }
}

fn tour_cost(adj: &Adj, path: &[Node]) -> f64 {
    let n = path.len();
    (0..n).map(|i| adj.cost[path[i] * adj.n + path[(i + 1) % n]]).sum()
}

impl Prop for LkhProp {
    type Case = LkhCase;
    fn name(&self) -> &'static str {
        "lkh"
    }
    fn strategy(&self, tier: Tier) -> BoxedStrategy<LkhCase> {
        let max_n = tier.pick(11u8, 14u8);
        (3u8..=max_n)
            .prop_flat_map(|n| {
                let geometry = prop_oneof![
                    3 => prop::collection::vec((0u8..6, 0u8..6), n as usize).prop_map(Geometry::Grid),
                    1 => prop::collection::vec((0u8..40, 0u8..2), n as usize).prop_map(Geometry::Grid), // near-collinear
                    2 => prop::collection::vec(0u8..12, (n as usize * (n as usize - 1)) / 2).prop_map(Geometry::Matrix),
                ];
                (Just(n), geometry, prop::collection::vec(any::<u16>(), n as usize), prop::bool::weighted(0.4))
            })
            .prop_map(|(n, geometry, perm, identity_start)| LkhCase { n, geometry, perm, identity_start })
            .boxed()
    }
    fn cases(&self, tier: Tier) -> u32 {
        tier.pick(4_000, 150_000)
    }
    fn shards(&self, _tier: Tier) -> u32 {
        16
    }
    fn check(&self, c: &LkhCase, stats: &Stats) -> Check {
        let n = c.n as usize;
        if let Some(b) = std::env::var("VERIF_LKH_BUDGET").ok().and_then(|b| b.parse::<u64>().ok()) {
            LKH_BUDGET.store(b, std::sync::atomic::Ordering::Relaxed);
        }
        let adj = build_adj(n, &c.geometry);
        let path: Vec<Node> = if c.identity_start {
            (0..n).collect()
        } else {
            let mut rest: Vec<Node> = (0..n).collect();
            let mut out = vec![];
            for k in 0..n {
                let i = pick_idx(c.perm[k], rest.len());
                out.push(rest.remove(i));
            }
            out
        };
        let input_cost = tour_cost(&adj, &path);
        let result = match guard(|| lkh_optimize(&adj, path.clone())) {
            Ok(r) => r,
            Err(p) if p.contains("harness: LKH cost budget exceeded") => {
                // Fixed-work bound (not wall clock): >=400x the largest number of cost evaluations ever
                // observed on a terminating run for n<=14, so exceeding it is reported as a violation of
                // "always terminates".
                return Err(Failure::new("lkh:no-termination-within-work-bound", format!("LKH did not finish within the cost-evaluation budget for n={n}, path {path:?}")));
            }
            Err(p) => return Err(Failure::new(format!("lkh:panic:{}", panic_site(&p)), format!("lkh_optimize panicked: {p}; path {path:?}"))),
        };
        ensure!(!result.is_empty(), "lkh:empty", "no path returned");
        let expected: BTreeSet<Node> = path.iter().copied().collect();
        let mut improved = false;
        for r in result.iter() {
            ensure!(r.len() == n && r.iter().copied().collect::<BTreeSet<_>>() == expected, "lkh:not-permutation", "returned path {r:?} is not a permutation of {path:?}");
            ensure!(r[0] == path[0], "lkh:start-node", "returned path {r:?} does not start at the start node of {path:?}");
            let rc = tour_cost(&adj, r);
            ensure!(rc <= input_cost + 1e-9 * input_cost.max(1.), "lkh:cost-increased", "returned path {r:?} has closed-tour cost {rc} above the input's {input_cost} ({path:?})");
            if r != &path {
                improved = true;
            }
        }
        stats.eval();
        stats.class_max("lkh.max_cost_evaluations_seen", adj.calls.get());
        if improved {
            stats.nontrivial(hash_of(&format!("{c:?}")));
            stats.class("lkh.improved");
        }
        stats.class(if c.identity_start { "lkh.identity_start" } else { "lkh.permuted_start" });
        stats.class(match c.geometry {
            Geometry::Grid(_) => "lkh.euclidean",
            Geometry::Matrix(_) => "lkh.arbitrary_symmetric",
        });
        stats.sample(2, || json!({"kind": "lkh", "n": n, "start": path, "result": result.last(), "input_cost": input_cost}));
        Ok(())
    }
}

// ---------------------------------------------------------------------------------------------
// DBSCAN
// ---------------------------------------------------------------------------------------------

#[derive(Clone, Debug, Serialize, Deserialize)]
pub struct DbscanCase {
    pub points: Vec<(u8, u8)>,
    /// squared eps
    pub eps2: u16,
    pub min_pts: u8,
}

pub struct DbscanProp;

impl Prop for DbscanProp {
    type Case = DbscanCase;
    fn name(&self) -> &'static str {
        "dbscan"
    }
    fn strategy(&self, _tier: Tier) -> BoxedStrategy<DbscanCase> {
        (prop::collection::vec((0u8..12, 0u8..12), 0..40), prop_oneof![Just(0u16), Just(1), Just(2), Just(4), Just(5), Just(8), Just(9), 0u16..30], 1u8..7)
            .prop_map(|(points, eps2, min_pts)| DbscanCase { points, eps2, min_pts })
            .boxed()
    }
    fn cases(&self, tier: Tier) -> u32 {
        tier.pick(6_000, 200_000)
    }
    fn check(&self, c: &DbscanCase, stats: &Stats) -> Check {
        let n = c.points.len();
        let ids: Vec<usize> = (0..n).collect();
        let near = |i: usize, j: usize| {
            let (a, b) = (c.points[i], c.points[j]);
            let (dx, dy) = (a.0 as i32 - b.0 as i32, a.1 as i32 - b.1 as i32);
            (dx * dx + dy * dy) as u32 <= c.eps2 as u32
        };
        let nb: Vec<Vec<usize>> = (0..n).map(|i| (0..n).filter(|j| near(i, *j)).collect()).collect();
        let min_pts = c.min_pts as usize;
        let ids_ref = &ids;
        let nb_ref = &nb;
        let clusters = create_clusters(ids.as_slice(), min_pts, move |p: &usize| nb_ref[*p].iter().map(move |j| &ids_ref[*j]));
        let clusters: Vec<Vec<usize>> = clusters.into_iter().map(|cl| cl.into_iter().copied().collect()).collect();
        let is_core = |i: usize| nb[i].len() >= min_pts;
        // pairwise disjoint, no duplicates inside
        let mut owner: HashMap<usize, usize> = HashMap::new();
        for (ci, cl) in clusters.iter().enumerate() {
            for p in cl {
                ensure!(owner.insert(*p, ci).is_none(), "dbscan:not-disjoint", "point {p} appears twice (clusters {clusters:?})");
            }
        }
        for (ci, cl) in clusters.iter().enumerate() {
            let cores = cl.iter().copied().filter(|p| is_core(*p)).collect::<Vec<_>>();
            ensure!(!cores.is_empty(), "dbscan:no-core", "cluster {ci} {cl:?} contains no core point");
            // every member must be density-reachable from a core point of the cluster: BFS over
            // core points starting from each core of the cluster until all members are covered
            let mut reachable_from_any = false;
            for start in cores.iter() {
                let mut seen: HashSet<usize> = HashSet::from([*start]);
                let mut q = VecDeque::from([*start]);
                while let Some(x) = q.pop_front() {
                    if is_core(x) {
                        for y in nb[x].iter() {
                            if seen.insert(*y) {
                                q.push_back(*y);
                            }
                        }
                    }
                }
                if cl.iter().all(|p| seen.contains(p)) {
                    reachable_from_any = true;
                    break;
                }
            }
            ensure!(reachable_from_any, "dbscan:not-density-reachable", "cluster {ci} {cl:?} has members not density-reachable from one of its core points (eps2={}, min_pts={min_pts}, points {:?})", c.eps2, c.points);
        }
        for i in 0..n {
            if is_core(i) {
                ensure!(owner.contains_key(&i), "dbscan:core-unclustered", "core point {i} is in no cluster");
            }
        }
        stats.eval();
        let noise_or_border = (0..n).any(|i| !is_core(i));
        if clusters.len() >= 2 && noise_or_border {
            stats.nontrivial(hash_of(&format!("{c:?}")));
            stats.class("dbscan.multi_cluster_with_border_or_noise");
        }
        if (0..n).any(|i| !is_core(i) && owner.contains_key(&i)) {
            stats.class("dbscan.border_point");
        }
        stats.sample(1, || json!({"kind": "dbscan", "points": c.points, "eps2": c.eps2, "min_pts": min_pts, "clusters": clusters}));
        Ok(())
    }
}

// ---------------------------------------------------------------------------------------------
// k-medoids
// ---------------------------------------------------------------------------------------------

#[derive(Clone, Debug, Hash, PartialEq, Eq)]
struct P(usize);
impl Point for P {}

#[derive(Clone, Debug, Serialize, Deserialize)]
pub struct KmCase {
    pub points: Vec<(u8, u8)>,
    pub k: u16,
    pub tiers: u8,
    pub hierarchical: bool,
}

pub struct KmProp;

impl Prop for KmProp {
    type Case = KmCase;
    fn name(&self) -> &'static str {
        "kmedoids"
    }
    fn strategy(&self, _tier: Tier) -> BoxedStrategy<KmCase> {
        (prop::collection::vec((0u8..10, 0u8..10), 1..30), any::<u16>(), 1u8..=4, any::<bool>())
            .prop_map(|(points, k, tiers, hierarchical)| KmCase { points, k, tiers, hierarchical })
            .boxed()
    }
    fn cases(&self, tier: Tier) -> u32 {
        tier.pick(3_000, 100_000)
    }
    fn check(&self, c: &KmCase, stats: &Stats) -> Check {
        let n = c.points.len();
        let pts: Vec<P> = (0..n).map(P).collect();
        let coords = c.points.clone();
        let dist = move |a: &P, b: &P| {
            let (x, y) = (coords[a.0], coords[b.0]);
            let (dx, dy) = (x.0 as f64 - y.0 as f64, x.1 as f64 - y.1 as f64);
            (dx * dx + dy * dy).sqrt()
        };
        let all: BTreeSet<usize> = (0..n).collect();
        let has_ties = {
            let set: HashSet<(u8, u8)> = c.points.iter().copied().collect();
            set.len() < n
        };
        let check_partition = |clusters: &HashMap<P, Vec<P>>, what: &str| -> Check {
            let mut seen = BTreeSet::new();
            for (_, members) in clusters.iter() {
                for m in members {
                    ensure!(seen.insert(m.0), "kmedoids:not-disjoint", "{what}: point {} appears in two clusters: {clusters:?}", m.0);
                }
            }
            ensure!(seen == all, "kmedoids:not-all-points", "{what}: clustered points {seen:?} != all points 0..{n}: {clusters:?}");
            Ok(())
        };
        let check_nearest = |clusters: &HashMap<P, Vec<P>>, what: &str| -> Check {
            for (own, members) in clusters.iter() {
                for m in members {
                    for other in clusters.keys() {
                        ensure!(
                            dist(m, own) <= dist(m, other) + 1e-9,
                            "kmedoids:closer-to-other-medoid",
                            "{what}: point {} is closer to medoid {} ({}) than to its own {} ({})",
                            m.0,
                            other.0,
                            dist(m, other),
                            own.0,
                            dist(m, own)
                        );
                    }
                }
            }
            Ok(())
        };
        if c.hierarchical {
            let tiers = match guard(|| create_hierarchical_kmedoids(&pts, c.tiers as usize, dist.clone())) {
                Ok(t) => t,
                Err(p) => {
                    let class = if n == 1 { "single-point" } else { "general" };
                    return Err(Failure::new(format!("kmedoids:hierarchical-panic:{class}"), format!("create_hierarchical_kmedoids panicked on {n} point(s), tiers {}: {p}", c.tiers)));
                }
            };
            let mut prev: Option<&HashMap<P, Vec<P>>> = None;
            for (ti, tier) in tiers.iter().enumerate() {
                check_partition(tier, &format!("tier {ti}"))?;
                // siblings (clusters contained in the same parent cluster) satisfy the nearest-medoid rule
                let parents: Vec<BTreeSet<usize>> = match prev {
                    Some(p) => p.values().map(|v| v.iter().map(|x| x.0).collect()).collect(),
                    None => vec![all.clone()],
                };
                for parent in parents.iter() {
                    let siblings: HashMap<P, Vec<P>> = tier.iter().filter(|(_, v)| v.iter().all(|x| parent.contains(&x.0))).map(|(k, v)| (k.clone(), v.clone())).collect();
                    let covered: BTreeSet<usize> = siblings.values().flat_map(|v| v.iter().map(|x| x.0)).collect();
                    ensure!(&covered == parent, "kmedoids:tier-not-refinement", "tier {ti}: clusters do not refine parent cluster {parent:?}: {tier:?}");
                    check_nearest(&siblings, &format!("tier {ti} siblings"))?;
                }
                prev = Some(tier);
            }
            stats.class("kmedoids.hierarchical");
            if tiers.len() >= 2 {
                stats.class("kmedoids.multi_tier");
            }
        } else {
            let k = 1 + pick_idx(c.k, n);
            let clusters = create_kmedoids(&pts, k, dist.clone());
            check_partition(&clusters, "k-medoids")?;
            check_nearest(&clusters, "k-medoids")?;
            ensure!(clusters.len() <= k, "kmedoids:too-many-clusters", "{} clusters for k={k}", clusters.len());
            stats.class("kmedoids.flat");
        }
        stats.eval();
        if has_ties && n >= 3 {
            stats.nontrivial(hash_of(&format!("{c:?}")));
            stats.class("kmedoids.with_duplicate_coordinates");
        }
        stats.sample(1, || json!({"kind": "kmedoids", "points": c.points, "hierarchical": c.hierarchical, "k": c.k, "tiers": c.tiers}));
        Ok(())
    }
}

pub fn property(_tier: Tier) -> PropertyDef {
    PropertyDef {
        id: "C17",
        level: "exploration",
        rule: "proptest: (LKH) symmetric cost matrices n=3..11 (thorough 14) from integer-grid euclidean points (ties, duplicates, near-collinear) and arbitrary small symmetric matrices incl. zeros/non-metric, start path = identity or any permutation, neighbour lists = all other nodes sorted by cost as the shipped caller builds them; every returned path must be a permutation starting at the same node with closed-tour cost <= input (1e-9); termination bounded by a fixed work bound of 1e7 cost evaluations (terminating runs need < 1e5), exceeding it is a violation. (DBSCAN) 0-40 points on a 12x12 grid, eps, min_pts 1-6, symmetric neighbourhood incl. the point itself; clusters disjoint, contain a core point, members density-reachable (independent BFS), no core point unclustered. (k-medoids) 1-29 points on a 10x10 grid with duplicates, flat k in 1..=n and hierarchical 1-4 tiers; partition of all points, no point closer to another medoid than to its own (per tier: among the sub-clusters of the same parent). Non-trivial: LKH result differs from the input; DBSCAN >=2 clusters with a border/noise point; k-medoids on >=3 points with duplicate coordinates. Distinct by case hash.",
        assumptions: vec![
            "k-medoids k restricted to 1..=n (k>n has no partition into k medoids)",
            "hierarchical tiers: the nearest-medoid rule is asserted among clusters split from the same parent (the algorithm clusters each parent separately)",
            "liveness is only bounded: the bound is a deterministic amount of work (1e7 cost evaluations, >=400x the maximum observed on terminating runs), not wall-clock time",
        ],
        props: vec![Box::new(LkhProp), Box::new(DbscanProp), Box::new(KmProp)],
        extra: None,
        required_classes: vec!["lkh.improved", "lkh.identity_start", "lkh.permuted_start", "lkh.euclidean", "lkh.arbitrary_symmetric", "dbscan.multi_cluster_with_border_or_noise", "dbscan.border_point", "kmedoids.flat", "kmedoids.hierarchical", "kmedoids.multi_tier", "kmedoids.with_duplicate_coordinates"],
    }
}
