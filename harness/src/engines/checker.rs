//! stub (engine under construction)
use crate::fw::*;

pub fn property(_tier: Tier) -> PropertyDef {
    PropertyDef { id: "STUB", level: "exploration", rule: "stub", assumptions: vec![], props: vec![], extra: None, required_classes: vec!["stub.never"] }
}
