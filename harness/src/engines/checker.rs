//! C12: the bundled solution checker accepts valid solver outputs and rejects single-breach mutants.
//!
//! Positive oracle: a solver output for which the reference model R reports no finding at all must
//! be accepted. Negative oracle: a mutant is asserted only when R (or, for relations, the
//! construction itself) certifies that the injected breach is genuine.

use super::common::{fmt_time, parse_time};
use super::e2e::{read_core, solve_to_solution, tolerance};
use super::pgen::*;
use super::refmodel;
use crate::fw::*;
use proptest::prelude::*;
use serde::{Deserialize, Serialize};
use serde_json::json;
use std::collections::BTreeMap;
use std::sync::{Arc, Mutex};
use vrp_core::models::Problem as CoreProblem;
use vrp_pragmatic::checker::CheckerContext;
use vrp_pragmatic::format::Location as ApiLocation;
use vrp_pragmatic::format::problem as api;
use vrp_pragmatic::format::solution as sol;

const PROPERTY: &str = "C12";

#[derive(Clone, Debug, Serialize, Deserialize)]
pub struct CheckerCase {
    pub spec: ProblemSpec,
    pub config: ConfigSpec,
    /// magnitude of time / distance shifts (>= 2: the checker documents a tolerance of 1)
    pub delta: u16,
}

type Outcome = Result<Result<(), Vec<String>>, String>;

/// Runs the checker exactly as vrp-cli's `check_pragmatic_solution` does (core problem read from the same document).
fn run_checker(core: &Arc<CoreProblem>, p: &api::Problem, m: &[api::Matrix], s: &sol::Solution) -> Outcome {
    guard(|| CheckerContext::new(core.clone(), p.clone(), Some(m.to_vec()), s.clone()).and_then(|ctx| ctx.check()).map_err(|e| e.iter().map(|x| x.to_string()).collect()))
}

/// Strips quoted values, everything after the first colon and digits: the rest names the rule.
fn normalise(msg: &str) -> String {
    let mut out = String::new();
    let mut prev = ' ';
    let mut quoted = false;
    for c in msg.chars() {
        if quoted {
            quoted = c != '\'';
        } else if c == '\'' && (prev == ' ' || prev == ':') {
            quoted = true;
        } else {
            out.push(c);
        }
        prev = c;
    }
    let out = out.split(':').next().unwrap_or("").split(", expected").next().unwrap_or("").split(" at stop").next().unwrap_or("");
    let out: String = out.chars().map(|c| if c.is_ascii_digit() { '#' } else { c }).collect();
    let out = out.replace("##", "#").replace("##", "#");
    out.split_whitespace().collect::<Vec<_>>().join(" ").chars().take(70).collect()
}

/// Development aid (VERIF_C12_DUMP=1): the smallest document seen per failing signature is written as a
/// `checker_doc` replay file to $VERIF_ROOT/c12_minimal (corpus candidates for known findings).
static MINIMAL: Mutex<BTreeMap<String, String>> = Mutex::new(BTreeMap::new());

fn keep_minimal(sig: &str, expect: &str, p: &api::Problem, m: &[api::Matrix], s: &sol::Solution) {
    if std::env::var_os("VERIF_C12_DUMP").is_some() {
        let case = json!({"property": PROPERTY, "prop": "checker_doc", "repeats": 1, "signature": sig, "case": {"problem": p, "matrices": m, "solution": s, "expect": expect}}).to_string();
        let mut kept = MINIMAL.lock().unwrap();
        if kept.get(sig).is_none_or(|old| case.len() < old.len()) {
            kept.insert(sig.to_string(), case);
        }
    }
}

fn dump_minimal(_: &RunCtx) -> Vec<Found> {
    let dir = verif_root().join("c12_minimal");
    for (k, (sig, case)) in MINIMAL.lock().unwrap().iter().enumerate() {
        let _ = std::fs::create_dir_all(&dir);
        let name: String = sig.chars().map(|c| if c.is_ascii_alphanumeric() { c } else { '-' }).collect();
        let _ = std::fs::write(dir.join(format!("{k:02}-{name}.json")), case);
    }
    vec![]
}

/// Optional breaks of the shift of every tour: (window - offsets counted from the tour's departure -, policy is
/// skip-if-arrival-before-end, assigned, violations listed for the vehicle shift,
/// (first stop departure, last stop arrival, last stop departure)).
fn window_breaks<'a>(p: &api::Problem, s: &sol::Solution, tours: impl Iterator<Item = &'a sol::Tour>) -> Vec<((i64, i64), bool, bool, usize, (i64, i64, i64))> {
    let time = |x: &String| parse_time(x).unwrap_or(0);
    let mut out = vec![];
    for t in tours {
        let at = (t.stops.first().map_or(0, |st| time(&st.schedule().departure)), t.stops.last().map_or(0, |st| time(&st.schedule().arrival)), t.stops.last().map_or(0, |st| time(&st.schedule().departure)));
        let origin = t.stops.first().and_then(|st| st.activities().first()).and_then(|a| a.time.as_ref()).map_or(at.0, |i| time(&i.end));
        let shift = p.fleet.vehicles.iter().find(|v| v.vehicle_ids.contains(&t.vehicle_id)).and_then(|v| v.shifts.get(t.shift_index));
        let reported = s.violations.iter().flatten().filter(|v| matches!(v, sol::Violation::Break { vehicle_id, shift_index } if *vehicle_id == t.vehicle_id && *shift_index == t.shift_index)).count();
        for b in shift.into_iter().flat_map(|sh| sh.breaks.iter().flatten()) {
            if let api::VehicleBreak::Optional { time: when, places, policy } = b {
                let window = match when {
                    api::VehicleOptionalBreakTime::TimeWindow(w) => (time(&w[0]), time(&w[1])),
                    api::VehicleOptionalBreakTime::TimeOffset(o) => (origin + o[0] as i64, origin + o[1] as i64),
                };
                let assigned = t.stops.iter().flat_map(|st| st.activities().iter()).any(|a| a.activity_type == "break" && places.iter().any(|pl| pl.tag == a.job_tag));
                out.push((window, matches!(policy, Some(api::VehicleOptionalBreakPolicy::SkipIfArrivalBeforeEnd)), assigned, reported, at));
            }
        }
    }
    out
}

/// Defects of the solver's own break reporting (documentation: a break that cannot be assigned is returned
/// in `violations`): such an output is not a valid solution, so the positive oracle does not apply to it.
fn break_reporting_defect(p: &api::Problem, s: &sol::Solution) -> Option<&'static str> {
    let breaks = window_breaks(p, s, s.tours.iter());
    if breaks.iter().any(|(_, _, assigned, reported, _)| *reported > 1 || (*assigned && *reported > 0)) {
        // pgen defines at most one break per shift
        Some("break_violation_listed_too_often")
    } else if breaks.iter().any(|((from, to), before_end, assigned, reported, (departure, arrival, _))| !assigned && *reported == 0 && if *before_end { arrival > to } else { from < arrival && departure <= to }) {
        Some("due_break_neither_assigned_nor_reported")
    } else {
        None
    }
}

/// Names the circumstance known to trigger a false rejection, so that a known-finding signature
/// does not hide other causes behind the same error text. Empty when no known circumstance applies.
fn context(msg: &str, p: &api::Problem, s: &sol::Solution) -> &'static str {
    let time = |x: &String| parse_time(x).unwrap_or(0);
    let tasks = |j: &api::Job| [&j.pickups, &j.deliveries, &j.replacements, &j.services].into_iter().flatten().flatten().cloned().collect::<Vec<api::JobTask>>();
    // tours of the vehicle named in the message (all tours when it names none)
    let tours = || s.tours.iter().filter(|t| !s.tours.iter().any(|x| msg.contains(&format!("'{}'", x.vehicle_id))) || msg.contains(&format!("'{}'", t.vehicle_id)));
    let acts = || s.tours.iter().flat_map(|t| t.stops.iter().flat_map(|st| st.activities().iter().map(move |a| (st, a))));
    let job_at_departure = || tours().any(|t| t.stops.first().is_some_and(|st| st.activities().iter().any(is_customer)));
    let reload_shares_stop = || tours().flat_map(|t| t.stops.iter()).any(|st| st.activities().len() > 1 && st.activities().iter().any(|a| a.activity_type == "reload"));
    let shared_location = || p.plan.jobs.iter().flat_map(tasks).any(|t| t.places.iter().enumerate().any(|(i, a)| t.places[..i].iter().any(|b| b.location == a.location)));
    let spans_windows = || {
        acts().filter(|(_, a)| is_customer(a)).any(|(st, a)| {
            let (from, to) = a.time.as_ref().map_or((time(&st.schedule().arrival), time(&st.schedule().departure)), |t| (time(&t.start), time(&t.end)));
            let place = p.plan.jobs.iter().filter(|j| j.id == a.job_id).flat_map(tasks).flat_map(|t| t.places).find(|pl| pl.tag == a.job_tag);
            place.and_then(|pl| pl.times).is_some_and(|w| w.iter().filter(|w| time(&w[0]) <= to && from <= time(&w[1])).count() >= 2)
        })
    };
    let break_inside_stop = || tours().flat_map(|t| t.stops.iter()).any(|st| st.activities().iter().enumerate().any(|(k, a)| a.activity_type == "break" && k >= 1 && k + 1 < st.activities().len()));
    // the checker resolves the shift of a tour by time overlap: an earlier shift whose range overlaps the tour wins
    let shift_by_time = || {
        tours().any(|t| {
            let (from, to) = (t.stops.first().map_or(0, |st| time(&st.schedule().arrival)), t.stops.last().map_or(0, |st| time(&st.schedule().arrival)));
            let shifts = p.fleet.vehicles.iter().find(|v| v.vehicle_ids.contains(&t.vehicle_id)).map(|v| v.shifts.clone()).unwrap_or_default();
            shifts.iter().position(|sh| time(&sh.start.earliest) <= to && from <= sh.end.as_ref().map_or(i64::MAX, |e| time(&e.latest))) != Some(t.shift_index)
        })
    };
    let window_breaks = || window_breaks(p, s, tours()).into_iter();
    // the checker takes the arrival at the last stop as the end of the tour although the tour goes on until that stop's departure
    let break_at_last_stop = || window_breaks().any(|((from, to), _, _, _, (_, arrival, end))| (arrival <= from && from <= end) || (arrival <= to && to <= end));
    // skip-if-no-intersection: the checker only compares the window start with the tour end
    let break_before_departure = || window_breaks().any(|((_, to), _, _, _, (departure, _, _))| to < departure);
    // offset breaks are measured from the departure of the first stop, which is later than the tour start when jobs are served there
    let offset_break_busy_start = || {
        tours().any(|t| {
            let shift = p.fleet.vehicles.iter().find(|v| v.vehicle_ids.contains(&t.vehicle_id)).and_then(|v| v.shifts.get(t.shift_index));
            t.stops.first().is_some_and(|st| st.activities().len() > 1) && shift.iter().flat_map(|sh| sh.breaks.iter().flatten()).any(|b| matches!(b, api::VehicleBreak::Optional { time: api::VehicleOptionalBreakTime::TimeOffset(_), .. }))
        })
    };
    let rules: [(&str, &dyn Fn() -> bool, &'static str); 14] = [
        ("cannot find break", &offset_break_busy_start, " [offset break, activities at the departure stop]"),
        ("amount of breaks does not match", &offset_break_busy_start, " [offset break, activities at the departure stop]"),
        ("cannot find break", &shift_by_time, " [shift of the tour resolved by time overlap]"),
        ("cannot find reload", &shift_by_time, " [shift of the tour resolved by time overlap]"),
        ("tour size limit", &shift_by_time, " [shift of the tour resolved by time overlap]"),
        ("load mismatch", &reload_shares_stop, " [reload shares a stop]"),
        ("load mismatch", &job_at_departure, " [job at departure stop]"),
        ("cannot match activities to jobs", &shared_location, " [places of a task share a location]"),
        ("cannot match activities to jobs", &spans_windows, " [service interval touches two time windows]"),
        ("cannot match all breaks", &break_inside_stop, " [break between two activities of a stop]"),
        ("amount of breaks does not match", &break_at_last_stop, " [break window boundary inside the last stop]"),
        ("amount of breaks does not match", &break_before_departure, " [break window ends before departure]"),
        ("break location", &shift_by_time, " [shift of the tour resolved by time overlap]"),
        ("amount of breaks does not match", &shift_by_time, " [shift of the tour resolved by time overlap]"),
    ];
    rules.iter().find(|(prefix, holds, _)| msg.starts_with(prefix) && holds()).map_or("", |r| r.2)
}

fn is_customer(a: &sol::Activity) -> bool {
    matches!(a.activity_type.as_str(), "pickup" | "delivery" | "service" | "replacement")
}

fn shifted(s: &str, d: i64) -> String {
    parse_time(s).map(|t| fmt_time(t + d)).unwrap_or_else(|| s.to_string())
}

fn pt(s: &mut sol::Solution, ti: usize, si: usize) -> &mut sol::PointStop {
    match &mut s.tours[ti].stops[si] {
        sol::Stop::Point(p) => p,
        _ => panic!("harness: transit stops are not generated"),
    }
}

fn rule_in(rule: &str, family: &[&str]) -> bool {
    family.iter().any(|f| f.strip_suffix('*').map_or(rule == *f, |pre| rule.starts_with(pre)))
}

/// Removes an activity; a stop left without activities disappears with it.
fn remove_activity(s: &mut sol::Solution, ti: usize, si: usize, ai: usize) -> sol::Activity {
    let (loc, time) = {
        let p = pt(s, ti, si);
        (p.location.clone(), sol::Interval { start: p.time.arrival.clone(), end: p.time.departure.clone() })
    };
    let mut a = pt(s, ti, si).activities.remove(ai);
    a.location.get_or_insert(loc);
    a.time.get_or_insert(time);
    if pt(s, ti, si).activities.is_empty() {
        s.tours[ti].stops.remove(si);
    }
    a
}

/// Adds an activity to the first stop after the departure stop of a tour (before a closing arrival).
fn add_activity(s: &mut sol::Solution, ti: usize, a: sol::Activity) {
    let si = 1.min(s.tours[ti].stops.len() - 1);
    let acts = &mut pt(s, ti, si).activities;
    let at = if acts.last().is_some_and(|l| l.activity_type == "arrival") { acts.len() - 1 } else { acts.len() };
    acts.insert(at, a);
}

fn unassigned_entry(id: &str) -> sol::UnassignedJob {
    sol::UnassignedJob { job_id: id.to_string(), reasons: vec![sol::UnassignedJobReason { code: "NO_REASON_FOUND".into(), description: "unknown".into(), details: None }] }
}

struct Env<'a> {
    problem: &'a api::Problem,
    matrices: &'a [api::Matrix],
    core: Arc<CoreProblem>,
    base: &'a sol::Solution,
    tol: i64,
    case_hash: u64,
    stats: &'a Stats,
}

impl Env<'_> {
    fn resolve<'b>(&'b self, name: &str, p2: Option<&'b api::Problem>) -> Option<(&'b api::Problem, Arc<CoreProblem>)> {
        match p2 {
            None => Some((self.problem, self.core.clone())),
            Some(p) => match read_core(p, self.matrices) {
                Ok(core) => Some((p, core)),
                Err(_) => {
                    self.stats.class(&format!("{name}.problem_variant_unreadable"));
                    None
                }
            },
        }
    }

    /// A failed expectation: open known findings are counted and skipped (the campaign continues behind them).
    fn flag(&self, sig: String, known_class: String, expect: &str, p: &api::Problem, s: &sol::Solution, message: String) -> Check {
        keep_minimal(&sig, expect, p, self.matrices, s);
        if known_open(PROPERTY, &sig) {
            self.stats.known_hit(&sig);
            self.stats.class(&known_class);
            return Ok(());
        }
        Err(Failure::new(sig, format!("{message}\n--- document:\n{}", json!({"problem": p, "matrices": self.matrices, "solution": s}))))
    }

    /// Positive oracle on (P', S'): asserted only when R has no finding at all.
    fn accept(&self, name: &str, p2: Option<&api::Problem>, s: &sol::Solution) -> Result<bool, Failure> {
        let st = self.stats;
        let Some((p, core)) = self.resolve(&format!("pos.{name}"), p2) else { return Ok(false) };
        let verdict = refmodel::evaluate(p, self.matrices, s, self.tol);
        if !verdict.findings.is_empty() {
            st.class(&format!("pos.{name}.skipped_r_findings"));
            for f in verdict.findings.iter() {
                st.class(&format!("pos.{name}.r_finding.{}", f.rule));
            }
            return Ok(false);
        }
        st.eval();
        match run_checker(&core, p, self.matrices, s) {
            Ok(Ok(())) => {
                st.class(&format!("pos.{name}.accepted"));
                Ok(true)
            }
            Ok(Err(errs)) => {
                let sig = format!("checker:rejects-valid:{}{}", normalise(&errs[0]), context(&errs[0], p, s));
                self.flag(sig, format!("pos.{name}.rejected_known"), "ok", p, s, format!("[{name}] R has no finding, checker rejects with: {errs:?}")).map(|_| false)
            }
            Err(panic) => self.flag(format!("checker:panic:{}", panic_site(&panic)), format!("pos.{name}.panicked_known"), "ok", p, s, format!("[{name}] checker panicked on a valid solution: {panic}")).map(|_| false),
        }
    }

    /// Negative oracle. `family` = R rules that certify the breach; `None` = certified by construction.
    fn breach(&self, name: &str, site: &str, far: bool, p2: Option<&api::Problem>, s: &sol::Solution, family: Option<&[&str]>) -> Check {
        let st = self.stats;
        st.class(&format!("mut.{name}.applied"));
        let Some((p, core)) = self.resolve(&format!("mut.{name}"), p2) else { return Ok(()) };
        let mut why = String::from("by construction");
        if let Some(family) = family {
            let verdict = refmodel::evaluate(p, self.matrices, s, self.tol);
            match verdict.findings.iter().find(|f| rule_in(&f.rule, family)) {
                Some(f) => why = format!("R: [{}] {}", f.rule, f.detail),
                None => {
                    st.class(&format!("mut.{name}.not_certified"));
                    return Ok(());
                }
            }
        }
        if name.contains("distance") && s.tours.iter().flat_map(|t| t.stops.iter()).all(|st| st.as_point().is_none_or(|x| x.distance == 0)) {
            // documented workaround of the checker (hre format): no distance check at all when every stop distance is 0
            st.class(&format!("unspecified.{name}.all_stop_distances_zero"));
            return Ok(());
        }
        st.class(&format!("mut.{name}.certified"));
        st.eval();
        if far {
            st.class("nontrivial.mutant_far_site");
            st.nontrivial(mix(self.case_hash, hash_str(&format!("{name}@{site}"))));
        }
        match run_checker(&core, p, self.matrices, s) {
            Ok(Err(errs)) => {
                st.class(&format!("mut.{name}.rejected"));
                // every reported rule (the first one alone would hide whether the intended rule fires at all)
                let mut rules = errs.iter().map(|e| normalise(e)).collect::<Vec<_>>();
                rules.sort();
                rules.dedup();
                rules.iter().for_each(|r| st.class(&format!("mut.{name}.rejected_by.{r}")));
                Ok(())
            }
            Ok(Ok(())) => self.flag(format!("checker:accepts-breach:{name}"), format!("mut.{name}.accepted_known"), name, p, s, format!("mutation {name} at {site} is a genuine breach ({why}) but check() returned Ok")),
            // neither Ok nor Err: a crash of the checker on a well-formed document
            Err(panic) => self.flag(format!("checker:panic:{}", panic_site(&panic)), format!("mut.{name}.panicked_known"), name, p, s, format!("mutation {name} at {site}: checker panicked: {panic}")),
        }
    }

    /// Behaviour the statement does not pin down (cost, time split, type id): observed and counted only.
    fn observe(&self, name: &str, s: &sol::Solution, family: &[&str]) {
        if refmodel::evaluate(self.problem, self.matrices, s, self.tol).findings.iter().any(|f| rule_in(&f.rule, family)) {
            let res = match run_checker(&self.core, self.problem, self.matrices, s) {
                Ok(Ok(())) => "accepted",
                Ok(Err(_)) => "rejected",
                Err(_) => "panicked",
            };
            self.stats.class(&format!("unspecified.{name}.{res}"));
        }
    }

    fn vehicle_index(&self, tour: &sol::Tour) -> Option<usize> {
        self.problem.fleet.vehicles.iter().position(|v| v.type_id == tour.type_id)
    }

    /// job id -> (tour, stop, activity) positions of its customer activities
    fn assigned(&self) -> BTreeMap<String, Vec<(usize, usize, usize)>> {
        let mut out: BTreeMap<String, Vec<(usize, usize, usize)>> = BTreeMap::new();
        for (ti, tour) in self.base.tours.iter().enumerate() {
            for (si, stop) in tour.stops.iter().enumerate() {
                for (ai, a) in stop.activities().iter().enumerate().filter(|(_, a)| is_customer(a)) {
                    out.entry(a.job_id.clone()).or_default().push((ti, si, ai));
                }
            }
        }
        out
    }

    // ------------------------------------------------------------------ mutations of S (and of limits in P)

    fn stop_mutations(&self, delta: i64) -> Check {
        let base = self.base;
        for (ti, tour) in base.tours.iter().enumerate() {
            let vt = self.vehicle_index(tour).map(|i| &self.problem.fleet.vehicles[i]);
            for si in 0..tour.stops.len() {
                let (far, first, site) = (ti > 0 || si >= 2, si == 0, format!("tour {ti} stop {si}"));
                // a tour without any leg (everything happens at the start location of an open shift) is a site class of its own
                // a departure stop that serves jobs and is directly followed by a reload stop belongs to a load interval without any leg
                let before_reload = si == 0 && tour.stops[0].activities().iter().any(is_customer) && tour.stops.get(1).is_some_and(|n| n.activities().first().is_some_and(|a| a.activity_type == "reload"));
                let lone = |name: &str| {
                    if tour.stops.len() == 1 {
                        format!("single-stop-tour.{name}")
                    } else if before_reload && name.starts_with("load.") {
                        format!("departure-stop-before-reload-stop.{name}")
                    } else {
                        name.to_string()
                    }
                };
                let width = tour.stops[si].load().len();
                let d = (ti + si) % width.max(1);
                let with_load = |f: &dyn Fn(&mut i32)| {
                    let mut s = base.clone();
                    let load = &mut pt(&mut s, ti, si).load;
                    load.resize(width.max(d + 1), 0);
                    f(&mut load[d]);
                    s
                };
                self.breach(&lone("load.plus1"), &site, far, None, &with_load(&|l| *l += 1), Some(&["stop-load"]))?;
                self.breach(&lone("load.minus1"), &site, far, None, &with_load(&|l| *l -= 1), Some(&["stop-load"]))?;
                if let Some(cap) = vt.and_then(|v| v.capacity.get(d).copied()) {
                    self.breach(&lone("load.above-capacity"), &site, far, None, &with_load(&|l| *l = cap + 1), Some(&["stop-load"]))?;
                }
                for (sign, later) in [(1, true), (-1, false)] {
                    let dv = sign * delta;
                    let mut s = base.clone();
                    let t = &mut pt(&mut s, ti, si).time;
                    t.arrival = shifted(&t.arrival, dv);
                    let name = if first { "arrival.first-stop" } else if later { "arrival.later" } else { "arrival.earlier" };
                    self.breach(&lone(name), &site, far, None, &s, Some(&["stop-arrival"]))?;

                    let mut s = base.clone();
                    let t = &mut pt(&mut s, ti, si).time;
                    t.departure = shifted(&t.departure, dv);
                    let name = if first { "departure.first-stop" } else if later { "departure.later" } else { "departure.earlier" };
                    self.breach(&lone(name), &site, far, None, &s, Some(if first { &["stop-departure", "stop-arrival"] } else { &["stop-departure"] }))?;

                    let mut s = base.clone();
                    pt(&mut s, ti, si).distance += dv;
                    let name = if first { "distance.first-stop" } else if later { "distance.more" } else { "distance.less" };
                    self.breach(&lone(name), &site, far, None, &s, Some(&["stop-distance"]))?;
                }
            }
        }
        Ok(())
    }

    fn job_mutations(&self) -> Check {
        let base = self.base;
        let tours = base.tours.len();
        for (id, places) in self.assigned().iter() {
            let (ti, si0, ai0) = places[0];
            let far = ti > 0 || si0 >= 2;
            let site = format!("job {id} (tour {ti} stop {si0})");
            for &(_, si, ai) in places.iter() {
                let (far, site) = (ti > 0 || si >= 2, format!("job {id} tour {ti} stop {si} activity {ai}"));
                let mut s = base.clone();
                pt(&mut s, ti, si).activities[ai].job_id = "ghost_job".to_string();
                self.breach("job.unknown-id", &site, far, None, &s, Some(&["unknown-job"]))?;

                let mut s = base.clone();
                let copy = pt(&mut s, ti, si).activities[ai].clone();
                pt(&mut s, ti, si).activities.insert(ai + 1, copy);
                self.breach("activity.duplicated", &site, far, None, &s, Some(&["activity-matches-no-task"]))?;

                if places.len() >= 2 && tours >= 2 {
                    let mut s = base.clone();
                    let a = remove_activity(&mut s, ti, si, ai);
                    add_activity(&mut s, (ti + 1) % tours, a);
                    self.breach("job.task-moved-to-other-tour", &site, true, None, &s, Some(&["job-in-two-tours"]))?;
                }
            }
            let mut s = base.clone();
            s.unassigned.get_or_insert_with(Vec::new).push(unassigned_entry(id));
            self.breach("job.assigned-and-unassigned", &site, far, None, &s, Some(&["assigned-and-unassigned"]))?;

            let mut s = base.clone();
            for stop in s.tours[ti].stops.iter_mut() {
                stop.activities_mut().retain(|a| !(is_customer(a) && a.job_id == *id));
            }
            s.tours[ti].stops.retain(|stop| !stop.activities().is_empty());
            self.breach("job.dropped-from-tour", &site, far, None, &s, Some(&["job-lost"]))?;

            for tj in (0..tours).filter(|tj| *tj != ti) {
                let mut s = base.clone();
                let mut a = pt(&mut s, ti, si0).activities[ai0].clone();
                let p = pt(&mut s, ti, si0);
                a.location.get_or_insert(p.location.clone());
                a.time.get_or_insert(sol::Interval { start: p.time.arrival.clone(), end: p.time.departure.clone() });
                add_activity(&mut s, tj, a);
                self.breach("job.copied-to-other-tour", &format!("{site} -> tour {tj}"), true, None, &s, Some(&["job-in-two-tours"]))?;
            }
            // pickup after delivery: exchange the roles (type + tag) of a pickup and a later delivery of the job
            let kind = |k: usize| base.tours[ti].stops[places[k].1].activities()[places[k].2].activity_type.as_str();
            for a in (0..places.len()).filter(|k| kind(*k) == "pickup") {
                for b in (a + 1..places.len()).filter(|k| kind(*k) == "delivery") {
                    let mut s = base.clone();
                    let (x, y) = (pt(&mut s, ti, places[a].1).activities[places[a].2].clone(), pt(&mut s, ti, places[b].1).activities[places[b].2].clone());
                    let pa = &mut pt(&mut s, ti, places[a].1).activities[places[a].2];
                    (pa.activity_type, pa.job_tag) = (y.activity_type, y.job_tag);
                    let pb = &mut pt(&mut s, ti, places[b].1).activities[places[b].2];
                    (pb.activity_type, pb.job_tag) = (x.activity_type, x.job_tag);
                    self.breach("pickup-after-delivery", &site, far, None, &s, Some(&["pickup-after-delivery"]))?;
                }
            }
        }
        // unassigned list
        let entries = base.unassigned.clone().unwrap_or_default();
        for (k, u) in entries.iter().enumerate() {
            let (far, site) = (k > 0, format!("unassigned entry {k} ({})", u.job_id));
            let mut rest = entries.clone();
            rest.remove(k);
            let mut s = base.clone();
            s.unassigned = (!rest.is_empty()).then_some(rest);
            self.breach("job.dropped-unassigned-entry", &site, far, None, &s, Some(&["job-lost"]))?;
            let mut s = base.clone();
            s.unassigned.as_mut().unwrap().insert(k, u.clone());
            self.breach("unassigned.duplicate", &site, far, None, &s, Some(&["unassigned-duplicate"]))?;
        }
        for at_end in [false, true] {
            let mut s = base.clone();
            let list = s.unassigned.get_or_insert_with(Vec::new);
            list.insert(if at_end { list.len() } else { 0 }, unassigned_entry("ghost_job"));
            self.breach("unassigned.unknown-id", if at_end { "appended" } else { "prepended" }, at_end && !entries.is_empty(), None, &s, Some(&["unassigned-unknown"]))?;
        }
        Ok(())
    }

    fn tour_mutations(&self, delta: i64) -> Check {
        let base = self.base;
        for sign in [1i64, -1] {
            let mut s = base.clone();
            s.statistic.duration += sign;
            self.breach("stat.overall-duration", "solution", false, None, &s, Some(&["overall-sum"]))?;
            let mut s = base.clone();
            s.statistic.distance += sign * delta;
            self.breach("stat.overall-distance", "solution", false, None, &s, Some(&["overall-sum"]))?;
        }
        for (ti, tour) in base.tours.iter().enumerate() {
            let (far, site) = (ti > 0, format!("tour {ti}"));
            let legs = tour.stops.iter().map(|s| s.activities().len()).sum::<usize>() as i64;
            // R accepts accumulated rounding of `tol` per leg in tour totals, so the shift exceeds it
            let big = delta.max(self.tol * legs + 1);
            for sign in [1i64, -1] {
                let dv = sign * big;
                // the overall statistic is kept equal to the sum of tours: only the tour total is wrong
                let mut s = base.clone();
                s.tours[ti].statistic.duration += dv;
                s.statistic.duration += dv;
                self.breach("stat.tour-duration", &site, far, None, &s, Some(&["statistic-duration"]))?;
                let mut s = base.clone();
                s.tours[ti].statistic.distance += dv;
                s.statistic.distance += dv;
                self.breach("stat.tour-distance", &site, far, None, &s, Some(&["statistic-distance"]))?;
                let mut s = base.clone();
                s.tours[ti].statistic.times.driving += dv;
                s.statistic.times.driving += dv;
                self.observe("stat.tour-driving-time", &s, &["statistic-driving"]);
                let mut s = base.clone();
                s.tours[ti].statistic.cost += 10. * dv as f64;
                s.statistic.cost += 10. * dv as f64;
                self.observe("stat.tour-cost", &s, &["statistic-cost"]);
            }
            let mut s = base.clone();
            s.tours[ti].vehicle_id = "ghost_vehicle".to_string();
            self.breach("vehicle.unknown-id", &site, far, None, &s, Some(&["unknown-vehicle"]))?;
            let mut s = base.clone();
            s.tours[ti].type_id = "ghost_type".to_string();
            self.observe("vehicle.unknown-type", &s, &["unknown-vehicle-type"]);
            for (tj, other) in base.tours.iter().enumerate().filter(|(tj, _)| *tj != ti) {
                let mut s = base.clone();
                (s.tours[ti].vehicle_id, s.tours[ti].type_id, s.tours[ti].shift_index) = (other.vehicle_id.clone(), other.type_id.clone(), other.shift_index);
                self.breach("vehicle.shift-used-twice", &format!("tour {ti} renamed as tour {tj}"), true, None, &s, Some(&["vehicle-shift-used-twice"]))?;
            }
            self.limit_mutations(ti, tour, far, &site)?;
            self.break_mutations(ti, tour, far)?;
            // group split: P' puts the first customer job of this tour and of a later tour into one group
            let first_job = |t: &sol::Tour| t.stops.iter().flat_map(|s| s.activities().iter()).find(|a| is_customer(a)).map(|a| a.job_id.clone());
            for (tj, other) in base.tours.iter().enumerate().skip(ti + 1) {
                if let (Some(a), Some(b)) = (first_job(tour), first_job(other)) {
                    let mut p = self.problem.clone();
                    p.plan.jobs.iter_mut().filter(|j| j.id == a || j.id == b).for_each(|j| j.group = Some("gsplit".to_string()));
                    self.breach("group.split", &format!("jobs {a} (tour {ti}) and {b} (tour {tj})"), true, Some(&p), base, Some(&["group-split"]))?;
                }
            }
        }
        Ok(())
    }

    /// Lowers a limit of the tour's vehicle type in P just under the value the tour uses (and, as a
    /// positive boundary case, to exactly that value).
    fn limit_mutations(&self, ti: usize, tour: &sol::Tour, far: bool, site: &str) -> Check {
        let Some(vi) = self.vehicle_index(tour) else { return Ok(()) };
        let size = tour.stops.iter().flat_map(|s| s.activities().iter()).filter(|a| a.activity_type != "departure" && a.activity_type != "arrival").count();
        let variant = |f: &dyn Fn(&mut api::VehicleLimits)| {
            let mut p = self.problem.clone();
            f(p.fleet.vehicles[vi].limits.get_or_insert(api::VehicleLimits { max_distance: None, max_duration: None, tour_size: None }));
            p
        };
        // shared reload resource lowered below what the tours take from it: in every dimension, and in one dimension only
        if ti == 0 {
            for (ri, res) in self.problem.fleet.resources.iter().flatten().enumerate() {
                let api::VehicleResource::Reload { capacity, .. } = res;
                let with = |f: &dyn Fn(&mut Vec<i32>)| {
                    let mut p = self.problem.clone();
                    if let Some(api::VehicleResource::Reload { capacity, .. }) = p.fleet.resources.as_mut().and_then(|r| r.get_mut(ri)) {
                        f(capacity);
                    }
                    p
                };
                self.breach("resource.lowered", &format!("resource {ri}"), true, Some(&with(&|c| c.iter_mut().for_each(|x| *x = 0))), self.base, Some(&["shared-resource"]))?;
                for d in 0..capacity.len().min(2) {
                    if capacity.len() >= 2 {
                        self.breach("resource.lowered-in-one-dimension", &format!("resource {ri} dimension {d}"), true, Some(&with(&|c| c[d] = 0)), self.base, Some(&["shared-resource"]))?;
                    }
                }
            }
        }
        if size >= 2 {
            self.breach("limit.tour-size", site, far, Some(&variant(&|l| l.tour_size = Some(size - 1))), self.base, Some(&["tour-size"]))?;
            self.accept("limit-exact.tour-size", Some(&variant(&|l| l.tour_size = Some(size))), self.base)?;
        }
        let (dist, dur) = (tour.statistic.distance, tour.statistic.duration);
        if dist >= 2 {
            self.breach("limit.max-distance", site, far, Some(&variant(&|l| l.max_distance = Some((dist - 1) as f64))), self.base, Some(&["max-distance"]))?;
            self.accept("limit-exact.max-distance", Some(&variant(&|l| l.max_distance = Some(dist as f64))), self.base)?;
        }
        if dur >= 2 {
            self.breach("limit.max-duration", site, far, Some(&variant(&|l| l.max_duration = Some((dur - 1) as f64))), self.base, Some(&["max-duration"]))?;
            self.accept("limit-exact.max-duration", Some(&variant(&|l| l.max_duration = Some(dur as f64))), self.base)?;
        }
        // load above capacity: capacity of one dimension just under the highest load reported in the tour
        let dims = self.problem.fleet.vehicles[vi].capacity.len();
        let peak = |d: usize| tour.stops.iter().map(|s| s.load().get(d).copied().unwrap_or(0)).max().unwrap_or(0);
        if let Some(d) = (0..dims).max_by_key(|d| peak(*d)).filter(|d| peak(*d) >= 1) {
            let mut p = self.problem.clone();
            p.fleet.vehicles[vi].capacity[d] = peak(d) - 1;
            // the peak is reported only by a departure stop that is directly followed by a reload stop: a load interval without any leg
            let before_reload = tour.stops[0].activities().iter().any(is_customer) && tour.stops.get(1).is_some_and(|n| n.activities().first().is_some_and(|a| a.activity_type == "reload"));
            let only_at_start = tour.stops.iter().enumerate().all(|(si, s)| si == 0 || s.load().get(d).copied().unwrap_or(0) < peak(d));
            let name = if tour.stops.len() == 1 {
                "single-stop-tour.capacity.lowered"
            } else if before_reload && only_at_start {
                "departure-stop-before-reload-stop.capacity.lowered"
            } else {
                "capacity.lowered"
            };
            self.breach(name, &format!("tour {ti} dimension {d}"), far, Some(&p), self.base, Some(&["capacity"]))?;
        }
        Ok(())
    }

    /// Moves a break activity completely behind / in front of the time window of its break.
    fn break_mutations(&self, ti: usize, tour: &sol::Tour, far: bool) -> Check {
        let Some(shift) = self.vehicle_index(tour).and_then(|vi| self.problem.fleet.vehicles[vi].shifts.get(tour.shift_index)) else { return Ok(()) };
        // offsets count from the moment the vehicle departs: the end of the departure activity when the first stop has more activities
        let departure = tour.stops.first().and_then(|s| s.activities().first().filter(|a| a.activity_type == "departure").and_then(|a| a.time.as_ref()).map(|t| &t.end).or(Some(&s.schedule().departure)).and_then(|t| parse_time(t)));
        for (si, stop) in tour.stops.iter().enumerate() {
            for (ai, a) in stop.activities().iter().enumerate().filter(|(_, a)| a.activity_type == "break") {
                let window = shift.breaks.iter().flatten().find_map(|b| match b {
                    api::VehicleBreak::Optional { time, places, .. } if places.iter().any(|p| p.tag == a.job_tag) => match time {
                        api::VehicleOptionalBreakTime::TimeWindow(w) => Some((parse_time(w.first()?)?, parse_time(w.last()?)?)),
                        api::VehicleOptionalBreakTime::TimeOffset(o) => Some((departure? + *o.first()? as i64, departure? + *o.last()? as i64)),
                    },
                    _ => None,
                });
                // misplaced in space: the activity names another location than the one its break defines
                if let (Some(ApiLocation::Reference { index }), true) = (a.location.as_ref(), stop.activities().len() > 1) {
                    let mut s = self.base.clone();
                    pt(&mut s, ti, si).activities[ai].location = Some(ApiLocation::Reference { index: (index + 1) % self.matrices[0].distances.len().isqrt().max(1) });
                    self.breach("break.wrong-location", &format!("tour {ti} stop {si} activity {ai}"), far || si >= 2, None, &s, Some(&["break-location"]))?;
                }
                let (start, end) = a.time.as_ref().map_or((&stop.schedule().arrival, &stop.schedule().departure), |t| (&t.start, &t.end));
                let (Some((ws, we)), Some(start), Some(end)) = (window, parse_time(start), parse_time(end)) else {
                    self.stats.class("mut.break.window_not_resolved");
                    continue;
                };
                let len = (end - start).max(1);
                for (name, from) in [("break.after-window", we + 10), ("break.before-window", ws - 10 - len)] {
                    let mut s = self.base.clone();
                    pt(&mut s, ti, si).activities[ai].time = Some(sol::Interval { start: fmt_time(from), end: fmt_time(from + len) });
                    self.breach(name, &format!("tour {ti} stop {si} activity {ai}"), far || si >= 2, None, &s, Some(&["time-window", "time-window-start"]))?;
                }
            }
        }
        Ok(())
    }

    // ------------------------------------------------------------------ relations added to P (S unchanged)

    fn relation_checks(&self) -> Check {
        use api::RelationType::{Any, Sequence, Strict};
        let base = self.base;
        // E1203 / documentation: only jobs with one task, one place and at most one time window are supported in relations
        let eligible = |id: &str| {
            self.problem.plan.jobs.iter().find(|j| j.id == id).is_some_and(|j| {
                let tasks: Vec<&api::JobTask> = [&j.pickups, &j.deliveries, &j.replacements, &j.services].into_iter().flatten().flatten().collect();
                tasks.len() == 1 && tasks[0].places.len() == 1 && tasks[0].places[0].times.as_ref().is_none_or(|t| t.len() <= 1)
            })
        };
        let with = |kind: api::RelationType, vehicle: &str, shift: usize, jobs: &[&String]| {
            let mut p = self.problem.clone();
            p.plan.relations = Some(vec![api::Relation { type_field: kind, jobs: jobs.iter().map(|j| j.to_string()).collect(), vehicle_id: vehicle.to_string(), shift_index: Some(shift) }]);
            p
        };
        let used = |v: &str, shift: usize| base.tours.iter().any(|t| t.vehicle_id == v && t.shift_index == shift);
        for (ti, tour) in base.tours.iter().enumerate() {
            let (v, sh, far) = (tour.vehicle_id.as_str(), tour.shift_index, ti > 0);
            // (position among all activities of the tour, job id) of eligible customer activities
            let seq: Vec<(usize, &String)> = tour.stops.iter().flat_map(|s| s.activities().iter()).enumerate().filter(|(_, a)| is_customer(a) && eligible(&a.job_id)).map(|(k, a)| (k, &a.job_id)).collect();
            self.stats.class(if seq.len() >= 2 { "rel.tour_with_two_eligible_jobs" } else { "rel.tour_with_fewer_eligible_jobs" });
            let all: Vec<&String> = seq.iter().map(|(_, id)| *id).collect();
            if !all.is_empty() {
                // relations read off the solution itself must be accepted
                self.accept("rel.any", Some(&with(Any, v, sh, &all)), base)?;
                if sh == 0 {
                    let mut p = with(Any, v, 0, &all);
                    p.plan.relations.iter_mut().flatten().for_each(|r| r.shift_index = None);
                    self.accept("rel.any.implicit-shift-index", Some(&p), base)?;
                }
                self.accept("rel.sequence", Some(&with(Sequence, v, sh, &all)), base)?;
            }
            for (k, (_, id)) in seq.iter().enumerate() {
                let site = format!("job {id} of tour {ti} ({v} shift {sh})");
                let far = far || k > 0;
                // the job is locked to another vehicle (shift) than the one serving it
                for other in base.tours.iter().filter(|o| o.vehicle_id != v) {
                    self.breach("rel.any-other-vehicle", &format!("{site} locked to {} shift {}", other.vehicle_id, other.shift_index), true, Some(&with(Any, &other.vehicle_id, other.shift_index, &[id])), base, None)?;
                    self.breach("rel.sequence-other-vehicle", &format!("{site} locked to {} shift {}", other.vehicle_id, other.shift_index), true, Some(&with(Sequence, &other.vehicle_id, other.shift_index, &[id])), base, None)?;
                }
                for vt in self.problem.fleet.vehicles.iter() {
                    if let Some(idle) = vt.vehicle_ids.iter().find(|x| (0..vt.shifts.len()).all(|s| !used(x, s))) {
                        self.breach("rel.any-idle-vehicle", &format!("{site} locked to idle {idle}"), far, Some(&with(Any, idle, 0, &[id])), base, None)?;
                        self.breach("rel.strict-idle-vehicle", &format!("{site} locked to idle {idle}"), far, Some(&with(Strict, idle, 0, &[id])), base, None)?;
                    }
                    if vt.vehicle_ids.iter().any(|x| x == v) {
                        for s2 in (0..vt.shifts.len()).filter(|s2| *s2 != sh) {
                            let name = if used(v, s2) { "rel.any-other-shift-used" } else { "rel.any-other-shift-idle" };
                            self.breach(name, &format!("{site} locked to shift {s2}"), far, Some(&with(Any, v, s2, &[id])), base, None)?;
                            if s2 == 0 {
                                // the same lock spelled without shiftIndex (documented default: the first shift)
                                let mut p = with(Any, v, 0, &[id]);
                                p.plan.relations.iter_mut().flatten().for_each(|r| r.shift_index = None);
                                self.breach(&format!("{name}.implicit-shift-index"), &format!("{site} locked to the default shift"), far, Some(&p), base, None)?;
                            }
                        }
                    }
                }
            }
            for w in seq.windows(3) {
                // b is served between a and c: allowed by a sequence relation, forbidden by a strict one
                let ((ka, a), (_, b), (kc, c)) = (w[0], w[1], w[2]);
                self.accept("rel.sequence-with-job-between", Some(&with(Sequence, v, sh, &[a, c])), base)?;
                self.breach("rel.strict-gap", &format!("jobs {a},{c} around {b} at positions {ka}..{kc} of tour {ti}"), true, Some(&with(Strict, v, sh, &[a, c])), base, None)?;
            }
            for w in seq.windows(2) {
                let ((ka, a), (kb, b)) = (w[0], w[1]);
                let site = format!("jobs {a},{b} at positions {ka},{kb} of tour {ti}");
                let far = far || ka >= 2;
                self.breach("rel.sequence-reversed", &site, far, Some(&with(Sequence, v, sh, &[b, a])), base, None)?;
                self.breach("rel.strict-reversed", &site, far, Some(&with(Strict, v, sh, &[b, a])), base, None)?;
                if kb == ka + 1 {
                    self.accept("rel.strict", Some(&with(Strict, v, sh, &[a, b])), base)?;
                } else if tour.stops.iter().flat_map(|s| s.activities().iter()).skip(ka + 1).take(kb - ka - 1).any(is_customer) {
                    // another job is served between a and b: strict forbids it
                    self.breach("rel.strict-gap", &site, far, Some(&with(Strict, v, sh, &[a, b])), base, None)?;
                } else {
                    // only a break / reload in between: the documentation speaks of jobs only
                    self.stats.class("unspecified.rel.strict-with-marker-between");
                }
            }
        }
        Ok(())
    }
}

pub struct CheckerProp {
    /// false: mutations of the solution / limits; true: relations
    pub relations: bool,
}

impl Prop for CheckerProp {
    type Case = CheckerCase;
    fn name(&self) -> &'static str {
        if self.relations { "checker_relations" } else { "checker_breaches" }
    }
    fn strategy(&self, tier: Tier) -> BoxedStrategy<CheckerCase> {
        let relations = self.relations;
        (problem_spec(tier.pick(10, 16)), config_spec(30), prop_oneof![3 => Just(2u16), 1 => 3u16..=240])
            .prop_map(move |(mut spec, config, delta)| {
                // docs (jobs.md): "Use tag property on each job place if you want to use initial solution or checker features"
                spec.features &= !F_UNTAGGED;
                // every 4th case: small vehicles with shared reloads, so that reloads and their shared resource are really used
                if spec.shared_resource_capacity % 4 == 0 {
                    spec.features |= F_RELOADS;
                    spec.features &= !F_WINDOWS;
                    spec.vehicles.iter_mut().for_each(|v| {
                        v.capacity.iter_mut().for_each(|c| *c = (*c).min(4).max(2));
                        v.shifts.iter_mut().for_each(|sh| {
                            if sh.reloads.is_empty() {
                                sh.reloads.push(ReloadSpec { loc: sh.start_loc, duration: 0, window: None, shared: true });
                            }
                            sh.reloads.iter_mut().for_each(|r| {
                                r.shared = true;
                                r.window = None;
                            });
                        });
                    });
                }
                if relations {
                    // relations support only jobs with one place and at most one time window (E1203): make them frequent
                    spec.features &= !F_MULTI;
                    spec.jobs.iter_mut().flat_map(|j| j.places.iter_mut().flatten()).for_each(|p| p.windows.truncate(1));
                }
                CheckerCase { spec, config, delta }
            })
            .boxed()
    }
    fn cases(&self, tier: Tier) -> u32 {
        if self.relations { tier.pick(500, 25_000) } else { tier.pick(1_000, 50_000) }
    }
    fn shards(&self, _tier: Tier) -> u32 {
        16
    }
    fn max_shrink_iters(&self) -> u32 {
        200
    }
    fn check(&self, case: &CheckerCase, stats: &Stats) -> Check {
        let rendered = render(&case.spec);
        let (problem, matrices) = (&rendered.problem, &rendered.matrices);
        let core = read_core(problem, matrices).map_err(|e| Failure::new("harness:generator-invalid", format!("generated problem was rejected: {e}")))?;
        let mut solution = match solve_to_solution(core.clone(), &render_config(&case.config)) {
            Ok((solution, _)) => solution,
            Err(f) => {
                // a failing solve is the business of C01-C03, not of the checker
                stats.class(&format!("skipped.{}", f.signature));
                return Ok(());
            }
        };
        solution.extras = None; // telemetry only; not read by the checker
        let case_hash = hash_of(&format!("{case:?}"));
        let env = Env { problem, matrices, core, base: &solution, tol: tolerance(problem), case_hash, stats };
        let n = Prop::name(self);
        stats.class(&format!("{n}.cases"));

        // ---- positive oracle
        let verdict = refmodel::evaluate(problem, matrices, &solution, env.tol);
        let has = |f: &str| verdict.facts.contains(f);
        let rich = has("reload_assigned") || has("break_assigned") || has("multi_task_assigned");
        if let Some(defect) = break_reporting_defect(problem, &solution) {
            stats.class(&format!("pos.solver-output.invalid.{defect}"));
            return Ok(());
        }
        let accepted = env.accept("solver-output", None, &solution)?;
        if verdict.findings.is_empty() {
            for f in ["reload_assigned", "break_assigned", "multi_task_assigned", "multi_tour", "has_unassigned", "waiting", "scaled_profile", "open_end_tour", "shared_resource_used", "multi_window_assigned", "multi_place_assigned", "group_assigned"] {
                if has(f) {
                    stats.class(&format!("pos.solver-output.with.{f}"));
                }
            }
            if rich {
                stats.class("nontrivial.positive_with_reload_break_or_multi_job");
                stats.nontrivial(case_hash);
            }
        }
        stats.sample(2, || json!({"kind": n, "features": rendered.info.features, "jobs": problem.plan.jobs.len(), "tours": solution.tours.len(), "facts": verdict.facts, "r_findings": verdict.findings.len(), "accepted": accepted}));
        if !accepted {
            // without an accepted, R-clean baseline a rejection of a mutant proves nothing
            stats.class(&format!("{n}.baseline_not_usable"));
            return Ok(());
        }
        // ---- negative oracle
        if self.relations {
            env.relation_checks()
        } else {
            let delta = case.delta.max(2) as i64;
            env.stop_mutations(delta)?;
            env.job_mutations()?;
            env.tour_mutations(delta)
        }
    }
}

/// Replay-only sub-check over complete documents (corpus): `expect` is "ok" or the name of the injected breach.
#[derive(Clone, Debug, Serialize, Deserialize)]
pub struct CheckerDocCase {
    pub problem: api::Problem,
    pub matrices: Vec<api::Matrix>,
    pub solution: sol::Solution,
    pub expect: String,
}

pub struct CheckerDocProp;

impl Prop for CheckerDocProp {
    type Case = CheckerDocCase;
    fn name(&self) -> &'static str {
        "checker_doc"
    }
    fn strategy(&self, _tier: Tier) -> BoxedStrategy<CheckerDocCase> {
        let spec = ProblemSpec { coords: vec![(0, 0), (1, 1), (2, 2)], asym: vec![0; 9], non_metric: false, unreachable: vec![], profiles: 1, dims: 1, jobs: vec![], vehicles: vec![], objectives: 0, shared_resource_capacity: 5, features: 0 };
        let solution = sol::Solution { statistic: Default::default(), tours: vec![], unassigned: None, violations: None, extras: None };
        Just(CheckerDocCase { problem: render(&spec).problem, matrices: vec![], solution, expect: "ok".into() }).boxed()
    }
    fn cases(&self, _tier: Tier) -> u32 {
        0
    }
    fn check(&self, case: &CheckerDocCase, stats: &Stats) -> Check {
        let core = read_core(&case.problem, &case.matrices).map_err(|e| Failure::new("harness:corpus-invalid", format!("corpus problem rejected: {e}")))?;
        stats.eval();
        stats.class("corpus_documents_checked");
        let verdict = refmodel::evaluate(&case.problem, &case.matrices, &case.solution, tolerance(&case.problem));
        if case.expect == "ok" {
            // a corpus document that claims to be valid must be accepted by R
            ensure!(verdict.findings.is_empty(), "harness:corpus-not-valid", "R reports {:?}", verdict.findings.iter().map(|f| format!("[{}] {}", f.rule, f.detail)).collect::<Vec<_>>());
        }
        match (run_checker(&core, &case.problem, &case.matrices, &case.solution), case.expect.as_str()) {
            (Err(panic), _) => Err(Failure::new(format!("checker:panic:{}", panic_site(&panic)), format!("checker panicked: {panic}"))),
            (Ok(Ok(())), "ok") => Ok(()),
            (Ok(Err(errs)), "ok") => Err(Failure::new(format!("checker:rejects-valid:{}{}", normalise(&errs[0]), context(&errs[0], &case.problem, &case.solution)), format!("checker rejects a valid document: {errs:?}"))),
            (Ok(Err(_)), _) => Ok(()),
            (Ok(Ok(())), name) => Err(Failure::new(format!("checker:accepts-breach:{name}"), format!("checker accepts a document with the breach {name}"))),
        }
    }
}

pub fn property(_tier: Tier) -> PropertyDef {
    PropertyDef {
        id: PROPERTY,
        level: "exploration",
        rule: "proptest: (P,S) pairs - P = generated valid pragmatic problem with matrices (pgen: 1-10 jobs quick / 16 thorough, all task kinds, multi-place, windows, 1-2 dimensions, groups, skills, 1-3 vehicle types x 1-3 ids x 1-2 shifts, limits, optional breaks in window/offset form, reloads, shared resource), S = output of vrp_cli::get_solution_serialized under a generated config (<=30 generations, all population/hyper kinds); checker invoked as vrp-cli does (core problem re-read from the same document, CheckerContext::new(..).check()). POSITIVE (sub-checks checker_breaches and checker_relations): when the independent reference model R has no finding at all on (P,S) - and the solver's own break bookkeeping is consistent - check() must be Ok; the same for problem variants the solution still satisfies: limit lowered to exactly the used tourSize / distance / duration, and any / sequence / strict relations read off the tours (incl. a sequence with a job served in between). NEGATIVE checker_breaches: every single-breach mutant at EVERY site of an accepted R-clean S: per stop load +1 / -1 / capacity+1, arrival / departure / cumulative distance shifted by +-delta (delta=2 in 3 of 4 cases, else 3..240); per customer activity unknown job id, duplicated activity, task moved to the next tour; per assigned job listed also as unassigned, dropped from its tour, copied into every other tour, pickup<->delivery roles exchanged; per unassigned entry dropped / duplicated, unknown id prepended / appended; per tour statistic distance / duration shifted beyond R's rounding allowance (overall kept equal to the sum), overall distance / duration shifted, unknown vehicle id, vehicle shift of every other tour reused, limit in P lowered to one under the used tourSize / distance / duration, capacity in P lowered to one under the peak load, break activity moved before / behind its window or to another location, two jobs of different tours put into one group in P. A mutant is asserted only when R, run on the mutant, reports a finding of the intended rule family (else counted not_certified); then check() must be Err (a panic is a failure of its own). NEGATIVE checker_relations (R does not model relations; certified by construction over jobs with one task, one place, <=1 window, as E1203 requires): a relation added to P that S visibly contradicts - job locked (any / sequence / strict) to another used vehicle, to an idle vehicle or to another shift of its vehicle; sequence / strict with two served jobs in reversed order; strict over two jobs with something served in between. Not asserted, only observed (statement silent, code says ignored): cost, time split, typeId, distances when all stop distances are 0 (documented hre workaround). Open known findings are excluded by exact signature (mutation name incl. site class, or normalised error text + triggering circumstance) and counted. Non-trivial: certified mutant at a site other than the first tour / first two stops (distinct by case x mutation x site), or an accepted R-clean solver output with a reload, a break or a multi-task job (distinct by case).",
        assumptions: vec![
            "reference model R (harness/src/engines/refmodel.rs) is a faithful reading of the documented pragmatic semantics; a breach R cannot see (e.g. load of the closing arrival stop, first-stop arrival without an explicit departure time) is counted as not_certified, not asserted",
            "relation semantics as documented: a relation locks its jobs to one vehicle shift (shiftIndex, default 0); sequence fixes the order but allows other jobs in between; strict forbids anything in between",
            "a solver output whose break bookkeeping is itself inconsistent (a break violation listed more often than breaks exist, or a due time-window break neither assigned nor listed in violations) is not a valid solution: counted under pos.solver-output.invalid.*, excluded from both oracles",
            "the solver is not reproducible across runs: the failure message carries the complete (problem, matrices, solution) document; it replays through the replay-only sub-check checker_doc",
        ],
        props: vec![Box::new(CheckerProp { relations: false }), Box::new(CheckerProp { relations: true }), Box::new(CheckerDocProp)],
        extra: Some(Box::new(dump_minimal)),
        required_classes: vec![
            "pos.solver-output.accepted", "pos.solver-output.with.reload_assigned", "pos.solver-output.with.break_assigned",
            "pos.solver-output.with.multi_task_assigned", "pos.limit-exact.tour-size.accepted", "pos.limit-exact.max-distance.accepted",
            "pos.limit-exact.max-duration.accepted", "pos.rel.any.accepted", "pos.rel.sequence.accepted", "pos.rel.strict.accepted", "nontrivial.mutant_far_site",
            "nontrivial.positive_with_reload_break_or_multi_job", "mut.load.plus1.certified", "mut.load.minus1.certified", "mut.load.above-capacity.certified",
            "mut.capacity.lowered.certified", "mut.job.unknown-id.certified", "mut.activity.duplicated.certified", "mut.job.dropped-from-tour.certified",
            "mut.job.dropped-unassigned-entry.certified", "mut.job.copied-to-other-tour.certified", "mut.job.task-moved-to-other-tour.certified",
            "mut.job.assigned-and-unassigned.certified", "mut.unassigned.unknown-id.certified", "mut.unassigned.duplicate.certified", "mut.arrival.later.certified",
            "mut.arrival.earlier.certified", "mut.departure.later.certified", "mut.departure.earlier.certified", "mut.distance.more.certified",
            "mut.distance.less.certified", "mut.stat.tour-distance.certified", "mut.stat.tour-duration.certified", "mut.stat.overall-distance.certified",
            "mut.stat.overall-duration.certified", "mut.limit.tour-size.certified", "mut.limit.max-distance.certified", "mut.limit.max-duration.certified",
            "mut.break.after-window.certified", "mut.break.before-window.certified", "mut.pickup-after-delivery.certified", "mut.vehicle.unknown-id.certified",
            "mut.vehicle.shift-used-twice.certified", "mut.group.split.certified", "mut.rel.any-other-vehicle.certified", "mut.rel.sequence-other-vehicle.certified",
            "mut.rel.sequence-reversed.certified", "mut.rel.strict-reversed.certified", "mut.rel.strict-gap.certified",
        ],
    }
}
