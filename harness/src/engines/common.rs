//! Helpers shared by engines: harness-owned Random, simple core model builders.
#![allow(dead_code)]

use rand::prelude::*;
use rand::rngs::SmallRng;
use rosomaxa::prelude::*;
use rosomaxa::utils::Parallelism;
use std::sync::{Arc, Mutex};
use vrp_core::models::common::*;
use vrp_core::models::problem::*;

/// Harness-owned random: seeded SmallRng behind a mutex for the trait methods; `get_rng` returns
/// the library's repeatable thread-local generator (reseeded through the hook).
pub struct SeededRandom {
    rng: Mutex<SmallRng>,
}

impl SeededRandom {
    pub fn new(seed: u64) -> Self {
        rosomaxa::utils::verif_reseed_repeatable(seed ^ 0xA5A5_5A5A);
        Self { rng: Mutex::new(SmallRng::seed_from_u64(seed)) }
    }
}

impl Random for SeededRandom {
    fn uniform_int(&self, min: i32, max: i32) -> i32 {
        if min == max {
            return min;
        }
        assert!(min < max);
        self.rng.lock().unwrap().gen_range(min..max + 1)
    }

    fn uniform_real(&self, min: Float, max: Float) -> Float {
        if (min - max).abs() < Float::EPSILON {
            return min;
        }
        assert!(min < max);
        self.rng.lock().unwrap().gen_range(min..max)
    }

    fn is_head_not_tails(&self) -> bool {
        self.rng.lock().unwrap().gen_bool(0.5)
    }

    fn is_hit(&self, probability: Float) -> bool {
        self.rng.lock().unwrap().gen_bool(probability.clamp(0., 1.))
    }

    fn weighted(&self, weights: &[usize]) -> usize {
        weights
            .iter()
            .zip(0_usize..)
            .map(|(&weight, index)| (-self.uniform_real(0., 1.).max(1e-300).ln() / weight as Float, index))
            .min_by(|a, b| a.0.total_cmp(&b.0))
            .unwrap()
            .1
    }

    fn get_rng(&self) -> RandomGen {
        RandomGen::new_repeatable()
    }
}

pub fn quiet_logger() -> InfoLogger {
    Arc::new(|_: &str| {})
}

/// Environment with harness random, quiet logger and the given parallelism.
pub fn quiet_env(seed: u64, parallelism: Parallelism, quota: Option<Arc<dyn Quota>>) -> Arc<Environment> {
    Arc::new(Environment::new(Arc::new(SeededRandom::new(seed)), quota, parallelism, quiet_logger(), false))
}

pub fn quiet_env_default_random(parallelism: Parallelism, quota: Option<Arc<dyn Quota>>) -> Arc<Environment> {
    Arc::new(Environment::new(Arc::new(DefaultRandom::default()), quota, parallelism, quiet_logger(), false))
}

pub fn zero_costs() -> Costs {
    Costs { fixed: 0., per_distance: 0., per_driving_time: 0., per_waiting_time: 0., per_service_time: 0. }
}

pub fn empty_driver() -> Arc<Driver> {
    Arc::new(Driver { costs: zero_costs(), dimens: Default::default(), details: vec![] })
}

pub fn simple_vehicle(id: &str, profile: usize, start: Location, end: Option<Location>) -> Arc<Vehicle> {
    let mut dimens = Dimensions::default();
    dimens.set_vehicle_id(id.to_string());
    Arc::new(Vehicle {
        profile: Profile::new(profile, None),
        costs: Costs { fixed: 0., per_distance: 1., per_driving_time: 0., per_waiting_time: 0., per_service_time: 0. },
        dimens,
        details: vec![VehicleDetail {
            start: Some(VehiclePlace { location: start, time: TimeInterval { earliest: Some(0.), latest: None } }),
            end: end.map(|location| VehiclePlace { location, time: TimeInterval { earliest: None, latest: Some(1e9) } }),
        }],
    })
}

pub fn simple_single(id: &str, location: Location) -> Arc<Single> {
    let mut dimens = Dimensions::default();
    dimens.set_job_id(id.to_string());
    Arc::new(Single {
        places: vec![Place { location: Some(location), duration: 1., times: vec![TimeSpan::Window(TimeWindow::max())] }],
        dimens,
    })
}
