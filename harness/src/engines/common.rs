//! Helpers shared by engines: harness-owned Random, simple core model builders.
#![allow(dead_code)]

use rand::prelude::*;
use rand::rngs::SmallRng;
use rosomaxa::prelude::*;
use rosomaxa::utils::Parallelism;
use std::sync::{Arc, Mutex};
use vrp_core::models::common::*;
use vrp_core::models::problem::*;

/// Harness-owned random: seeded SmallRng behind a mutex for the trait methods; `get_rng` returns
/// the library's repeatable thread-local generator (reseeded through the hook).
pub struct SeededRandom {
    rng: Mutex<SmallRng>,
}

impl SeededRandom {
    pub fn new(seed: u64) -> Self {
        rosomaxa::utils::verif_reseed_repeatable(seed ^ 0xA5A5_5A5A);
        Self { rng: Mutex::new(SmallRng::seed_from_u64(seed)) }
    }
}

impl Random for SeededRandom {
    fn uniform_int(&self, min: i32, max: i32) -> i32 {
        if min == max {
            return min;
        }
        assert!(min < max);
        self.rng.lock().unwrap().gen_range(min..max + 1)
    }

    fn uniform_real(&self, min: Float, max: Float) -> Float {
        if (min - max).abs() < Float::EPSILON {
            return min;
        }
        assert!(min < max);
        self.rng.lock().unwrap().gen_range(min..max)
    }

    fn is_head_not_tails(&self) -> bool {
        self.rng.lock().unwrap().gen_bool(0.5)
    }

    fn is_hit(&self, probability: Float) -> bool {
        self.rng.lock().unwrap().gen_bool(probability.clamp(0., 1.))
    }

    fn weighted(&self, weights: &[usize]) -> usize {
        weights
            .iter()
            .zip(0_usize..)
            .map(|(&weight, index)| (-self.uniform_real(0., 1.).max(1e-300).ln() / weight as Float, index))
            .min_by(|a, b| a.0.total_cmp(&b.0))
            .unwrap()
            .1
    }

    fn get_rng(&self) -> RandomGen {
        RandomGen::new_repeatable()
    }
}

pub fn quiet_logger() -> InfoLogger {
    Arc::new(|_: &str| {})
}

/// Environment with harness random, quiet logger and the given parallelism.
pub fn quiet_env(seed: u64, parallelism: Parallelism, quota: Option<Arc<dyn Quota>>) -> Arc<Environment> {
    Arc::new(Environment::new(Arc::new(SeededRandom::new(seed)), quota, parallelism, quiet_logger(), false))
}

pub fn quiet_env_default_random(parallelism: Parallelism, quota: Option<Arc<dyn Quota>>) -> Arc<Environment> {
    Arc::new(Environment::new(Arc::new(DefaultRandom::default()), quota, parallelism, quiet_logger(), false))
}

pub fn zero_costs() -> Costs {
    Costs { fixed: 0., per_distance: 0., per_driving_time: 0., per_waiting_time: 0., per_service_time: 0. }
}

pub fn empty_driver() -> Arc<Driver> {
    Arc::new(Driver { costs: zero_costs(), dimens: Default::default(), details: vec![] })
}

pub fn simple_vehicle(id: &str, profile: usize, start: Location, end: Option<Location>) -> Arc<Vehicle> {
    let mut dimens = Dimensions::default();
    dimens.set_vehicle_id(id.to_string());
    Arc::new(Vehicle {
        profile: Profile::new(profile, None),
        costs: Costs { fixed: 0., per_distance: 1., per_driving_time: 0., per_waiting_time: 0., per_service_time: 0. },
        dimens,
        details: vec![VehicleDetail {
            start: Some(VehiclePlace { location: start, time: TimeInterval { earliest: Some(0.), latest: None } }),
            end: end.map(|location| VehiclePlace { location, time: TimeInterval { earliest: None, latest: Some(1e9) } }),
        }],
    })
}

pub fn simple_single(id: &str, location: Location) -> Arc<Single> {
    let mut dimens = Dimensions::default();
    dimens.set_job_id(id.to_string());
    Arc::new(Single {
        places: vec![Place { location: Some(location), duration: 1., times: vec![TimeSpan::Window(TimeWindow::max())] }],
        dimens,
    })
}

// ---------------------------------------------------------------------------------------------
// time formatting (RFC3339, UTC) without external crates
// ---------------------------------------------------------------------------------------------

/// Base timestamp used by generated pragmatic problems: 2020-01-01T00:00:00Z.
pub const T0: i64 = 1_577_836_800;

pub fn fmt_time(secs: i64) -> String {
    let days = secs.div_euclid(86_400);
    let rem = secs.rem_euclid(86_400);
    let (h, m, s) = (rem / 3600, (rem % 3600) / 60, rem % 60);
    // civil from days (Howard Hinnant)
    let z = days + 719_468;
    let era = z.div_euclid(146_097);
    let doe = z.rem_euclid(146_097);
    let yoe = (doe - doe / 1460 + doe / 36_524 - doe / 146_096) / 365;
    let y = yoe + era * 400;
    let doy = doe - (365 * yoe + yoe / 4 - yoe / 100);
    let mp = (5 * doy + 2) / 153;
    let d = doy - (153 * mp + 2) / 5 + 1;
    let mo = if mp < 10 { mp + 3 } else { mp - 9 };
    let y = if mo <= 2 { y + 1 } else { y };
    format!("{y:04}-{mo:02}-{d:02}T{h:02}:{m:02}:{s:02}Z")
}

/// Parses the RFC3339 UTC subset produced by `fmt_time` (and by the solution writer).
pub fn parse_time(s: &str) -> Option<i64> {
    let b = s.as_bytes();
    if b.len() < 20 {
        return None;
    }
    let num = |r: std::ops::Range<usize>| s.get(r)?.parse::<i64>().ok();
    let (y, mo, d, h, mi, se) = (num(0..4)?, num(5..7)?, num(8..10)?, num(11..13)?, num(14..16)?, num(17..19)?);
    // days from civil
    let y2 = if mo <= 2 { y - 1 } else { y };
    let era = y2.div_euclid(400);
    let yoe = y2.rem_euclid(400);
    let mp = if mo > 2 { mo - 3 } else { mo + 9 };
    let doy = (153 * mp + 2) / 5 + d - 1;
    let doe = yoe * 365 + yoe / 4 - yoe / 100 + doy;
    let days = era * 146_097 + doe - 719_468;
    let mut t = days * 86_400 + h * 3600 + mi * 60 + se;
    // offset suffix
    let tail = &s[19..];
    let tail = tail.trim_start_matches(|c: char| c == '.' || c.is_ascii_digit());
    if tail == "Z" || tail == "z" {
        return Some(t);
    }
    if tail.len() == 6 && (tail.starts_with('+') || tail.starts_with('-')) {
        let oh = tail[1..3].parse::<i64>().ok()?;
        let om = tail[4..6].parse::<i64>().ok()?;
        let off = oh * 3600 + om * 60;
        t += if tail.starts_with('+') { -off } else { off };
        return Some(t);
    }
    None
}
