//! C01 / C02 / C03: end-to-end solves of generated problems x configs judged by the reference model R.

use super::pgen::*;
use super::refmodel::{self, Prop as RProp, Verdict};
use crate::fw::*;
use proptest::prelude::*;
use serde::{Deserialize, Serialize};
use serde_json::{Value, json};
use std::collections::BTreeSet;
use std::io::BufReader;
use std::sync::Arc;
use vrp_cli::extensions::solve::config::{Config, read_config};
use vrp_core::models::Problem as CoreProblem;
use vrp_pragmatic::format::problem as api;
use vrp_pragmatic::format::problem::PragmaticProblem;
use vrp_pragmatic::format::solution as sol;

#[derive(Clone, Debug, Serialize, Deserialize)]
pub struct E2eCase {
    pub spec: ProblemSpec,
    pub config: ConfigSpec,
}

pub struct E2eProp {
    pub which: RProp,
    pub property: &'static str,
}

pub fn read_core(problem: &api::Problem, matrices: &[api::Matrix]) -> Result<Arc<CoreProblem>, String> {
    (problem.clone(), matrices.to_vec()).read_pragmatic().map(Arc::new).map_err(|e| format!("{e}"))
}

pub fn parse_config(cfg: &Value) -> Result<Config, String> {
    read_config(BufReader::new(cfg.to_string().as_bytes())).map_err(|e| format!("{e}"))
}

/// number of written solutions whose telemetry block had to be dropped before parsing (non-finite values)
pub static NON_FINITE_TELEMETRY: std::sync::atomic::AtomicUsize = std::sync::atomic::AtomicUsize::new(0);

pub fn solve_to_solution(core: Arc<CoreProblem>, cfg: &Value) -> Result<(sol::Solution, String), Failure> {
    let config = parse_config(cfg).map_err(|e| Failure::new("harness:config-invalid", format!("generated config rejected: {e}\n{cfg}")))?;
    let text = match guard(|| vrp_cli::get_solution_serialized(core, config)) {
        Ok(Ok(t)) => t,
        Ok(Err(e)) => return Err(Failure::new("solve:error", format!("solver returned an error for a valid problem: {e}"))),
        Err(p) => return Err(Failure::new(format!("solve:panic:{}", panic_site(&p)), format!("solver panicked: {p}"))),
    };
    // telemetry (`extras.metrics`, switched on by the generated configs) may carry non-finite fitness values, which are
    // written as `null` and then do not parse as numbers; telemetry is not part of the solution proper: parse without it
    let parsed = sol::deserialize_solution(BufReader::new(text.as_bytes())).map_err(|e| e.to_string()).or_else(|e| {
        let Ok(mut doc) = serde_json::from_str::<Value>(&text) else { return Err(e) };
        if doc.as_object_mut().and_then(|o| o.remove("extras")).is_none() {
            return Err(e);
        }
        let stripped = doc.to_string();
        let r = sol::deserialize_solution(BufReader::new(stripped.as_bytes())).map_err(|_| e);
        if r.is_ok() {
            NON_FINITE_TELEMETRY.fetch_add(1, std::sync::atomic::Ordering::Relaxed);
        }
        r
    });
    let solution = parsed.map_err(|e| {
        let lines: Vec<&str> = text.lines().collect();
        let at = e.to_string().split("line ").nth(1).and_then(|r| r.split(' ').next()).and_then(|n| n.parse::<usize>().ok()).unwrap_or(1);
        let around = lines.iter().enumerate().skip(at.saturating_sub(12)).take(16).map(|(i, l)| format!("{:>4} {}", i + 1, l.trim_end())).collect::<Vec<_>>().join("\n");
        Failure::new("solve:unparsable-solution", format!("cannot parse written solution: {e}\n{around}"))
    })?;
    Ok((solution, text))
}

/// Open known finding shared by all solver-level engines: on matrices that violate the triangle inequality
/// any removal of a stop (ruin, local exchange, obsolete reload/break removal at finalisation ...) can lengthen
/// the remaining legs and nothing is re-validated, so time and limit rules cannot hold there.
pub fn known_nonmetric(property: &str, rendered: &Rendered, rule: &str, stats: &Stats) -> bool {
    const SIG: &str = "feasibility@removal-on-non-metric-data";
    let metric_dependent = matches!(rule, "time-window" | "time-window-start" | "shift-end" | "max-duration" | "max-distance");
    if metric_dependent && rendered.info.features.iter().any(|x| x == "non_metric") && known_open(property, SIG) {
        stats.known_hit(SIG);
        stats.class(&format!("excluded_known.detail.{rule}@non-metric"));
        return true;
    }
    // Same root cause as the open reachability finding: a leg flagged unreachable that is not one of the two legs around an
    // inserted activity (start->end of an empty tour, a leg made adjacent by a removal) is never checked, and its sentinel
    // value (-1 for distance and duration) then enters the schedule and limit arithmetic of the following insertions.
    const REACH: &str = "feasibility:reachability";
    if metric_dependent && rendered.info.features.iter().any(|x| x == "unreachable_pairs") && known_open(property, REACH) {
        stats.known_hit(REACH);
        stats.class(&format!("excluded_known.detail.{rule}@unreachable-pairs"));
        return true;
    }
    false
}

/// Tolerance in output units: 1 for integral data, 2 when a fractional scale makes times fractional.
pub fn tolerance(problem: &api::Problem) -> i64 {
    let fractional = problem.fleet.vehicles.iter().any(|v| v.profile.scale.is_some_and(|s| (s * 2.).fract() != 0.));
    if fractional { 2 } else { 1 }
}

pub fn findings_failure(property: &str, which: &RProp, verdict: &Verdict, rendered: &Rendered, solution_text: &str, stats: &Stats) -> Check {
    let id = match which {
        RProp::Feasibility => "feasibility",
        RProp::Conservation => "conservation",
        RProp::Reporting => "reporting",
    };
    // a tour that R finds infeasible in time (C01's subject) has no well-defined schedule to compare reported numbers with:
    // the solver did not wait for a window it missed while R's replay does; such tours are left to C01
    let tour_of = |detail: &str| detail.strip_prefix("tour ").and_then(|r| r.split(' ').next()).and_then(|n| n.parse::<usize>().ok());
    let infeasible_tours: Vec<usize> = verdict.of(RProp::Feasibility).iter().filter(|x| matches!(x.rule.as_str(), "time-window" | "time-window-start" | "shift-end" | "reachability")).filter_map(|x| tour_of(&x.detail)).collect();
    // open known findings are excluded (and counted) so that the search continues behind them
    let f = verdict
        .of(which.clone())
        .into_iter()
        .filter(|x| {
            if id == "reporting" && tour_of(&x.detail).is_some_and(|t| infeasible_tours.contains(&t)) {
                stats.class("reporting.skipped.tour_infeasible_in_time_for_R");
                return false;
            }

            let sig = format!("{id}:{}", x.rule);
            if id == "feasibility" && known_nonmetric(property, rendered, &x.rule, stats) {
                return false;
            }
            if known_open(property, &sig) {
                stats.known_hit(&sig);
                false
            } else {
                true
            }
        })
        .collect::<Vec<_>>();
    if let Some(first) = f.first() {
        let all = f.iter().take(6).map(|x| format!("[{}] {}", x.rule, x.detail)).collect::<Vec<_>>().join("\n");
        let doc = json!({"problem": rendered.problem, "matrices": rendered.matrices});
        return Err(Failure::new(
            format!("{id}:{}", first.rule),
            format!("{all}\n--- problem+matrices:\n{}\n--- solution:\n{}", doc, solution_text.chars().filter(|c| !c.is_whitespace()).collect::<String>()),
        ));
    }
    Ok(())
}

pub fn classify(which: &RProp, verdict: &Verdict, rendered: &Rendered, solution: &sol::Solution, case_hash: u64, stats: &Stats) {
    for f in rendered.info.features.iter() {
        stats.class(&format!("feature.{f}"));
    }
    for f in verdict.facts.iter() {
        stats.class(&format!("fact.{f}"));
    }
    for (k, n) in verdict.unspecified.iter() {
        stats.class_n(&format!("unspecified.{k}"), *n);
    }
    stats.class(if verdict.full_semantics { "semantics.full" } else { "semantics.restricted" });
    let has = |f: &str| verdict.facts.contains(f);
    let rich_tour = solution.tours.iter().any(|t| t.stops.iter().map(|s| s.activities().iter().filter(|a| !matches!(a.activity_type.as_str(), "departure" | "arrival")).count()).sum::<usize>() >= 2);
    let nontrivial = match which {
        RProp::Feasibility => {
            rich_tour
                && (verdict.facts.iter().any(|f| f.starts_with("binding_"))
                    || ["skills_assigned", "group_assigned", "compatibility_assigned", "order_assigned", "reload_assigned", "break_assigned", "shared_resource_used"].iter().any(|f| has(f)))
        }
        RProp::Conservation => (has("multi_task_assigned") || has("break_assigned") || has("reload_assigned") || rendered.info.features.iter().any(|f| f == "multi_task_job" || f == "pickup_delivery")) && (has("has_unassigned") || has("multi_tour")),
        RProp::Reporting => verdict.legs >= 3 && (has("multi_activity_stop") || has("waiting") || has("scaled_profile") || has("reload_assigned") || has("open_end_tour")),
    };
    if nontrivial {
        stats.nontrivial(case_hash);
        stats.class("nontrivial");
    }
}

impl Prop for E2eProp {
    type Case = E2eCase;
    fn name(&self) -> &'static str {
        match self.which {
            RProp::Feasibility => "e2e_feasibility",
            RProp::Conservation => "e2e_conservation",
            RProp::Reporting => "e2e_reporting",
        }
    }
    fn strategy(&self, tier: Tier) -> BoxedStrategy<E2eCase> {
        (mixed_spec(tier.pick(12, 30)), config_spec(tier.pick(40, 200))).prop_map(|(spec, config)| E2eCase { spec, config }).boxed()
    }
    fn cases(&self, tier: Tier) -> u32 {
        tier.pick(2_400, 20_000)
    }
    fn shards(&self, _tier: Tier) -> u32 {
        16
    }
    fn max_shrink_iters(&self) -> u32 {
        400
    }
    fn check(&self, case: &E2eCase, stats: &Stats) -> Check {
        let rendered = render(&case.spec);
        let core = read_core(&rendered.problem, &rendered.matrices).map_err(|e| Failure::new("harness:generator-invalid", format!("generated problem was rejected: {e}\n{}", serde_json::to_string(&rendered.problem).unwrap_or_default())))?;
        let cfg = render_config(&case.config);
        let (solution, text) = solve_to_solution(core, &cfg)?;
        let verdict = refmodel::evaluate(&rendered.problem, &rendered.matrices, &solution, tolerance(&rendered.problem));
        stats.eval();
        classify(&self.which, &verdict, &rendered, &solution, hash_of(&format!("{case:?}")), stats);
        stats.class(&format!("config.population.{}", case.config.population));
        stats.class(&format!("config.hyper.{}", case.config.hyper));
        stats.sample(2, || {
            json!({"kind": Prop::name(self), "features": rendered.info.features, "jobs": rendered.problem.plan.jobs.len(), "vehicle_types": rendered.problem.fleet.vehicles.len(),
                   "config": cfg, "tours": solution.tours.len(), "unassigned": solution.unassigned.as_ref().map_or(0, |u| u.len()), "facts": verdict.facts})
        });
        findings_failure(self.property, &self.which, &verdict, &rendered, &text, stats)
    }
}

// ---------------------------------------------------------------------------------------------
// relations derived from a witness solution
// ---------------------------------------------------------------------------------------------

#[derive(Clone, Debug, Serialize, Deserialize)]
pub struct RelCase {
    pub spec: ProblemSpec,
    pub config: ConfigSpec,
    pub picks: Vec<u16>,
}

pub struct RelProp {
    pub which: RProp,
    pub property: &'static str,
}

/// Premise of the derivation: a sub-sequence of a feasible tour stays feasible only on metric data.
pub fn relation_spec(mut spec: ProblemSpec) -> ProblemSpec {
    spec.non_metric = false;
    spec.unreachable.clear();
    spec
}

/// Solves P lightly, reads relations off the solution and returns P' = P + relations (None when there is nothing to lock).
pub fn with_witness_relations(rendered: &Rendered, picks: &[u16], stats: &Stats) -> Result<Option<(Rendered, sol::Solution)>, Failure> {
    let core = read_core(&rendered.problem, &rendered.matrices).map_err(|e| Failure::new("harness:generator-invalid", format!("generated problem was rejected: {e}")))?;
    let witness_cfg = json!({"termination": {"maxGenerations": 10}, "environment": {"parallelism": {"numThreadPools": 1, "threadsPerPool": 1}, "logging": {"enabled": false}}});
    let (witness, _) = solve_to_solution(core, &witness_cfg)?;
    let verdict = refmodel::evaluate(&rendered.problem, &rendered.matrices, &witness, tolerance(&rendered.problem));
    if verdict.findings.iter().any(|f| f.prop != RProp::Reporting) {
        stats.class("rel.skipped.witness_not_clean");
        return Ok(None);
    }
    let relations = super::relgen::derive_relations(&rendered.problem, &witness, picks);
    if relations.is_empty() {
        stats.class("rel.skipped.nothing_to_lock");
        return Ok(None);
    }
    let mut locked = rendered.clone();
    locked.problem.plan.relations = Some(relations);
    // the witness itself must satisfy the relations read off it (self-check of the derivation and of R's relation rules)
    let self_check = refmodel::evaluate(&locked.problem, &locked.matrices, &witness, tolerance(&locked.problem));
    if let Some(f) = self_check.findings.iter().find(|f| f.rule.starts_with("relation-")) {
        return Err(Failure::new("harness:derived-relation-not-satisfied-by-witness", format!("[{}] {}", f.rule, f.detail)));
    }
    Ok(Some((locked, witness)))
}

impl Prop for RelProp {
    type Case = RelCase;
    fn name(&self) -> &'static str {
        match self.which {
            RProp::Feasibility => "e2e_relations_feasibility",
            RProp::Conservation => "e2e_relations_conservation",
            RProp::Reporting => "e2e_relations_reporting",
        }
    }
    fn strategy(&self, tier: Tier) -> BoxedStrategy<RelCase> {
        (problem_spec(tier.pick(12, 30)), config_spec(tier.pick(40, 200)), prop::collection::vec(any::<u16>(), 24)).prop_map(|(spec, config, picks)| RelCase { spec: relation_spec(spec), config, picks }).boxed()
    }
    fn cases(&self, tier: Tier) -> u32 {
        tier.pick(1_200, 8_000)
    }
    fn shards(&self, _tier: Tier) -> u32 {
        16
    }
    fn max_shrink_iters(&self) -> u32 {
        200
    }
    fn check(&self, case: &RelCase, stats: &Stats) -> Check {
        let rendered = render(&relation_spec(case.spec.clone()));
        let Some((locked, witness)) = with_witness_relations(&rendered, &case.picks, stats)? else { return Ok(()) };
        let core = read_core(&locked.problem, &locked.matrices).map_err(|e| Failure::new("harness:generator-invalid-relations", format!("problem with relations read off its own solution was rejected: {e}\n{}", serde_json::to_string(&locked.problem.plan.relations).unwrap_or_default())))?;
        let cfg = render_config(&case.config);
        let (solution, text) = solve_to_solution(core, &cfg)?;
        let verdict = refmodel::evaluate(&locked.problem, &locked.matrices, &solution, tolerance(&locked.problem));
        stats.eval();
        for f in verdict.facts.iter().filter(|f| f.starts_with("relation_")) {
            stats.class(&format!("rel.fact.{f}"));
        }
        let relations = locked.problem.plan.relations.as_ref().map_or(0, |r| r.len());
        let order = |s: &sol::Solution| s.tours.iter().map(|t| (t.vehicle_id.clone(), t.shift_index, t.stops.iter().flat_map(|st| st.activities().iter().map(|a| a.job_id.clone())).collect::<Vec<_>>())).collect::<BTreeSet<_>>();
        if order(&solution) != order(&witness) {
            // the search really moved something while the locks had to hold
            stats.class("rel.solution_differs_from_witness");
            stats.nontrivial(hash_of(&format!("{case:?}")));
        }
        if relations >= 2 {
            stats.class("rel.two_or_more_relations");
        }
        stats.sample(2, || json!({"kind": Prop::name(self), "features": locked.info.features, "jobs": locked.problem.plan.jobs.len(), "relations": locked.problem.plan.relations, "tours": solution.tours.len()}));
        findings_failure(self.property, &self.which, &verdict, &locked, &text, stats)
    }
}

/// Replay-only sub-check over complete documents (problem + matrices + config), used by corpus files.
#[derive(Clone, Debug, Serialize, Deserialize)]
pub struct DocCase {
    pub problem: api::Problem,
    pub matrices: Vec<api::Matrix>,
    pub config: Value,
}

pub struct E2eDocProp {
    pub which: RProp,
    pub property: &'static str,
}

impl Prop for E2eDocProp {
    type Case = DocCase;
    fn name(&self) -> &'static str {
        match self.which {
            RProp::Feasibility => "e2e_doc_feasibility",
            RProp::Conservation => "e2e_doc_conservation",
            RProp::Reporting => "e2e_doc_reporting",
        }
    }
    fn strategy(&self, _tier: Tier) -> BoxedStrategy<DocCase> {
        Just(DocCase { problem: render(&ProblemSpec { coords: vec![(0, 0), (1, 1), (2, 2)], asym: vec![0; 9], non_metric: false, unreachable: vec![], profiles: 1, dims: 1, jobs: vec![], vehicles: vec![], objectives: 0, shared_resource_capacity: 5, features: 0 }).problem, matrices: vec![], config: Value::Null }).boxed()
    }
    fn cases(&self, _tier: Tier) -> u32 {
        0
    }
    fn check(&self, case: &DocCase, stats: &Stats) -> Check {
        let rendered = Rendered { problem: case.problem.clone(), matrices: case.matrices.clone(), info: RenderInfo::default() };
        let core = read_core(&rendered.problem, &rendered.matrices).map_err(|e| Failure::new("harness:corpus-invalid", format!("corpus problem rejected: {e}")))?;
        let (solution, text) = solve_to_solution(core, &case.config)?;
        let verdict = refmodel::evaluate(&rendered.problem, &rendered.matrices, &solution, tolerance(&rendered.problem));
        stats.eval();
        stats.class("corpus_documents_solved");
        findings_failure(self.property, &self.which, &verdict, &rendered, &text, stats)
    }
}

pub fn property(id: &'static str, _tier: Tier) -> PropertyDef {
    let (which, rule, required): (RProp, &'static str, Vec<&'static str>) = match id {
        "C01" => (
            RProp::Feasibility,
            "proptest: generated valid pragmatic problems (3-9 index locations with asymmetric integer matrices, optional non-metric / unreachable pairs / two profiles / scaled profiles; 1-12 jobs (thorough 30) of all task kinds incl. pickup+delivery and 3-task jobs, multi-place, 0-3 disjoint windows, 1-2 demand dimensions, skills, groups, compatibility, order, value; 1-3 vehicle types x 1-3 ids x 1-2 shifts, open/closed, start.latest, limits, optional breaks (window/offset, with/without location), reloads (optionally shared resource), explicit objective lists) x generated solver configs (population greedy/elitism/rosomaxa, hyper dynamic/static/custom operator lists over all ruin/recreate/local operators + decomposition, initial methods, maxGenerations, 1-3 pools x 1-4 threads), solved through vrp_cli::get_solution_serialized; the written solution is judged by the independent reference model R (capacity per reload interval and dimension, windows, shift times, skills, limits, group, compatibility, hard order, reachability, shared resource). Sub-check construction_reachability: solutions built by insertions only (each of the 11 recreate operators on an empty solution; problems with flagged pairs and without breaks/reloads, so nothing is ever removed) never drive a leg flagged unreachable - this part of the reachability rule is not covered by the open known finding on removals (non-trivial there: a tour visits an end point of a flagged pair). Non-trivial: a tour with >=2 customer activities and a binding constraint (load >=80% of capacity, arrival in the last 5% of a window/shift, limit >=90% used) or skills/group/compatibility/order/reload/break/shared-resource feature in an assigned tour. Distinct by case hash.",
            vec!["nontrivial", "fact.binding_capacity", "fact.binding_time_window", "fact.reload_assigned", "fact.break_assigned", "fact.skills_assigned", "fact.group_assigned", "fact.compatibility_assigned", "fact.order_assigned", "semantics.full"],
        ),
        "C02" => (
            RProp::Conservation,
            "same generated problems x configs as C01; oracle = bookkeeping model over ids: every plan job either complete in exactly one tour (all tasks once, matched by kind and unique tag, pickups first) or exactly once in unassigned with >=1 reason; no foreign/duplicate ids; every tour names an existing vehicle/type/shift used once and serves >=1 customer job; every break/reload activity maps injectively to one defined on that vehicle shift. Sub-check e2e_ext_conservation: the same bookkeeping on problems extended with vicinity clustering (thresholds, visiting/serving policies, with/without a filtering policy, jobs co-located so that clusters form), required breaks (exact and offset form, replacing the optional breaks of the shift) and relations read off a witness solution of the extended problem (non-trivial there: a stop with >=2 clustered activities or an assigned required break). Non-trivial: problem has a multi-task job or an assigned break/reload, and the solution has an unassigned job or >=2 tours. Distinct by case hash.",
            vec!["nontrivial", "fact.has_unassigned", "fact.multi_tour", "fact.multi_task_assigned", "fact.reload_assigned", "fact.break_assigned", "ext.solution.cluster_of_two_or_more", "ext.fact.required_break_assigned", "ext.solution.transit_stop", "ext.clustering_with_filtering_and_relations"],
        ),
        _ => (
            RProp::Reporting,
            "same generated problems x configs as C01; oracle = R's replay of arrival/departure/activity intervals, per-stop load and cumulative distance, per-tour distance/duration/driving/serving/waiting/break split and cost = fixed + distance*cd + duration*ct, overall statistic = sum of tours, tag/location agreement; tolerance 1 output unit on integral data (2 with fractional scales), cost 1e-6 relative. Non-trivial: >=3 legs and (a stop with >=2 activities, or waiting, or a scaled profile, or a reload, or an open end). Distinct by case hash.",
            vec!["nontrivial", "fact.multi_activity_stop", "fact.waiting", "fact.scaled_profile", "fact.open_end_tour", "fact.fixed_cost", "fact.reload_assigned"],
        ),
    };
    PropertyDef {
        id,
        level: "exploration",
        rule,
        assumptions: vec![
            "reference model R (harness/src/engines/refmodel.rs) is a faithful reading of the documented pragmatic semantics; it is cross-checked on the repository's example problem/solution pairs",
            "required breaks and vicinity clustering are judged under restricted semantics (bookkeeping rules only, generated by sub-check e2e_ext_conservation of C02); recharge and time-dependent matrices are not generated in this engine",
            "thread interleavings and termination moments are sampled, not enumerated",
        ],
        props: {
            let mut props: Vec<Box<dyn DynProp>> = vec![Box::new(E2eProp { which: which.clone(), property: id }), Box::new(RelProp { which: which.clone(), property: id })];
            if id == "C02" {
                props.push(Box::new(super::ext::ExtProp { property: id }));
            }
            if id == "C01" {
                props.push(Box::new(super::ext::ConstructionReachabilityProp));
            }
            props.push(Box::new(E2eDocProp { which, property: id }));
            props
        },
        extra: None,
        required_classes: required,
    }
}

/// Debug helper: finds the first insertion after which a shared reload resource is overdrawn (single resource problems).
pub fn debug_resource(path: &str) {
    use std::sync::Mutex;
    use vrp_cli::extensions::solve::config::create_builder_from_config;
    use vrp_core::construction::features::JobDemandDimension;
    use vrp_core::models::common::{MultiDimLoad, SingleDimLoad};
    use vrp_core::models::problem::JobIdDimension;
    use vrp_core::solver::Solver;
    let doc: Value = serde_json::from_str(&std::fs::read_to_string(path).unwrap()).unwrap();
    let case: E2eCase = serde_json::from_value(doc["case"].clone()).unwrap();
    let rendered = render(&case.spec);
    let core = read_core(&rendered.problem, &rendered.matrices).unwrap();
    let cfg = render_config(&case.config);
    let capacity: i64 = rendered.problem.fleet.resources.iter().flatten().map(|r| { let api::VehicleResource::Reload { capacity, .. } = r; capacity[0] as i64 }).next().unwrap_or(i64::MAX);
    static PREV: Mutex<String> = Mutex::new(String::new());
    static DONE: std::sync::atomic::AtomicBool = std::sync::atomic::AtomicBool::new(false);
    vrp_core::construction::heuristics::verif_hooks::set_insertion_observer(Some(Arc::new(move |ctx| {
        let mut total = 0i64;
        let mut text = String::new();
        for r in ctx.solution.routes.iter() {
            let mut after_reload = false;
            text.push('[');
            for a in r.route().tour.all_activities() {
                let id = a.retrieve_job().and_then(|j| j.dimens().get_job_id().cloned()).unwrap_or("-".into());
                if id.contains("_reload_") {
                    // VERIF_SHARED_SUFFIX: only reloads whose id ends with it take from the shared resource
                    after_reload = std::env::var("VERIF_SHARED_SUFFIX").map_or(true, |sfx| id.ends_with(&sfx));
                }
                let d = a.job.as_ref().and_then(|s| s.dimens.get_job_demand::<SingleDimLoad>().map(|d| d.delivery.0.value as i64).or_else(|| s.dimens.get_job_demand::<MultiDimLoad>().map(|d| d.delivery.0.load[0] as i64))).unwrap_or(0);
                if after_reload {
                    total += d;
                }
                text.push_str(&format!(" {id}({d})"));
            }
            text.push_str("] ");
        }
        let line = format!("total {total}: {text} | req {} una {} ign {}", ctx.solution.required.len(), ctx.solution.unassigned.len(), ctx.solution.ignored.len());
        if total > capacity && !DONE.swap(true, std::sync::atomic::Ordering::SeqCst) {
            crate::outln!("FIRST OVERDRAWN STATE AFTER AN INSERTION (capacity {capacity})\n  before: {}\n  after:  {line}", PREV.lock().unwrap());
        }
        *PREV.lock().unwrap() = line;
    })));
    for attempt in 0..30 {
        let config = parse_config(&cfg).unwrap();
        let _ = create_builder_from_config(core.clone(), Default::default(), &config).and_then(|b| b.build()).map(|c| Solver::new(core.clone(), c)).and_then(|s| s.solve());
        if DONE.load(std::sync::atomic::Ordering::SeqCst) {
            crate::outln!("reproduced in attempt {attempt}");
            return;
        }
    }
    crate::outln!("not reproduced");
}

/// Debug helper: solves a saved case through the core API and dumps raw route schedules.
pub fn debug_case(path: &str) {
    use vrp_cli::extensions::solve::config::create_builder_from_config;
    use vrp_core::models::problem::JobIdDimension;
    use vrp_core::solver::Solver;
    let doc: Value = serde_json::from_str(&std::fs::read_to_string(path).unwrap()).unwrap();
    let case: E2eCase = serde_json::from_value(doc["case"].clone()).unwrap();
    let rendered = render(&case.spec);
    let core = read_core(&rendered.problem, &rendered.matrices).unwrap();
    let mut cfg = render_config(&case.config);
    if let Ok(c) = std::env::var("VERIF_CFG") {
        cfg = serde_json::from_str(&c).unwrap();
    }
    crate::outln!("config: {cfg}");
    {
        use std::sync::atomic::{AtomicBool, Ordering};
        static SEEN: AtomicBool = AtomicBool::new(false);
        vrp_core::construction::heuristics::verif_hooks::set_insertion_observer(Some(Arc::new(|ctx| {
            let bad = ctx.solution.routes.iter().any(|r| r.route().tour.all_activities().any(|a| a.schedule.arrival > a.place.time.end));
            if !SEEN.load(Ordering::SeqCst) {
                let mut line = String::from("STEP ");
                for r in ctx.solution.routes.iter() {
                    line.push_str(&format!("[{:?}:", vrp_core::models::problem::VehicleIdDimension::get_vehicle_id(&r.route().actor.vehicle.dimens).map(|s| s.as_str()).unwrap_or("")));
                    for a in r.route().tour.all_activities() {
                        let id = a.retrieve_job().and_then(|j| j.dimens().get_job_id().cloned()).unwrap_or("-".into());
                        line.push_str(&format!(" {id}@{}({})", a.place.location, a.schedule.arrival - 1577836800.));
                    }
                    line.push_str("] ");
                }
                crate::outln!("{line}");
            }
            if bad && !SEEN.swap(true, Ordering::SeqCst) {
                let mut out = String::from("OBSERVER: first violating state after an insertion\n");
                for r in ctx.solution.routes.iter() {
                    out.push_str(&format!(" route {:?} stale={}\n", vrp_core::models::problem::VehicleIdDimension::get_vehicle_id(&r.route().actor.vehicle.dimens), r.is_stale()));
                    for a in r.route().tour.all_activities() {
                        let id = a.retrieve_job().and_then(|j| j.dimens().get_job_id().cloned()).unwrap_or("-".into());
                        out.push_str(&format!("   {id} loc {} arr {} dep {} twend {}\n", a.place.location, a.schedule.arrival - 1577836800., a.schedule.departure - 1577836800., a.place.time.end - 1577836800.));
                    }
                }
                crate::outln!("{out}");
                experiment(ctx);
            }
        })));
    }
    for attempt in 0..200 {
        let config = parse_config(&cfg).unwrap();
        let solution = create_builder_from_config(core.clone(), Default::default(), &config).and_then(|b| b.build()).map(|c| Solver::new(core.clone(), c)).and_then(|s| s.solve()).unwrap();
        let mut bad = false;
        let mut out = String::new();
        for r in solution.routes.iter() {
            out.push_str(&format!("route {:?} start {:?} end {:?}\n", vrp_core::models::problem::VehicleIdDimension::get_vehicle_id(&r.actor.vehicle.dimens), r.actor.detail.start, r.actor.detail.end));
            for a in r.tour.all_activities() {
                let id = a.retrieve_job().and_then(|j| j.dimens().get_job_id().cloned()).unwrap_or("-".into());
                out.push_str(&format!("   {id} loc {} arr {} dep {} tw {:?} dur {}\n", a.place.location, a.schedule.arrival, a.schedule.departure, a.place.time, a.place.duration));
                if a.schedule.arrival.abs() > 1e11 || a.schedule.departure.abs() > 1e11 || a.schedule.arrival > a.place.time.end {
                    bad = true;
                    out.push_str("      ^^^^^ BAD\n");
                }
            }
        }
        if bad || std::env::var("VERIF_DUMP").is_ok() {
            crate::outln!("attempt {attempt}: found out-of-range schedule\n{out}");
            crate::outln!("{}", serde_json::to_string(&rendered.problem).unwrap());
            return;
        }
    }
    crate::outln!("not reproduced in 20 attempts");
}

/// Debug helper: solves problem/matrix JSON files and prints R's findings.
pub fn debug_json(args: &[String]) {
    let problem: api::Problem = serde_json::from_str(&std::fs::read_to_string(&args[0]).unwrap()).unwrap();
    let matrices: Vec<api::Matrix> = args[1..].iter().map(|a| serde_json::from_str(&std::fs::read_to_string(a).unwrap()).unwrap()).collect();
    let core = match read_core(&problem, &matrices) {
        Ok(c) => c,
        Err(e) => {
            crate::outln!("invalid: {e}");
            return;
        }
    };
    let cfg: Value = std::env::var("VERIF_CFG").ok().map(|c| serde_json::from_str(&c).unwrap()).unwrap_or(json!({"termination":{"maxGenerations":1},"environment":{"logging":{"enabled":false}}}));
    let mut seen = std::collections::BTreeMap::new();
    for _ in 0..10 {
        match solve_to_solution(core.clone(), &cfg) {
            Ok((solution, _)) => {
                let verdict = refmodel::evaluate(&problem, &matrices, &solution, tolerance(&problem));
                for f in verdict.findings.iter() {
                    *seen.entry(format!("{:?}:{}", f.prop, f.rule)).or_insert(0) += 1;
                    if seen.len() < 4 {
                        crate::outln!("   {:?} {} {}", f.prop, f.rule, f.detail);
                    }
                }
            }
            Err(f) => {
                *seen.entry(f.signature.clone()).or_insert(0) += 1;
            }
        }
    }
    crate::outln!("findings over 10 solves: {seen:?}");
}


fn experiment(ctx: &vrp_core::construction::heuristics::InsertionContext) {
    use rosomaxa::prelude::HeuristicSolution;
    use vrp_core::construction::heuristics::*;
    use vrp_core::models::problem::JobIdDimension;
    let bad_idx = ctx.solution.routes.iter().position(|r| r.route().tour.all_activities().any(|a| a.schedule.arrival > a.place.time.end)).unwrap();
    let jobs: Vec<_> = ctx.solution.routes[bad_idx].route().tour.jobs().cloned().collect();
    for job in jobs {
        let mut copy = ctx.deep_copy();
        copy.solution.routes[bad_idx].route_mut().tour.remove(&job);
        copy.solution.required.push(job.clone());
        copy.problem.goal.accept_solution_state(&mut copy.solution);
        let route_ctx = &copy.solution.routes[bad_idx];
        let still_bad = route_ctx.route().tour.all_activities().any(|a| a.schedule.arrival > a.place.time.end);
        let leg_selection = LegSelection::Exhaustive;
        let result_selector = BestResultSelector::default();
        let eval_ctx = EvaluationContext { goal: &copy.problem.goal, job: &job, leg_selection: &leg_selection, result_selector: &result_selector };
        let res = eval_job_insertion_in_route(&copy, &eval_ctx, route_ctx, InsertionPosition::Any, InsertionResult::make_failure());
        let id = job.dimens().get_job_id().cloned().unwrap_or_default();
        match res {
            InsertionResult::Success(s) => {
                crate::outln!("EXPERIMENT: without {id}: route still bad = {still_bad}; re-evaluation => SUCCESS at indices {:?} cost {:?}", s.activities.iter().map(|(a, i)| (*i, a.place.location)).collect::<Vec<_>>(), s.cost);
                crate::outln!("   route state digest: {:?}", route_ctx.state().verif_digest());
            }
            InsertionResult::Failure(f) => crate::outln!("EXPERIMENT: without {id}: route still bad = {still_bad}; re-evaluation => FAILURE code {:?}", f.constraint),
        }
    }
}
