//! C02 (and the restricted rules of C01): end-to-end solves of generated problems that use the features R judges under
//! *restricted semantics* - vicinity clustering (with and without a filtering policy), required breaks (exact and offset
//! form) - optionally combined with relations read off a witness solution. Only the bookkeeping rules are decided here
//! (job partition, task wholeness, vehicle-shift inventory, break/reload inventory), which is what the statement of C02
//! says about clustering and breaks: "none of these, nor clustering, ever displaces, duplicates or swallows a customer job".

use super::common::{fmt_time, parse_time};
use super::e2e::*;
use super::pgen::*;
use super::refmodel::{self, Prop as RProp};
use crate::fw::*;
use proptest::prelude::*;
use serde::{Deserialize, Serialize};
use serde_json::json;
use vrp_pragmatic::format::problem as api;

#[derive(Clone, Debug, Serialize, Deserialize)]
pub struct ClusterSpec {
    pub duration: u16,
    pub distance: u16,
    pub min_shared: Option<u8>,
    pub smallest_tw: Option<u8>,
    pub max_jobs: Option<u8>,
    pub visiting_return: bool,
    pub serving: u8,
    pub serving_value: u8,
    pub parking: u8,
    /// None: no filtering policy at all; Some(picks): explicit policy excluding the picked job ids (may be empty)
    pub filtering: Option<Vec<u16>>,
    pub scaled_profile: bool,
}

#[derive(Clone, Debug, Serialize, Deserialize)]
pub struct RequiredBreakSpec {
    pub start: u16,
    pub len: u8,
    pub duration: u8,
    pub offset_form: bool,
}

#[derive(Clone, Debug, Serialize, Deserialize)]
pub struct ExtSpec {
    pub clustering: Option<ClusterSpec>,
    /// per vehicle type (index modulo): a required break for every shift of that type
    pub required_breaks: Vec<Option<RequiredBreakSpec>>,
    /// Some(picks): relations are read off a witness solution of the extended problem
    pub relations: Option<Vec<u16>>,
    /// moves single-task jobs onto few locations so that clusters really form
    pub colocate: bool,
}

#[derive(Clone, Debug, Serialize, Deserialize)]
pub struct ExtCase {
    pub spec: ProblemSpec,
    pub config: ConfigSpec,
    pub ext: ExtSpec,
}

fn cluster_spec() -> impl Strategy<Value = ClusterSpec> {
    (
        (0u16..160, 0u16..160, prop::option::weighted(0.3, 0u8..40), prop::option::weighted(0.3, 0u8..60), prop::option::weighted(0.4, 2u8..5)),
        (any::<bool>(), 0u8..3, 0u8..30, prop_oneof![Just(0u8), Just(5), Just(20)], prop::option::weighted(0.6, prop::collection::vec(any::<u16>(), 0..3)), prop::bool::weighted(0.2)),
    )
        .prop_map(|((duration, distance, min_shared, smallest_tw, max_jobs), (visiting_return, serving, serving_value, parking, filtering, scaled_profile))| ClusterSpec {
            duration,
            distance,
            min_shared,
            smallest_tw,
            max_jobs,
            visiting_return,
            serving,
            serving_value,
            parking,
            filtering,
            scaled_profile,
        })
}

pub fn ext_spec() -> impl Strategy<Value = ExtSpec> {
    let rb = (0u16..600, 0u8..80, prop_oneof![Just(5u8), Just(20), Just(45)], any::<bool>()).prop_map(|(start, len, duration, offset_form)| RequiredBreakSpec { start, len, duration, offset_form });
    (prop::option::weighted(0.75, cluster_spec()), prop::collection::vec(prop::option::weighted(0.4, rb), 3), prop::option::weighted(0.5, prop::collection::vec(any::<u16>(), 24)), prop::bool::weighted(0.6))
        .prop_map(|(clustering, required_breaks, relations, colocate)| ExtSpec { clustering, required_breaks, relations, colocate })
}

/// Applies the extension to a rendered (valid) problem. Everything stays valid by construction: the clustering profile is
/// one of the fleet profiles; a required break lies inside its shift ([earliest, latest + duration] within the shift
/// times, E1303), replaces the optional breaks of that shift (breaks of one shift must not intersect) and uses the
/// offset form only where departure rescheduling is off (E1307).
pub fn apply_ext(rendered: &Rendered, ext: &ExtSpec) -> Rendered {
    let mut r = rendered.clone();
    let mut feat = |r: &mut Rendered, name: &str| {
        if !r.info.features.iter().any(|x| x == name) {
            r.info.features.push(name.to_string());
        }
    };
    if let Some(c) = ext.clustering.as_ref() {
        if ext.colocate {
            feat(&mut r, "ext_colocated");
        }
        let ids: Vec<String> = r.problem.plan.jobs.iter().map(|j| j.id.clone()).collect();
        let filtering = c.filtering.as_ref().map(|picks| {
            let mut ex: Vec<String> = picks.iter().map(|p| ids[pick_idx(*p, ids.len())].clone()).collect();
            ex.dedup();
            api::VicinityFilteringPolicy { exclude_job_ids: ex }
        });
        if filtering.is_some() {
            feat(&mut r, "ext_clustering_filtering");
        }
        let profile = r.problem.fleet.profiles[0].name.clone();
        r.problem.plan.clustering = Some(api::Clustering::Vicinity {
            profile: api::VehicleProfile { matrix: profile, scale: c.scaled_profile.then_some(1.5) },
            threshold: api::VicinityThresholdPolicy {
                duration: c.duration as f64,
                distance: c.distance as f64,
                min_shared_time: c.min_shared.map(|x| x as f64),
                smallest_time_window: c.smallest_tw.map(|x| x as f64),
                max_jobs_per_cluster: c.max_jobs.map(|x| x as usize),
            },
            visiting: if c.visiting_return { api::VicinityVisitPolicy::Return } else { api::VicinityVisitPolicy::Continue },
            serving: match c.serving {
                0 => api::VicinityServingPolicy::Original { parking: c.parking as f64 },
                1 => api::VicinityServingPolicy::Multiplier { value: [0.5, 1., 2.][c.serving_value as usize % 3], parking: c.parking as f64 },
                _ => api::VicinityServingPolicy::Fixed { value: c.serving_value as f64, parking: c.parking as f64 },
            },
            filtering,
        });
        feat(&mut r, "ext_clustering");
    }
    for (vi, vt) in r.problem.fleet.vehicles.iter_mut().enumerate() {
        let Some(rb) = ext.required_breaks.get(vi % ext.required_breaks.len().max(1)).and_then(|x| x.as_ref()) else { continue };
        for shift in vt.shifts.iter_mut() {
            let Some(earliest) = parse_time(&shift.start.earliest) else { continue };
            let end = shift.end.as_ref().and_then(|e| parse_time(&e.latest)).unwrap_or(earliest + 1500);
            let room = end - earliest - rb.duration as i64 - rb.len as i64 - 2;
            if room < 10 {
                continue;
            }
            let start = rb.start as i64 % room;
            let no_rescheduling = shift.start.latest.as_ref() == Some(&shift.start.earliest);
            let time = if rb.offset_form && no_rescheduling {
                api::VehicleRequiredBreakTime::OffsetTime { earliest: start as f64, latest: (start + rb.len as i64) as f64 }
            } else {
                api::VehicleRequiredBreakTime::ExactTime { earliest: fmt_time(earliest + start), latest: fmt_time(earliest + start + rb.len as i64) }
            };
            shift.breaks = Some(vec![api::VehicleBreak::Required { time, duration: rb.duration as f64 }]);
            if !r.info.features.iter().any(|x| x == "ext_required_break") {
                r.info.features.push("ext_required_break".to_string());
            }
        }
    }
    r.info.features.retain(|f| f != "break" && f != "break_offset" || r.problem.fleet.vehicles.iter().any(|v| v.shifts.iter().any(|s| s.breaks.iter().flatten().any(|b| matches!(b, api::VehicleBreak::Optional { .. })))));
    r
}

pub struct ExtProp {
    pub property: &'static str,
}

/// Open known finding `solve:panic:format_time@required-break`: the f64::MAX sentinel of the reserved-time activity cost
/// reaches the solution writer. `Ok(())` = it is that finding and it is listed as open (counted, the case is skipped);
/// otherwise the failure comes back, under the specific signature when the circumstances are those of the finding.
fn required_break_panic(property: &str, rendered: &Rendered, f: Failure, stats: &Stats) -> Result<(), Failure> {
    const SIG: &str = "solve:panic:format_time@required-break";
    let has_required_break = rendered.problem.fleet.vehicles.iter().any(|v| v.shifts.iter().any(|s| s.breaks.iter().flatten().any(|b| matches!(b, api::VehicleBreak::Required { .. }))));
    if has_required_break && f.signature.starts_with("solve:panic:") && f.message.contains("format_time") {
        if known_open(property, SIG) {
            stats.known_hit(SIG);
            return Ok(());
        }
        return Err(Failure::new(SIG, f.message));
    }
    Err(f)
}

impl ExtProp {
    /// the extended problem of a case (None: no extension applicable)
    pub fn build_opt(&self, case: &ExtCase, stats: &Stats) -> Result<Option<Rendered>, Failure> {
        let mut spec = case.spec.clone();
        if case.ext.colocate && case.ext.clustering.is_some() {
            // single-task jobs are moved onto the locations of the first two jobs so that clusters really form
            // (done on the spec: rendering keeps location indices and matrices consistent)
            let anchors: Vec<u16> = spec.jobs.iter().take(2).map(|j| j.places[0][0].loc).collect();
            for (ji, j) in spec.jobs.iter_mut().enumerate().skip(2) {
                if matches!(j.kind, JobKind::Delivery | JobKind::Pickup | JobKind::Service | JobKind::Replacement) {
                    j.places[0][0].loc = anchors[ji % anchors.len()];
                }
            }
        }
        // shifts that get a required break lose their optional breaks (breaks of one shift must not intersect); done on the
        // spec so that a break location which is no longer used does not stay in the matrices
        for (vi, v) in spec.vehicles.iter_mut().enumerate() {
            if case.ext.required_breaks.get(vi % case.ext.required_breaks.len().max(1)).is_some_and(|x| x.is_some()) {
                v.shifts.iter_mut().for_each(|s| s.breaks.clear());
            }
        }
        let base = render(&spec);
        let mut rendered = apply_ext(&base, &case.ext);
        if rendered.problem.plan.clustering.is_none() && !rendered.info.features.iter().any(|f| f == "ext_required_break") {
            stats.class("ext.skipped.no_extension_applied");
            return Ok(None);
        }
        read_core(&rendered.problem, &rendered.matrices).map_err(|e| Failure::new("harness:generator-invalid", format!("generated extended problem was rejected: {e}\n{}", serde_json::to_string(&rendered.problem).unwrap_or_default())))?;
        if let Some(picks) = case.ext.relations.as_ref() {
            // the witness solve is a solve of the extended problem: the open required-break finding applies to it as well
            let witness = match with_witness_relations(&rendered, picks, stats) {
                Ok(w) => w,
                Err(f) => match required_break_panic(self.property, &rendered, f, stats) {
                    Ok(()) => return Ok(None),
                    Err(f) => return Err(f),
                },
            };
            if let Some((locked, _)) = witness {
                rendered = locked;
                rendered.info.features.push("ext_relations".to_string());
            }
        }
        Ok(Some(rendered))
    }
    pub fn build(&self, case: &ExtCase, stats: &Stats) -> Result<Rendered, Failure> {
        self.build_opt(case, stats)?.ok_or_else(|| Failure::new("none", "no extension"))
    }
}

impl Prop for ExtProp {
    type Case = ExtCase;
    fn name(&self) -> &'static str {
        "e2e_ext_conservation"
    }
    fn strategy(&self, tier: Tier) -> BoxedStrategy<ExtCase> {
        (problem_spec_sized(2, tier.pick(12, 30)), config_spec(tier.pick(40, 200)), ext_spec())
            .prop_map(|(mut spec, config, ext)| {
                // the premise of witness-derived relations (metric data, no unreachable pairs), see e2e::relation_spec
                if ext.relations.is_some() {
                    spec = relation_spec(spec);
                }
                ExtCase { spec, config, ext }
            })
            .boxed()
    }
    fn cases(&self, tier: Tier) -> u32 {
        tier.pick(1_600, 12_000)
    }
    fn shards(&self, _tier: Tier) -> u32 {
        16
    }
    fn max_shrink_iters(&self) -> u32 {
        200
    }
    fn check(&self, case: &ExtCase, stats: &Stats) -> Check {
        let Some(rendered) = self.build_opt(case, stats)? else { return Ok(()) };
        let core = read_core(&rendered.problem, &rendered.matrices).map_err(|e| Failure::new("harness:generator-invalid-relations", format!("extended problem with relations read off its own solution was rejected: {e}\n{}", serde_json::to_string(&rendered.problem.plan.relations).unwrap_or_default())))?;
        let cfg = render_config(&case.config);
        let (solution, text) = match solve_to_solution(core, &cfg) {
            Ok(x) => x,
            Err(f) => match required_break_panic(self.property, &rendered, f, stats) {
                Ok(()) => return Ok(()),
                Err(f) => return Err(f),
            },
        };
        let verdict = refmodel::evaluate(&rendered.problem, &rendered.matrices, &solution, tolerance(&rendered.problem));
        stats.eval();
        for f in rendered.info.features.iter().filter(|f| f.starts_with("ext_")) {
            stats.class(&format!("ext.feature.{f}"));
        }
        for f in verdict.facts.iter() {
            stats.class(&format!("ext.fact.{f}"));
        }
        // what the solution shows of the extensions
        let acts = || solution.tours.iter().flat_map(|t| t.stops.iter()).flat_map(|s| s.activities().iter());
        let clustered = acts().filter(|a| a.commute.is_some()).count();
        let cluster_stop = solution.tours.iter().flat_map(|t| t.stops.iter()).any(|s| s.activities().iter().filter(|a| a.commute.is_some()).count() >= 2);
        let required_break = verdict.facts.contains("required_break_assigned");
        if clustered > 0 {
            stats.class("ext.solution.commute_activity");
        }
        if cluster_stop {
            stats.class("ext.solution.cluster_of_two_or_more");
        }
        if verdict.facts.contains("transit_stop") {
            stats.class("ext.solution.transit_stop");
        }
        let with_relations = rendered.problem.plan.relations.is_some();
        if with_relations && rendered.problem.plan.clustering.is_some() {
            stats.class("ext.clustering_with_relations");
            if rendered.info.features.iter().any(|f| f == "ext_clustering_filtering") {
                stats.class("ext.clustering_with_filtering_and_relations");
            }
        }
        if cluster_stop || required_break {
            stats.class("nontrivial");
            stats.nontrivial(hash_of(&format!("{case:?}")));
        }
        stats.sample(2, || json!({"kind": "e2e_ext_conservation", "features": rendered.info.features, "jobs": rendered.problem.plan.jobs.len(), "clustering": rendered.problem.plan.clustering, "relations": rendered.problem.plan.relations, "tours": solution.tours.len(), "clustered_activities": clustered, "facts": verdict.facts}));
        findings_failure(self.property, &RProp::Conservation, &verdict, &rendered, &text, stats)
    }
}

/// Debug helper: writes the extended problem (+ relations of one witness run), matrices and config of a saved case.
pub fn debug_dump(path: &str, out_dir: &str) {
    let doc: serde_json::Value = serde_json::from_str(&std::fs::read_to_string(path).unwrap()).unwrap();
    let case: ExtCase = serde_json::from_value(doc["case"].clone()).unwrap();
    let stats = Stats::new();
    let prop = ExtProp { property: "C02" };
    let rendered = prop.build(&case, &stats).unwrap();
    std::fs::create_dir_all(out_dir).unwrap();
    std::fs::write(format!("{out_dir}/problem.json"), serde_json::to_string_pretty(&rendered.problem).unwrap()).unwrap();
    for (i, m) in rendered.matrices.iter().enumerate() {
        std::fs::write(format!("{out_dir}/matrix{i}.json"), serde_json::to_string(m).unwrap()).unwrap();
    }
    std::fs::write(format!("{out_dir}/config.json"), render_config(&case.config).to_string()).unwrap();
    crate::outln!("written to {out_dir}: features {:?}", rendered.info.features);
}

/// Debug helper: solves a problem document repeatedly with the default configuration and prints tours whose schedule is out of range.
pub fn debug_schedule(args: &[String]) {
    use vrp_core::solver::{Solver, VrpConfigBuilder};
    use vrp_core::models::problem::{JobIdDimension, VehicleIdDimension};
    let problem: api::Problem = serde_json::from_str(&std::fs::read_to_string(&args[0]).unwrap()).unwrap();
    let matrices: Vec<api::Matrix> = args[1..].iter().map(|a| serde_json::from_str(&std::fs::read_to_string(a).unwrap()).unwrap()).collect();
    let core = read_core(&problem, &matrices).unwrap();
    let mut bad = 0;
    for i in 0..200 {
        let env = super::common::quiet_env_default_random(rosomaxa::utils::Parallelism::new(1, 1), None);
        let config = VrpConfigBuilder::new(core.clone()).set_environment(env).prebuild().unwrap().with_max_generations(Some(40)).build().unwrap();
        let solution = Solver::new(core.clone(), config).solve().unwrap();
        for route in solution.routes.iter() {
            if route.tour.all_activities().any(|a| !(a.schedule.arrival.abs() < 1e12 && a.schedule.departure.abs() < 1e12)) {
                bad += 1;
                if bad <= 3 {
                    crate::outln!("run {i}: vehicle {:?}", route.actor.vehicle.dimens.get_vehicle_id());
                    for a in route.tour.all_activities() {
                        crate::outln!("   loc {} arr {} dep {} tw {:?} dur {} job {:?} commute {:?}", a.place.location, a.schedule.arrival, a.schedule.departure, (a.place.time.start, a.place.time.end), a.place.duration, a.job.as_ref().and_then(|j| j.dimens.get_job_id().cloned()), a.commute.is_some());
                    }
                }
            }
        }
    }
    crate::outln!("routes with out-of-range schedule over 200 solves: {bad}");
}

// ---------------------------------------------------------------------------------------------
// C01: construction-only solutions never drive an unreachable leg
// ---------------------------------------------------------------------------------------------

/// The open known finding on reachability (an unreachable pair made adjacent by a *removal*) masks R's reachability rule in
/// the end-to-end runs. A solution built by insertions only (one recreate operator on an empty solution of a problem
/// without breaks and reloads, so that nothing is ever removed, not even an obsolete marker) cannot be explained by it:
/// every leg of such a tour was one of the two legs around an inserted activity when it was created.
#[derive(Clone, Debug, Serialize, Deserialize)]
pub struct ConstructionCase {
    pub spec: ProblemSpec,
    pub extra_unreachable: Vec<u16>,
    pub recreate: u8,
    pub seed: u64,
}

pub struct ConstructionReachabilityProp;

impl Prop for ConstructionReachabilityProp {
    type Case = ConstructionCase;
    fn name(&self) -> &'static str {
        "construction_reachability"
    }
    fn strategy(&self, tier: Tier) -> BoxedStrategy<ConstructionCase> {
        (problem_spec_sized(2, tier.pick(12, 24)), prop::collection::vec(any::<u16>(), 2..10), 0u8..11, any::<u64>())
            .prop_map(|(mut spec, extra_unreachable, recreate, seed)| {
                spec.features = (spec.features | F_UNREACHABLE) & !(F_BREAKS | F_RELOADS);
                spec.unreachable.extend(extra_unreachable.iter().copied());
                ConstructionCase { spec, extra_unreachable, recreate, seed }
            })
            .boxed()
    }
    fn cases(&self, tier: Tier) -> u32 {
        tier.pick(3_000, 40_000)
    }
    fn shards(&self, _tier: Tier) -> u32 {
        16
    }
    fn max_shrink_iters(&self) -> u32 {
        300
    }
    fn check(&self, case: &ConstructionCase, stats: &Stats) -> Check {
        use super::common::{SeededRandom, quiet_env};
        use rosomaxa::evolution::TelemetryMode;
        use rosomaxa::utils::Parallelism;
        use std::io::{BufReader, BufWriter};
        use std::sync::Arc;
        use vrp_core::construction::heuristics::InsertionContext;
        use vrp_core::models::Solution as CoreSolution;
        use vrp_core::solver::{RefinementContext, create_elitism_population};
        use vrp_pragmatic::format::solution::{PragmaticOutputType, deserialize_solution, write_pragmatic};

        let rendered = render(&case.spec);
        if !rendered.matrices.iter().any(|m| m.error_codes.is_some()) {
            stats.class("construction.skipped.no_unreachable_pair");
            return Ok(());
        }
        let core = read_core(&rendered.problem, &rendered.matrices).map_err(|e| Failure::new("harness:generator-invalid", format!("generated problem was rejected: {e}")))?;
        let env = quiet_env(case.seed, Parallelism::new(1, 1), None);
        let random: Arc<dyn rosomaxa::prelude::Random> = Arc::new(SeededRandom::new(case.seed ^ 7));
        let refinement_ctx = RefinementContext::new(core.clone(), Box::new(create_elitism_population(core.goal.clone(), env.clone())), TelemetryMode::None, env.clone());
        let recreate = super::ops::make_recreate(case.recreate, random);
        let ctx = guard(|| recreate.run(&refinement_ctx, InsertionContext::new(core.clone(), env.clone()))).map_err(|p| Failure::new(format!("construction:panic:{}", panic_site(&p)), p))?;
        let solution: CoreSolution = ctx.into();
        let mut writer = BufWriter::new(Vec::new());
        write_pragmatic(core.as_ref(), &solution, PragmaticOutputType::default(), &mut writer).map_err(|e| Failure::new("construction:cannot-write", format!("{e}")))?;
        let bytes = writer.into_inner().map_err(|e| Failure::new("construction:cannot-write", format!("{e}")))?;
        let doc = deserialize_solution(BufReader::new(bytes.as_slice())).map_err(|e| Failure::new("construction:cannot-parse", format!("{e}")))?;
        let verdict = refmodel::evaluate(&rendered.problem, &rendered.matrices, &doc, tolerance(&rendered.problem));
        stats.eval();
        stats.class(&format!("construction.recreate.{}", case.recreate as usize % 11));
        // non-trivial: some tour visits a location that is an end point of a flagged pair (the constraint had something to refuse)
        let flagged: std::collections::BTreeSet<usize> = rendered.matrices.iter().flat_map(|m| { let n = (m.distances.len() as f64).sqrt().round() as usize; m.error_codes.iter().flatten().enumerate().filter(|(_, c)| **c > 0).flat_map(move |(k, _)| [k / n, k % n]).collect::<Vec<_>>() }).collect();
        let visits_flagged = doc.tours.iter().flat_map(|t| t.stops.iter()).filter_map(|s| s.as_point()).any(|p| matches!(&p.location, vrp_pragmatic::format::Location::Reference { index } if flagged.contains(index)));
        if visits_flagged && doc.tours.iter().any(|t| t.stops.len() >= 3) {
            stats.class("construction.tour_visits_end_point_of_flagged_pair");
            stats.nontrivial(hash_of(&format!("{case:?}")));
        }
        stats.sample(2, || json!({"kind": "construction_reachability", "recreate": case.recreate as usize % 11, "jobs": rendered.problem.plan.jobs.len(), "flagged_pairs": rendered.matrices.iter().map(|m| m.error_codes.iter().flatten().filter(|c| **c > 0).count()).sum::<usize>(), "tours": doc.tours.len()}));
        if let Some(f) = verdict.of(RProp::Feasibility).into_iter().find(|f| f.rule == "reachability") {
            return Err(Failure::new(
                "feasibility:reachability@construction-only",
                format!("a solution built by insertions only (recreate {}) drives an unreachable leg: {}\n--- problem+matrices:\n{}\n--- solution:\n{}", case.recreate as usize % 11, f.detail, json!({"problem": rendered.problem, "matrices": rendered.matrices}), String::from_utf8_lossy(&bytes).chars().filter(|c| !c.is_whitespace()).collect::<String>()),
            ));
        }
        Ok(())
    }
}
