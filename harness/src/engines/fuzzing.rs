//! Entry points for the coverage-guided targets in /verif/fuzz (cargo-fuzz, libFuzzer). The bytes are decoded into a
//! *structured* case - a base document (one of the repository's example problems) plus up to six value-level mutations
//! of its JSON tree that keep the schema shape (C10: "documents conforming to the schema shape (arbitrary values)") - and
//! the semantic oracle lives here, inside the target:
//!  * C10 totality: reading the mutated document returns `Ok` or `Err(codes)`; a panic is a finding unless its site is one
//!    of the open known findings of C10 (empty capacity, more than 8 dimensions, empty fleet, recharge station times);
//!  * C11 idempotence: if the mutated document deserialises, `ser(parse(ser(d))) == ser(d)` as JSON values.
//! Numbers come from a bounded palette (the library is built with overflow checks here, which release builds lack).

use crate::fw::guard;
use serde_json::Value;
use std::io::BufReader;
use std::sync::OnceLock;
use vrp_pragmatic::format::problem::{PragmaticProblem, deserialize_problem, serialize_problem};

fn bases() -> &'static Vec<Value> {
    static BASES: OnceLock<Vec<Value>> = OnceLock::new();
    BASES.get_or_init(|| {
        let mut files = vec![];
        let mut stack = vec![std::path::PathBuf::from("/repo/examples/data/pragmatic")];
        while let Some(dir) = stack.pop() {
            for e in std::fs::read_dir(&dir).into_iter().flatten().flatten() {
                let p = e.path();
                if p.is_dir() {
                    stack.push(p);
                } else if p.file_name().and_then(|n| n.to_str()).is_some_and(|n| n.ends_with(".problem.json")) && e.metadata().map(|m| m.len() < 40_000).unwrap_or(false) {
                    files.push(p);
                }
            }
        }
        files.sort();
        files.iter().filter_map(|p| std::fs::read_to_string(p).ok()).filter_map(|t| serde_json::from_str::<Value>(&t).ok()).filter(|v| !uses_index_locations(v)).collect()
    })
}

/// index locations need a routing matrix document; the targets read the single-document form (approximated routing)
fn uses_index_locations(v: &Value) -> bool {
    match v {
        Value::Object(o) => o.contains_key("index") && o.len() == 1 || o.values().any(uses_index_locations),
        Value::Array(a) => a.iter().any(uses_index_locations),
        _ => false,
    }
}

fn count(v: &Value) -> usize {
    1 + match v {
        Value::Object(o) => o.values().map(count).sum(),
        Value::Array(a) => a.iter().map(count).sum(),
        _ => 0,
    }
}

fn nth_mut<'a>(v: &'a mut Value, n: &mut usize) -> Option<&'a mut Value> {
    if *n == 0 {
        return Some(v);
    }
    *n -= 1;
    match v {
        Value::Object(o) => {
            for c in o.values_mut() {
                if let Some(x) = nth_mut(c, n) {
                    return Some(x);
                }
            }
            None
        }
        Value::Array(a) => {
            for c in a.iter_mut() {
                if let Some(x) = nth_mut(c, n) {
                    return Some(x);
                }
            }
            None
        }
        _ => None,
    }
}

const NUMBERS: [f64; 12] = [0., -1., 1., 2., 0.5, 3600., 1e-7, 5e8, -5e8, 86400., 7., 100.];
const STRINGS: [&str; 8] = ["", "x", "2019-07-04T09:00:00Z", "2019-07-04T08:00:00Z", "2019-07-04T10:00:00Z", "not-a-date", "break", "departure"];

struct Bytes<'a>(&'a [u8], usize);
impl Bytes<'_> {
    fn next(&mut self) -> usize {
        let b = self.0.get(self.1).copied().unwrap_or(0);
        self.1 += 1;
        b as usize
    }
    fn next2(&mut self) -> usize {
        self.next() * 256 + self.next()
    }
}

fn mutate(doc: &mut Value, b: &mut Bytes) -> Option<String> {
    let total = count(doc);
    let mut n = b.next2() % total;
    let choice = b.next();
    let node = nth_mut(doc, &mut n)?;
    Some(match node {
        Value::Number(_) => {
            let x = NUMBERS[choice % NUMBERS.len()];
            *node = if x.fract() == 0. && x.abs() < 1e15 { Value::from(x as i64) } else { Value::from(x) };
            format!("number:={x}")
        }
        Value::String(_) => {
            let x = STRINGS[choice % STRINGS.len()];
            *node = Value::String(x.to_string());
            format!("string:={x:?}")
        }
        Value::Bool(x) => {
            let y = !*x;
            *node = Value::Bool(y);
            "bool-flipped".to_string()
        }
        Value::Array(a) => match choice % 4 {
            0 => {
                a.clear();
                "array-emptied".to_string()
            }
            1 => {
                a.truncate(1);
                "array-truncated".to_string()
            }
            2 => {
                if let Some(last) = a.last().cloned() {
                    a.push(last);
                }
                "array-last-duplicated".to_string()
            }
            _ => {
                if a.len() > 1 {
                    a.swap(0, 1);
                    a.remove(1);
                }
                "array-second-kept".to_string()
            }
        },
        Value::Object(o) => {
            let keys: Vec<String> = o.keys().cloned().collect();
            if keys.is_empty() {
                return None;
            }
            let k = &keys[choice % keys.len()];
            o.remove(k);
            format!("key-removed:{k}")
        }
        Value::Null => return None,
    })
}

/// Site allowlist of the open known findings of C10 (known_findings.json, signatures validate:panic:misc.*)
fn known_panic(msg: &str) -> bool {
    (msg.contains("fleet_reader.rs") && msg.contains("unwrap()"))
        || (msg.contains("load.rs") && msg.contains("assert"))
        || (msg.contains("models/problem/fleet.rs") && msg.contains("assert"))
        || (msg.contains("vrp-pragmatic/src/lib.rs") && msg.contains("parse_time"))
}

pub struct FuzzOutcome {
    pub mutations: Vec<String>,
    pub deserialised: bool,
    pub accepted: bool,
    pub known_panic: bool,
}

/// Decodes `data` and runs both oracles. `Err(report)` is a finding (the target aborts on it).
pub fn pragmatic_values(data: &[u8]) -> Result<FuzzOutcome, String> {
    let bases = bases();
    if bases.is_empty() || data.len() < 4 {
        return Ok(FuzzOutcome { mutations: vec![], deserialised: false, accepted: false, known_panic: false });
    }
    let mut b = Bytes(data, 0);
    let mut doc = bases[b.next() % bases.len()].clone();
    let n = 1 + b.next() % 6;
    let mut mutations = vec![];
    for _ in 0..n {
        if b.1 + 3 > data.len() {
            break;
        }
        if let Some(m) = mutate(&mut doc, &mut b) {
            mutations.push(m);
        }
    }
    let text = doc.to_string();
    let mut out = FuzzOutcome { mutations, deserialised: false, accepted: false, known_panic: false };

    // C11: idempotence of serialise . parse on whatever the parser accepts
    let parsed = guard(|| deserialize_problem(BufReader::new(text.as_bytes()))).map_err(|p| format!("C11 deserialize_problem panicked: {p}\nmutations {:?}\n{text}", out.mutations))?;
    if let Ok(problem) = parsed {
        out.deserialised = true;
        let mut w1 = std::io::BufWriter::new(Vec::new());
        serialize_problem(&problem, &mut w1).map_err(|e| format!("C11 cannot serialise an accepted document: {e}\n{text}"))?;
        let s1 = String::from_utf8(w1.into_inner().map_err(|e| e.to_string())?).map_err(|e| e.to_string())?;
        let again = deserialize_problem(BufReader::new(s1.as_bytes())).map_err(|e| format!("C11 own output does not parse: {e}\nmutations {:?}\n{s1}", out.mutations))?;
        let mut w2 = std::io::BufWriter::new(Vec::new());
        serialize_problem(&again, &mut w2).map_err(|e| format!("C11 cannot serialise: {e}"))?;
        let s2 = String::from_utf8(w2.into_inner().map_err(|e| e.to_string())?).map_err(|e| e.to_string())?;
        let (v1, v2): (Value, Value) = (serde_json::from_str(&s1).map_err(|e| e.to_string())?, serde_json::from_str(&s2).map_err(|e| e.to_string())?);
        if v1 != v2 {
            return Err(format!("C11 ser(parse(ser(d))) != ser(d)\nmutations {:?}\nfirst:  {s1}\nsecond: {s2}", out.mutations));
        }
    }

    // C10: totality of reading (validation + construction of the core problem)
    match guard(|| text.clone().read_pragmatic()) {
        Ok(r) => out.accepted = r.is_ok(),
        Err(p) if known_panic(&p) => out.known_panic = true,
        Err(p) => return Err(format!("C10 read_pragmatic panicked: {p}\nmutations {:?}\n{text}", out.mutations)),
    }
    Ok(out)
}

/// Replays every file of a libFuzzer corpus through the decoder and oracles, counts what the campaign actually reached
/// and merges the numbers into `coverage.fuzz` of an evidence file (extra keys are allowed there).
pub fn corpus_stats(corpus_dir: &str, evidence_file: &str, execs: u64, findings: u64) {
    let mut files: Vec<std::path::PathBuf> = std::fs::read_dir(corpus_dir).into_iter().flatten().flatten().map(|e| e.path()).filter(|p| p.is_file()).collect();
    files.sort();
    let (mut decoded, mut deserialised, mut accepted, mut known, mut rejected_by_codes) = (0u64, 0u64, 0u64, 0u64, 0u64);
    let mut kinds: std::collections::BTreeMap<String, u64> = Default::default();
    let mut samples = vec![];
    for f in files.iter() {
        let Ok(data) = std::fs::read(f) else { continue };
        if let Ok(o) = pragmatic_values(&data) {
            if o.mutations.is_empty() {
                continue;
            }
            decoded += 1;
            for m in o.mutations.iter() {
                *kinds.entry(m.split(':').next().unwrap_or("?").to_string()).or_default() += 1;
            }
            deserialised += o.deserialised as u64;
            accepted += o.accepted as u64;
            known += o.known_panic as u64;
            rejected_by_codes += (o.deserialised && !o.accepted && !o.known_panic) as u64;
            if samples.len() < 4 && o.deserialised {
                samples.push(serde_json::json!({"corpus_file": f.file_name().and_then(|n| n.to_str()), "mutations": o.mutations, "accepted": o.accepted}));
            }
        }
    }
    let fuzz = serde_json::json!({
        "target": "pragmatic_values (libFuzzer, cargo-fuzz)", "executions": execs, "findings": findings, "corpus_files": files.len(),
        "corpus_cases_with_mutations": decoded, "schema_shaped (deserialised, C11 idempotence checked)": deserialised,
        "accepted_by_validation": accepted, "rejected_with_error_codes": rejected_by_codes, "known_panic_sites_hit": known,
        "mutation_kinds": kinds, "samples": samples,
        "rule": "bytes are decoded into (example problem of the repository, 1-6 value-level mutations of its JSON tree that keep the schema shape); non-trivial = the mutated document still deserialises, so validation and problem construction really run"
    });
    if let Ok(text) = std::fs::read_to_string(evidence_file) {
        if let Ok(mut doc) = serde_json::from_str::<Value>(&text) {
            if let Some(cov) = doc.get_mut("coverage").and_then(|c| c.as_object_mut()) {
                cov.insert("fuzz".to_string(), fuzz.clone());
                let _ = std::fs::write(evidence_file, serde_json::to_string_pretty(&doc).unwrap_or(text));
            }
        }
    }
    crate::outln!("fuzz stage: {}", fuzz);
}
