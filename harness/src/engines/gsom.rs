//! C19: the growing self-organising map behind the default population stays well formed
//! (stateful histories against a well-formedness predicate; phases of the population only move forward).

use super::common::*;
use crate::fw::*;
use proptest::prelude::*;
use rosomaxa::algorithms::gsom::{Coordinate, Input, Network, NetworkConfig, NetworkState, Storage, StorageFactory};
use rosomaxa::population::*;
use rosomaxa::prelude::*;
use rosomaxa::utils::{Parallelism, Timer};
use rosomaxa::{HeuristicSpeed, HeuristicStatistics};
use serde::{Deserialize, Serialize};
use serde_json::json;
use std::cmp::Ordering;
use std::collections::HashSet;
use std::fmt::{Display, Formatter};
use std::ops::RangeBounds;
use std::sync::Arc;

// ---------------------------------------------------------------------------------------------
// input streams (shared by both sub-checks)
// ---------------------------------------------------------------------------------------------

#[derive(Clone, Copy, Debug, Serialize, Deserialize)]
pub enum Stream {
    /// four tight clusters 100 apart, spread 0.01 inside
    Clustered,
    /// at most 3 values per dimension: many exact duplicates
    Duplicated,
    /// general values, ~10% of the items scaled by 1e6
    Outliers,
    /// every item is the same vector (k*1000 + d*k per dimension; k may be 0)
    Constant(i8),
    /// only dimension j varies, the others are 1.0
    OneVarying(u8),
    General,
    /// per item one of the above
    Mixed,
}

#[derive(Clone, Debug, Serialize, Deserialize)]
pub struct ItemSpec {
    /// cluster selector (c % 4), outlier flag (c >= 230), sub-stream selector for Mixed (c % 5)
    pub c: u8,
    pub v: Vec<i16>,
}

fn stream() -> impl Strategy<Value = Stream> {
    prop_oneof![
        3 => Just(Stream::Clustered),
        2 => Just(Stream::Duplicated),
        2 => Just(Stream::Outliers),
        1 => (-3i8..=3).prop_map(Stream::Constant),
        1 => any::<u8>().prop_map(Stream::OneVarying),
        3 => Just(Stream::General),
        2 => Just(Stream::Mixed),
    ]
}

fn item_spec(dim: usize) -> impl Strategy<Value = ItemSpec> {
    (any::<u8>(), prop::collection::vec(-300i16..=300, dim)).prop_map(|(c, v)| ItemSpec { c, v })
}

/// Finite weight vector of exactly `dim` components (by construction).
fn weights_of(stream: Stream, s: &ItemSpec, dim: usize) -> Vec<f64> {
    let v = |d: usize| s.v.get(d).copied().unwrap_or(0) as f64;
    (0..dim)
        .map(|d| match stream {
            Stream::Clustered => ((s.c as usize % 4 * 7 + d * 3) % 5) as f64 * 100. + v(d) * 0.01,
            Stream::Duplicated => (v(d) as i64).rem_euclid(3) as f64,
            Stream::Outliers => v(d) * 0.37 * if s.c >= 230 { 1e6 } else { 1. },
            Stream::Constant(k) => k as f64 * 1000. + d as f64 * k as f64,
            Stream::OneVarying(j) => {
                if d == j as usize % dim {
                    v(d) * 0.37
                } else {
                    1.
                }
            }
            Stream::General => v(d) * 0.37,
            Stream::Mixed => {
                let sub = [Stream::Clustered, Stream::Duplicated, Stream::Outliers, Stream::General, Stream::Constant(1)][s.c as usize % 5];
                weights_of(sub, s, dim)[d]
            }
        })
        .collect()
}

fn stream_class(s: Stream) -> &'static str {
    match s {
        Stream::Clustered => "clustered",
        Stream::Duplicated => "duplicated",
        Stream::Outliers => "outliers",
        Stream::Constant(_) => "constant",
        Stream::OneVarying(_) => "one_varying_dimension",
        Stream::General => "general",
        Stream::Mixed => "mixed",
    }
}

// ---------------------------------------------------------------------------------------------
// sub-check 1: Network through its public API with a harness Input / bounded Storage
// ---------------------------------------------------------------------------------------------

pub struct Item {
    id: u32,
    w: Vec<f64>,
    touched: u32,
}

impl Input for Item {
    fn weights(&self) -> &[Float] {
        &self.w
    }
}

/// Bounded storage: keeps at most `cap` items (evicts the oldest or refuses the newest).
pub struct BoundedStorage {
    cap: usize,
    evict_newest: bool,
    data: Vec<Item>,
}

impl Storage for BoundedStorage {
    type Item = Item;
    fn add(&mut self, input: Item) {
        self.data.push(input);
        if self.data.len() > self.cap {
            if self.evict_newest {
                self.data.pop();
            } else {
                self.data.remove(0);
            }
        }
    }
    fn iter(&self) -> Box<dyn Iterator<Item = &'_ Item> + '_> {
        Box::new(self.data.iter())
    }
    fn drain<R>(&mut self, range: R) -> Vec<Item>
    where
        R: RangeBounds<usize>,
    {
        self.data.drain(range).collect()
    }
    fn resize(&mut self, size: usize) {
        self.cap = size;
        self.data.truncate(size);
    }
    fn size(&self) -> usize {
        self.data.len()
    }
}

impl Display for BoundedStorage {
    fn fmt(&self, f: &mut Formatter<'_>) -> std::fmt::Result {
        write!(f, "{}/{}", self.data.len(), self.cap)
    }
}

pub struct Factory {
    cap: usize,
    evict_newest: bool,
}

impl StorageFactory<(), Item, BoundedStorage> for Factory {
    fn eval(&self, _: &()) -> BoundedStorage {
        BoundedStorage { cap: self.cap, evict_newest: self.evict_newest, data: vec![] }
    }
}

type Net = Network<(), Item, BoundedStorage, Factory>;

#[derive(Clone, Debug, Serialize, Deserialize)]
pub struct NetCfg {
    pub node_size: u8,
    /// spread factor, distribution factor, learning rate in 1/1000 (1..=999: exclusive (0,1))
    pub spread: u16,
    pub distribution: u16,
    pub learning_rate: u16,
    pub rebalance: u8,
    pub has_initial_error: bool,
    pub evict_newest: bool,
}

#[derive(Clone, Debug, Serialize, Deserialize)]
pub enum NetOp {
    /// store_batch(items, time += step)
    Store(Vec<ItemSpec>, u8),
    Smooth(u8),
    Compact,
    /// set_learning_rate(x/1000), x in 1..=1000 (the shipped caller uses [0.1, 1.0])
    SetLearningRate(u16),
}

#[derive(Clone, Debug, Serialize, Deserialize)]
pub struct NetCase {
    pub dim: u8,
    pub stream: Stream,
    pub cfg: NetCfg,
    pub seed: u64,
    pub probe: (i8, i8),
    pub initial: Vec<ItemSpec>,
    pub ops: Vec<NetOp>,
}

/// `long == false`: mixed op histories; `long == true`: long store-dominated streams (hundreds of
/// store_batch calls between rare smooth/compact calls), same check.
pub struct NetProp {
    pub long: bool,
}

fn factor() -> impl Strategy<Value = u16> {
    // uniform over (0,1) plus both ends of the open interval
    prop_oneof![6 => 1u16..=999, 2 => 900u16..=999, 1 => 1u16..=20]
}

fn net_cfg() -> impl Strategy<Value = NetCfg> {
    (1u8..=4, factor(), factor(), 1u16..=999, prop_oneof![3 => 1u8..=200, 1 => 1u8..=4], any::<bool>(), any::<bool>()).prop_map(
        |(node_size, spread, distribution, learning_rate, rebalance, has_initial_error, evict_newest)| NetCfg { node_size, spread, distribution, learning_rate, rebalance, has_initial_error, evict_newest },
    )
}

fn net_op(dim: usize) -> impl Strategy<Value = NetOp> {
    prop_oneof![
        7 => (prop::collection::vec(item_spec(dim), 0..=12), prop_oneof![4 => 0u8..=3, 1 => 0u8..=250]).prop_map(|(items, step)| NetOp::Store(items, step)),
        2 => (0u8..=2).prop_map(NetOp::Smooth),
        2 => Just(NetOp::Compact),
        1 => (1u16..=1000).prop_map(NetOp::SetLearningRate),
    ]
}

struct Wf {
    size: usize,
    ids: HashSet<u32>,
    /// number of distinct weight vectors among the stored items (`smooth` dedups equal inputs by design)
    distinct: usize,
    keys: Vec<Coordinate>,
    max_error: f64,
}

/// Well-formedness predicate of the property, evaluated through the public API only.
fn well_formed(net: &Net, dim: usize, cap: usize, max_id: u32, probe: Coordinate, at: &str) -> Result<Wf, Failure> {
    let entries = net.iter().collect::<Vec<_>>();
    let size = net.size();
    ensure!(entries.len() == size && net.get_nodes().count() == size, "gsom:size-vs-iter", "{at}: size() {size} but iter() yields {} and get_nodes() {}", entries.len(), net.get_nodes().count());
    ensure!(size >= 4, "gsom:fewer-than-four-nodes", "{at}: network has {size} nodes");
    ensure!(net.dimension() == dim, "gsom:dimension", "{at}: dimension() {} != input dimension {dim}", net.dimension());
    let keys = entries.iter().map(|(k, _)| **k).collect::<HashSet<_>>();
    ensure!(keys.len() == size, "gsom:duplicate-key", "{at}: {} distinct keys for {size} nodes", keys.len());
    let node_coords = entries.iter().map(|(_, n)| n.coordinate).collect::<HashSet<_>>();
    ensure!(node_coords.len() == size, "gsom:duplicate-node-coordinate", "{at}: {} distinct node coordinates for {size} nodes", node_coords.len());
    ensure!(net.get_coordinates().collect::<HashSet<_>>() == keys, "gsom:coordinates-vs-iter", "{at}: get_coordinates() differs from the keys of iter()");

    let (mut ids, mut stored, mut distinct, mut max_error) = (HashSet::new(), 0usize, HashSet::new(), 0f64);
    for (key, node) in entries.iter() {
        ensure!(**key == node.coordinate, "gsom:key-vs-coordinate", "{at}: key {key} holds a node with coordinate {}", node.coordinate);
        match net.find(key) {
            Some(found) => ensure!(std::ptr::eq(found, *node), "gsom:find-other-node", "{at}: find({key}) returned node {}", found.coordinate),
            None => return Err(Failure::new("gsom:find-misses-present", format!("{at}: find({key}) is None for a key of iter()"))),
        }
        ensure!(node.weights.len() == dim, "gsom:weight-dimension", "{at}: node {key} has {} weights, input dimension {dim}", node.weights.len());
        ensure!(node.weights.iter().all(|w| w.is_finite()), "gsom:weight-not-finite", "{at}: node {key} weights {:?}", node.weights);
        ensure!(node.storage.size() <= cap, "gsom:storage-over-capacity", "{at}: node {key} stores {} items, capacity {cap}", node.storage.size());
        ensure!(node.error.is_finite(), "gsom:node-error-not-finite", "{at}: node {key} error {}", node.error);
        max_error = max_error.max(node.error);
        let (mse, ud) = (node.mse(net), node.unified_distance(net, 1));
        ensure!(mse.is_finite(), "gsom:node-mse-not-finite", "{at}: node {key} mse {mse}");
        ensure!(ud.is_finite(), "gsom:unified-distance-not-finite", "{at}: node {key} unified distance {ud}");
        for item in node.storage.iter() {
            stored += 1;
            ensure!(item.id >= 1 && item.id <= max_id, "gsom:foreign-item", "{at}: node {key} stores item {} never offered", item.id);
            ensure!(ids.insert(item.id), "gsom:item-stored-twice", "{at}: item {} is stored twice", item.id);
            distinct.insert(item.w.iter().map(|w| w.to_bits()).collect::<Vec<_>>());
        }
    }
    ensure!(stored <= max_id as usize, "gsom:more-stored-than-offered", "{at}: {stored} items stored, {max_id} offered");
    let (mse, mud) = (net.mse(), net.max_unified_distance());
    ensure!(mse.is_finite(), "gsom:mse-not-finite", "{at}: mse() = {mse}");
    ensure!(mud.is_finite(), "gsom:max-unified-distance-not-finite", "{at}: max_unified_distance() = {mud}");

    // lookups of absent coordinates: just outside the bounding box, holes next to nodes, a generated probe
    let (x_min, x_max) = (keys.iter().map(|k| k.0).min().unwrap(), keys.iter().map(|k| k.0).max().unwrap());
    let (y_min, y_max) = (keys.iter().map(|k| k.1).min().unwrap(), keys.iter().map(|k| k.1).max().unwrap());
    let outside = [Coordinate(x_min - 1, y_min), Coordinate(x_max + 1, y_max), Coordinate(x_min, y_min - 1), Coordinate(x_max, y_max + 1)];
    let holes = keys.iter().flat_map(|k| [Coordinate(k.0 + 1, k.1), Coordinate(k.0 - 1, k.1), Coordinate(k.0, k.1 + 1), Coordinate(k.0, k.1 - 1)]).filter(|c| !keys.contains(c)).take(24);
    for c in outside.into_iter().chain(holes).chain(std::iter::once(probe)) {
        let found = net.find(&c).map(|n| n.coordinate);
        ensure!(found.is_some() == keys.contains(&c) && found.is_none_or(|f| f == c), "gsom:find-absent", "{at}: find({c}) = {found:?}, coordinate present: {}", keys.contains(&c));
    }
    Ok(Wf { size, ids, distinct: distinct.len(), keys: keys.into_iter().collect(), max_error })
}

/// Number of nodes the documented decimation (rows/columns at multiples of 3 resp. 4, both 4 for a
/// square map) removes; `None` when fewer than four nodes would remain (documented no-op).
fn documented_decimation(keys: &[Coordinate]) -> Option<usize> {
    let (dx, dy) = (keys.iter().map(|k| k.0).max()? - keys.iter().map(|k| k.0).min()?, keys.iter().map(|k| k.1).max()? - keys.iter().map(|k| k.1).min()?);
    let (xd, yd) = match dx.cmp(&dy) {
        Ordering::Greater => (3, 4),
        Ordering::Less => (4, 3),
        Ordering::Equal => (4, 4),
    };
    let removed = keys.iter().filter(|k| k.0 % xd == 0 || k.1 % yd == 0).count();
    if keys.len() - removed < 4 { None } else { Some(removed) }
}

impl Prop for NetProp {
    type Case = NetCase;
    fn name(&self) -> &'static str {
        if self.long { "gsom_long_stream" } else { "gsom_network" }
    }
    fn strategy(&self, tier: Tier) -> BoxedStrategy<NetCase> {
        let long = self.long;
        let ops_range = if long { 200usize..=tier.pick(700, 1200) } else { 1usize..=tier.pick(60, 200) };
        // long streams: half of the configurations have a low growing threshold / high error distribution
        let cfg = (net_cfg(), 985u16..=999, 900u16..=999, any::<bool>()).prop_map(move |(cfg, spread, distribution, bias)| if long && bias { NetCfg { spread, distribution, ..cfg } } else { cfg });
        (1usize..=8, stream(), cfg, any::<u64>(), (-6i8..=6, -6i8..=6))
            .prop_flat_map(move |(dim, stream, cfg, seed, probe)| {
                let op = if long {
                    prop_oneof![
                        80 => (prop::collection::vec(item_spec(dim), 1..=12), 0u8..=2).prop_map(|(items, step)| NetOp::Store(items, step)),
                        1 => net_op(dim),
                    ]
                    .boxed()
                } else {
                    net_op(dim).boxed()
                };
                (prop::collection::vec(item_spec(dim), 4..=40), prop::collection::vec(op, ops_range.clone()))
                    .prop_map(move |(initial, ops)| NetCase { dim: dim as u8, stream, cfg: cfg.clone(), seed, probe, initial, ops })
            })
            .boxed()
    }
    fn cases(&self, tier: Tier) -> u32 {
        if self.long { tier.pick(320, 6_000) } else { tier.pick(12_000, 250_000) }
    }
    fn shards(&self, _tier: Tier) -> u32 {
        16
    }
    fn max_shrink_iters(&self) -> u32 {
        // Network::new iterates a std HashMap (RandomState) while creating the initial nodes, so a case is
        // not reproducible run to run even with a seeded Random: shrinking long flaky cases only loses them
        if self.long { 0 } else { 2000 }
    }
    fn check(&self, c: &NetCase, stats: &Stats) -> Check {
        let name = Prop::name(self);
        let dim = c.dim as usize;
        let cap = c.cfg.node_size as usize;
        let evict_newest = c.cfg.evict_newest;
        let probe = Coordinate(c.probe.0 as i32, c.probe.1 as i32);
        let mut next_id = 0u32;
        let mut make = |specs: &[ItemSpec]| -> Vec<Item> {
            specs
                .iter()
                .map(|s| {
                    next_id += 1;
                    Item { id: next_id, w: weights_of(c.stream, s, dim), touched: 0 }
                })
                .collect()
        };
        let config = NetworkConfig {
            node_size: cap,
            spread_factor: c.cfg.spread as f64 / 1000.,
            distribution_factor: c.cfg.distribution as f64 / 1000.,
            learning_rate: c.cfg.learning_rate as f64 / 1000.,
            rebalance_memory: c.cfg.rebalance as usize,
            has_initial_error: c.cfg.has_initial_error,
        };
        let initial = make(&c.initial);
        let initial_distinct = initial.iter().map(|i| i.w.iter().map(|w| w.to_bits()).collect::<Vec<_>>()).collect::<HashSet<_>>().len();
        let random: Arc<dyn Random> = Arc::new(SeededRandom::new(c.seed));
        let created = guard(|| Net::new(&(), initial, config, random, |size| Factory { cap: size, evict_newest }))
            .map_err(|p| Failure::new(format!("gsom:panic:{}", panic_site(&p)), format!("Network::new panicked on {} items of dimension {dim}: {p}", c.initial.len())))?;
        let mut net = created.map_err(|e| Failure::new("gsom:new-rejected", format!("Network::new rejected {} items of dimension {dim} (>= 4 given): {e}", c.initial.len())))?;

        let mut max_id = c.initial.len() as u32;
        let mut wf = well_formed(&net, dim, cap, max_id, probe, "after Network::new")?;
        ensure!(wf.ids.len() >= initial_distinct.min(cap), "gsom:items-lost", "after Network::new: {} items kept of {initial_distinct} distinct inputs, node capacity {cap}", wf.ids.len());
        let (grew_in_new, mut grew, mut compacted, mut grew_then_compacted, mut evicted) = (wf.size > 4, false, false, false, false);
        let (mut time, mut max_error) = (0usize, wf.max_error);

        for (step, op) in c.ops.iter().enumerate() {
            let at = format!("step {step} {}", match op {
                NetOp::Store(items, _) => format!("store_batch({} items)", items.len()),
                other => format!("{other:?}"),
            });
            let before = wf;
            let decimation = documented_decimation(&before.keys);
            let mut offered_now = 0usize;
            let call = guard(|| match op {
                NetOp::Store(items, step_by) => {
                    time += *step_by as usize;
                    let data = make(items);
                    offered_now = data.len();
                    net.store_batch(&(), data, time);
                }
                NetOp::Smooth(n) => net.smooth(&(), *n as usize, |i| i.touched += 1),
                NetOp::Compact => net.compact(&()),
                NetOp::SetLearningRate(x) => net.set_learning_rate(*x as f64 / 1000.),
            });
            call.map_err(|p| Failure::new(format!("gsom:panic:{}", panic_site(&p)), format!("{at} panicked: {p}")))?;
            max_id += offered_now as u32;
            wf = well_formed(&net, dim, cap, max_id, probe, &format!("after {at}"))?;
            max_error = max_error.max(wf.max_error);
            ensure!(net.get_current_time() == time, "gsom:time", "after {at}: current time {} != last store time {time}", net.get_current_time());

            // items: nothing foreign appears, nothing is lost beyond capacity eviction / documented dedup
            let (b, a) = (before.ids.len(), wf.ids.len());
            let lower = match op {
                NetOp::Store(..) => (b + offered_now).min(cap),
                NetOp::Smooth(0) | NetOp::SetLearningRate(_) => b,
                NetOp::Smooth(_) => before.distinct.min(cap),
                NetOp::Compact => b.min(cap),
            };
            ensure!(a >= lower, "gsom:items-lost", "after {at}: {a} items stored, {b} before ({} distinct), node capacity {cap}: at least {lower} must remain", before.distinct);
            if !matches!(op, NetOp::Store(..)) {
                ensure!(wf.ids.is_subset(&before.ids), "gsom:items-appeared", "after {at}: items stored that were not stored before and not offered");
            }
            if a < b + offered_now {
                evicted = true;
            }
            match op {
                NetOp::Store(..) => {
                    ensure!(wf.size >= before.size, "gsom:store-shrank", "after {at}: size {} -> {}", before.size, wf.size);
                    if wf.size > before.size {
                        grew = true;
                        stats.class(&format!("{name}.op.store_grew"));
                    }
                }
                NetOp::Smooth(_) | NetOp::SetLearningRate(_) => {
                    ensure!(wf.size == before.size, "gsom:size-changed", "after {at}: size {} -> {}", before.size, wf.size);
                }
                NetOp::Compact => {
                    ensure!(wf.size <= before.size, "gsom:compact-grew", "after {at}: size {} -> {}", before.size, wf.size);
                    ensure!(wf.size >= 4, "gsom:compact-below-four", "after {at}: size {} -> {}", before.size, wf.size);
                    if wf.size < before.size {
                        compacted = true;
                        grew_then_compacted |= grew || grew_in_new;
                        stats.class(&format!("{name}.op.compact_removed_nodes"));
                    } else {
                        stats.class(&format!("{name}.op.compact_noop"));
                    }
                    // exact node count is not part of the statement: classified, not asserted
                    if before.size - wf.size != decimation.unwrap_or(0) {
                        stats.class(&format!("{name}.unspecified.compact_differs_from_documented_decimation"));
                    }
                }
            }
        }

        stats.eval();
        stats.class(&format!("{name}.stream.{}", stream_class(c.stream)));
        stats.class_max(&format!("{name}.max_nodes_seen"), wf.size as u64);
        stats.class_max(&format!("{name}.max_node_error_log10_seen"), max_error.max(1.).log10() as u64);
        stats.class_max(&format!("{name}.max_items_offered_seen"), max_id as u64);
        for (flag, flag_name) in [(grew_in_new, "grew_in_constructor"), (grew, "grew"), (compacted, "compact_removed_nodes"), (grew_then_compacted, "grew_then_compacted"), (evicted, "capacity_eviction_or_dedup")] {
            if flag {
                stats.class(&format!("{name}.{flag_name}"));
            }
        }
        if grew_then_compacted {
            stats.nontrivial(hash_of(&format!("{c:?}")));
        }
        stats.sample(if self.long { 3 } else { 2 }, || json!({"kind": name, "dim": dim, "stream": stream_class(c.stream), "cfg": format!("{:?}", c.cfg), "initial": c.initial.len(), "ops": c.ops.len(), "final_nodes": wf.size}));
        Ok(())
    }
}

// ---------------------------------------------------------------------------------------------
// sub-check 2: Rosomaxa population driven by long streams and generation statistics
// ---------------------------------------------------------------------------------------------

#[derive(Clone, Debug)]
pub struct Ind {
    pub fitness: Vec<f64>,
    pub weights: Vec<f64>,
}

impl HeuristicSolution for Ind {
    fn fitness(&self) -> impl Iterator<Item = Float> {
        self.fitness.iter().copied()
    }
    fn deep_copy(&self) -> Self {
        self.clone()
    }
}

impl Input for Ind {
    fn weights(&self) -> &[Float] {
        &self.weights
    }
}

pub struct Ctx;

impl RosomaxaContext for Ctx {
    type Solution = Ind;
    fn on_change(&mut self, _: &[Ind]) {}
}

impl RosomaxaSolution for Ind {
    type Context = Ctx;
    fn on_init(&mut self, _: &Ctx) {}
    fn on_update(&mut self, _: &Ctx) {}
}

#[derive(Clone)]
pub struct LexObjective;

impl HeuristicObjective for LexObjective {
    type Solution = Ind;
    fn total_order(&self, a: &Ind, b: &Ind) -> Ordering {
        a.fitness.iter().zip(b.fitness.iter()).map(|(x, y)| x.total_cmp(y)).find(|o| *o != Ordering::Equal).unwrap_or(Ordering::Equal)
    }
}

impl Alternative for LexObjective {
    fn maybe_new(&self, _: &dyn Random) -> Self {
        self.clone()
    }
}

#[derive(Clone, Debug, Serialize, Deserialize)]
pub struct RosoCfg {
    pub initial: u8,
    pub selection: u8,
    pub elite: u8,
    pub node: u8,
    pub spread: u16,
    pub distribution: u16,
    pub rebalance: u8,
    /// exploration ratio in 1/10
    pub exploration: u8,
}

#[derive(Clone, Debug, Serialize, Deserialize)]
pub struct Tick {
    /// (fitness components, weights spec)
    pub batch: Vec<(Vec<i8>, ItemSpec)>,
    pub gen_step: u8,
    /// jitter of the termination estimate in 1/100 around the ramp
    pub jitter: i8,
    pub speed: u8,
    pub select: bool,
}

#[derive(Clone, Debug, Serialize, Deserialize)]
pub struct RosoCase {
    pub cfg: RosoCfg,
    pub wdims: u8,
    pub stream: Stream,
    pub seed: u64,
    /// termination estimate reached at the last tick, in percent (50..=150, clamped to [0,1])
    pub ramp: u8,
    pub ticks: Vec<Tick>,
}

pub struct RosoProp;

fn tick(wdims: usize) -> impl Strategy<Value = Tick> {
    let ind = (prop::collection::vec(-6i8..12, 2), item_spec(wdims));
    (prop::collection::vec(ind, 0..=6), prop_oneof![3 => 1u8..=1, 2 => 0u8..=3], prop_oneof![3 => Just(0i8), 1 => -3i8..=3], 0u8..3, prop::bool::weighted(0.3))
        .prop_map(|(batch, gen_step, jitter, speed, select)| Tick { batch, gen_step, jitter, speed, select })
}

fn check_state(state: &NetworkState, wdims: usize, at: &str) -> Check {
    ensure!(state.nodes.len() >= 4, "roso:state-fewer-than-four-nodes", "{at}: exported state has {} nodes", state.nodes.len());
    let coords = state.nodes.iter().map(|n| n.coordinate).collect::<HashSet<_>>();
    ensure!(coords.len() == state.nodes.len(), "roso:state-duplicate-coordinate", "{at}: {} distinct coordinates for {} nodes", coords.len(), state.nodes.len());
    ensure!(state.shape.2 == wdims, "roso:state-dimension", "{at}: shape dimension {} != weights dimension {wdims}", state.shape.2);
    ensure!(state.mse.is_finite(), "roso:state-mse-not-finite", "{at}: network mse {}", state.mse);
    for n in state.nodes.iter() {
        ensure!(n.weights.len() == wdims, "roso:state-weight-dimension", "{at}: node {:?} has {} weights, expected {wdims}", n.coordinate, n.weights.len());
        ensure!(n.weights.iter().all(|w| w.is_finite()), "roso:state-weight-not-finite", "{at}: node {:?} weights {:?}", n.coordinate, n.weights);
        ensure!(n.mse.is_finite() && n.unified_distance.is_finite(), "roso:state-measure-not-finite", "{at}: node {:?} mse {} unified distance {}", n.coordinate, n.mse, n.unified_distance);
    }
    Ok(())
}

impl Prop for RosoProp {
    type Case = RosoCase;
    fn name(&self) -> &'static str {
        "gsom_rosomaxa"
    }
    fn strategy(&self, tier: Tier) -> BoxedStrategy<RosoCase> {
        let max_ticks = tier.pick(120usize, 300usize);
        let cfg = (4u8..=12, 2u8..=8, 1u8..=4, 1u8..=3, factor(), factor(), prop_oneof![3 => 1u8..=12, 1 => 1u8..=200], prop_oneof![4 => 5u8..=10, 1 => 0u8..=10])
            .prop_map(|(initial, selection, elite, node, spread, distribution, rebalance, exploration)| RosoCfg { initial, selection, elite, node, spread, distribution, rebalance, exploration });
        (cfg, 1usize..=8, stream(), any::<u64>(), 50u8..=150)
            .prop_flat_map(move |(cfg, wdims, stream, seed, ramp)| {
                prop::collection::vec(tick(wdims), 10..=max_ticks).prop_map(move |ticks| RosoCase { cfg: cfg.clone(), wdims: wdims as u8, stream, seed, ramp, ticks })
            })
            .boxed()
    }
    fn cases(&self, tier: Tier) -> u32 {
        tier.pick(5_000, 80_000)
    }
    fn shards(&self, _tier: Tier) -> u32 {
        16
    }
    fn check(&self, c: &RosoCase, stats: &Stats) -> Check {
        let wdims = c.wdims as usize;
        let env = quiet_env(c.seed, Parallelism::new(1, 1), None);
        let config = RosomaxaConfig {
            initial_size: c.cfg.initial as usize,
            selection_size: c.cfg.selection as usize,
            elite_size: c.cfg.elite as usize,
            node_size: c.cfg.node as usize,
            spread_factor: c.cfg.spread as f64 / 1000.,
            distribution_factor: c.cfg.distribution as f64 / 1000.,
            rebalance_memory: c.cfg.rebalance as usize,
            exploration_ratio: c.cfg.exploration as f64 / 10.,
        };
        let mut pop = Rosomaxa::new(Ctx, Arc::new(LexObjective), env, config).map_err(|e| Failure::new("roso:new-rejected", format!("valid config rejected: {e}")))?;
        let rank = |p: &SelectionPhase| match p {
            SelectionPhase::Initial => 0,
            SelectionPhase::Exploration => 1,
            SelectionPhase::Exploitation => 2,
        };
        let (mut generation, mut phase) = (0usize, rank(&pop.selection_phase()));
        ensure!(phase == 0, "roso:phase-not-initial", "a new population starts in phase rank {phase}");
        let mut phases = vec![phase];
        let (mut states, mut rebalance_hits, mut grew, mut shrank, mut last_nodes) = (0u64, 0u64, false, false, None::<usize>);
        let total = c.ticks.len();

        for (step, t) in c.ticks.iter().enumerate() {
            let batch = t
                .batch
                .iter()
                .map(|(f, s)| Ind { fitness: f.iter().map(|x| *x as f64).collect(), weights: weights_of(c.stream, s, wdims) })
                .collect::<Vec<_>>();
            generation += t.gen_step as usize;
            let estimate = ((step + 1) as f64 / total as f64 * c.ramp as f64 / 100. + t.jitter as f64 / 100.).clamp(0., 1.);
            let statistics = HeuristicStatistics {
                generation,
                time: Timer::start(),
                speed: match t.speed {
                    0 => HeuristicSpeed::Unknown,
                    1 => HeuristicSpeed::Moderate { average: 100., median: Some(10) },
                    _ => HeuristicSpeed::Slow { ratio: 0.5, average: 1., median: Some(1000) },
                },
                improvement_all_ratio: 0.1,
                improvement_1000_ratio: 0.05 + (generation % 7) as f64 * 0.05,
                termination_estimate: estimate,
            };
            let was_exploring = phase == 1;
            guard(|| {
                pop.add_all(batch);
                pop.on_generation(&statistics);
                if t.select {
                    let _ = pop.select().count();
                }
            })
            .map_err(|p| Failure::new(format!("roso:panic:{}", panic_site(&p)), format!("tick {step} (generation {generation}, estimate {estimate}) panicked: {p}")))?;

            let at = format!("tick {step} (generation {generation}, estimate {estimate:.3})");
            let now = rank(&pop.selection_phase());
            ensure!(now >= phase, "roso:phase-backwards", "{at}: phase rank went {phase} -> {now}");
            if now != phase {
                phases.push(now);
            }
            phase = now;
            ensure!(pop.size() <= c.cfg.elite as usize, "roso:elite-over-bound", "{at}: size() {} exceeds elite size {}", pop.size(), c.cfg.elite);
            ensure!(pop.ranked().count() == pop.size(), "roso:size-vs-ranked", "{at}: size() {} != ranked count {}", pop.size(), pop.ranked().count());

            let state = NetworkState::try_from(&pop);
            if phase == 1 {
                let state = state.map_err(|e| Failure::new("roso:state-unavailable", format!("{at}: exploration phase but no network state: {e}")))?;
                check_state(&state, wdims, &at)?;
                let in_nodes = pop.all().count() - pop.size();
                ensure!(in_nodes <= state.nodes.len() * c.cfg.node as usize, "roso:nodes-over-capacity", "{at}: {in_nodes} individuals in {} nodes of capacity {}", state.nodes.len(), c.cfg.node);
                states += 1;
                if was_exploring && generation % c.cfg.rebalance as usize == 0 {
                    rebalance_hits += 1;
                }
                if let Some(last) = last_nodes {
                    grew |= state.nodes.len() > last;
                    shrank |= state.nodes.len() < last;
                }
                last_nodes = Some(state.nodes.len());
                stats.class_max("gsom_rosomaxa.max_nodes_seen", state.nodes.len() as u64);
            } else if state.is_ok() {
                stats.class("gsom_rosomaxa.unspecified.state_outside_exploration");
            }
        }

        stats.eval();
        stats.class_n("gsom_rosomaxa.states_checked", states);
        stats.class_n("gsom_rosomaxa.exploring_tick_at_rebalance_multiple", rebalance_hits);
        stats.class(&format!("gsom_rosomaxa.stream.{}", stream_class(c.stream)));
        for (flag, name) in [(phases.contains(&1), "exploration_reached"), (phases == [0, 1, 2], "all_three_phases"), (phases == [0, 2], "exploration_skipped"), (grew, "network_grew"), (shrank, "network_compacted"), (grew && shrank, "network_grew_and_compacted")] {
            if flag {
                stats.class(&format!("gsom_rosomaxa.{name}"));
            }
        }
        if states > 0 && (grew || shrank) {
            stats.nontrivial(hash_of(&format!("{c:?}")));
        }
        stats.sample(4, || json!({"kind": "gsom_rosomaxa", "cfg": format!("{:?}", c.cfg), "wdims": wdims, "stream": stream_class(c.stream), "ticks": total, "phases": phases, "states_checked": states}));
        Ok(())
    }
}

pub fn property(_tier: Tier) -> PropertyDef {
    PropertyDef {
        id: "C19",
        level: "exploration",
        rule: "proptest stateful histories. (gsom_network) rosomaxa::algorithms::gsom::Network over a harness Input {id, weights} and a bounded harness Storage (keeps at most `size` items, evicting the oldest or refusing the newest): input streams of dimension 1-8 that are clustered / heavily duplicated / with 1e6x outliers / constant (incl. all-zero) / varying in one dimension / general / mixed, all finite by construction; NetworkConfig with spread and distribution factor in (0,1) exclusive (uniform plus both ends), node size 1-4, rebalance memory 1-200, learning rate in (0,1), has_initial_error both; Network::new on 4-40 items, then 1-60 ops (thorough 1-200) of store_batch(0-12 items, non-decreasing time) / smooth(0-2) / compact / set_learning_rate((0,1]). (gsom_long_stream) same domain and same check, but 200-700 ops (thorough 1200) of which ~99% are store_batch(1-12 items), half of the configurations with spread in [0.985,0.999] and distribution in [0.9,0.999] (low growing threshold, strong error distribution); not shrunk. After the constructor and after EVERY call WF(network) through the public API: size()==iter/get_nodes count and >= 4, keys unique, node coordinates unique, key == node.coordinate, get_coordinates == keys, find(key) is that very node (pointer), find of absent coordinates (outside the bounding box, holes next to nodes, a generated probe) is None, weights finite and of the input dimension, storage.size() <= node_size, node error / node mse / unified distance / mse() / max_unified_distance() finite, every stored item was offered and is stored once, stored <= offered; per op: compact never grows and never leaves < 4 nodes, smooth and set_learning_rate keep size(), store_batch never shrinks, no foreign items appear, at least min(count, capacity) items survive (for smooth: min(distinct weight vectors, capacity), because retraining dedups equal inputs by design). The exact number of nodes removed by compact is compared with the documented row/column decimation but only classified. (gsom_rosomaxa) rosomaxa::population::Rosomaxa with harness individuals under a lexicographic objective, generated config (initial 4-12, selection 2-8, elite 1-4, node 1-3, spread/distribution in (0,1), rebalance memory 1-200 biased to 1-12, exploration ratio 0-1), 10-120 ticks (thorough 300) of add_all(0-6) + on_generation(statistics: generation += 0-3 so multiples of rebalance memory are hit, termination estimate ramping 0 -> 0.5..1.5 (clamped to [0,1]) with occasional +-0.03 jitter, three speed classes) + optional select; after every tick: phase rank never decreases (Initial -> Exploration -> Exploitation), size() <= elite_size and == ranked count, and while exploring NetworkState::try_from(&population) is Ok with >= 4 nodes, unique coordinates, finite weights of the weights dimension, finite node mse / unified distance / network mse, and the individuals held by nodes (all() minus elite) <= nodes x node_size. Library panics are failures. Non-trivial: network history in which the map grew and a later compact removed >= 1 node; population history with an exported state whose node count changed between ticks. Distinct by case hash.",
        assumptions: vec![
            "Network::new gets >= 4 items of one dimension and factors strictly inside (0,1) (the constructor's asserts / sampling minimum); rosomaxa initial_size >= 4 and rebalance_memory >= 1 for the same reason",
            "store_batch time is non-decreasing (the shipped caller passes the generation counter); termination estimate in [0,1] (asserted by the library)",
            "learning rates in (0,1] (the shipped schedule yields [0.1,1.0]); smooth's node callback does not change weights (as both shipped RosomaxaSolution implementations)",
            "item retention lower bounds assume a Storage that holds up to `size` items; duplicates (equal weight vectors) may be dropped by retraining, as coded on purpose",
            "weights up to ~1e10 in magnitude; non-finite input weights are outside the domain",
            "Network::new iterates a std HashMap (RandomState) while creating the initial nodes, so histories are not bit-reproducible run to run even with the seeded Random; replays re-run the case several times",
        ],
        props: vec![Box::new(NetProp { long: false }), Box::new(NetProp { long: true }), Box::new(RosoProp)],
        extra: None,
        required_classes: vec![
            "gsom_network.grew",
            "gsom_network.compact_removed_nodes",
            "gsom_network.grew_then_compacted",
            "gsom_network.capacity_eviction_or_dedup",
            "gsom_network.op.compact_noop",
            "gsom_network.stream.clustered",
            "gsom_network.stream.duplicated",
            "gsom_network.stream.outliers",
            "gsom_network.stream.constant",
            "gsom_network.stream.one_varying_dimension",
            "gsom_long_stream.grew",
            "gsom_long_stream.max_items_offered_seen",
            "gsom_rosomaxa.states_checked",
            "gsom_rosomaxa.exploring_tick_at_rebalance_multiple",
            "gsom_rosomaxa.all_three_phases",
            "gsom_rosomaxa.network_grew",
            "gsom_rosomaxa.network_compacted",
        ],
    }
}
