//! C06: insertion evaluation agrees with brute-force simulation.
//! C20: insertion cost estimates equal true objective changes for additive objectives.
//!
//! Both work on solver-reachable states: cheapest insertion on a generated pragmatic problem stopped after a
//! generated number of insertions, the remaining jobs waiting in `unassigned` (code Unknown).  A quoted
//! `InsertionSuccess` is carried out through the shipped path (`InsertionHeuristic::process` driven by a harness
//! evaluator that hands out exactly that success, so `apply_insertion_success` and finalisation run).

use super::common::*;
use super::e2e::read_core;
use super::interrupt::KQuota;
use super::ops::check_feasible;
use super::pgen::*;
use crate::fw::*;
use proptest::prelude::*;
use rosomaxa::evolution::TelemetryMode;
use rosomaxa::prelude::*;
use rosomaxa::utils::Parallelism;
use serde::{Deserialize, Serialize};
use serde_json::json;
use std::sync::{Arc, Mutex};
use vrp_core::construction::features::{JobDemandDimension, VehicleCapacityDimension};
use vrp_core::construction::heuristics::*;
use vrp_core::models::common::{Dimensions, MultiDimLoad, SingleDimLoad, TimeSpan};
use vrp_core::models::problem::{Job, JobIdDimension, Single};
use vrp_core::models::solution::Activity;
use vrp_core::models::Problem as CoreProblem;
use vrp_core::solver::search::{Recreate, RecreateWithCheapest};
use vrp_core::solver::{RefinementContext, create_elitism_population};
use vrp_pragmatic::format::problem as api;

#[derive(Clone, Debug, Serialize, Deserialize)]
pub struct InsCase {
    pub spec: ProblemSpec,
    /// number of insertions performed before the evaluated state is taken
    pub prefix: u8,
    pub seed: u64,
    /// choices: which (route, job, position) triples are carried out and judged
    pub picks: Vec<u16>,
    /// objective list variant (C20) / window tightening mode (C06 completeness)
    pub variant: u8,
}

fn ins_case(max_jobs: usize) -> impl Strategy<Value = InsCase> {
    (problem_spec(max_jobs), 0u8..9, any::<u64>(), prop::collection::vec(any::<u16>(), 24), 0u8..12).prop_map(|(spec, prefix, seed, picks, variant)| InsCase { spec, prefix, seed, picks, variant })
}

// ---------------------------------------------------------------------------------------------
// shared machinery
// ---------------------------------------------------------------------------------------------

/// Cheapest insertion stopped after `prefix` insertions; whatever is left waits in `unassigned` with code Unknown.
fn build_state(core: &Arc<CoreProblem>, prefix: u8, seed: u64) -> Result<InsertionContext, Failure> {
    // at least one job is left waiting
    let prefix = prefix as usize % core.jobs.size().max(1);
    let quota = Arc::new(KQuota::new(prefix as u64));
    let env_q = Arc::new(Environment::new(Arc::new(SeededRandom::new(seed)), Some(quota), Parallelism::new(1, 1), quiet_logger(), false));
    let env = quiet_env(seed ^ 1, Parallelism::new(1, 1), None);
    let refinement_ctx = RefinementContext::new(core.clone(), Box::new(create_elitism_population(core.goal.clone(), env.clone())), TelemetryMode::None, env.clone());
    let mut ctx = guard(|| RecreateWithCheapest::new(env_q.random.clone()).run(&refinement_ctx, InsertionContext::new(core.clone(), env_q.clone()))).map_err(|p| Failure::new(format!("harness:state-construction-panic:{}", panic_site(&p)), p))?;
    ctx.environment = env;
    let waiting: Vec<Job> = ctx.solution.unassigned.keys().cloned().collect();
    for j in waiting {
        ctx.solution.unassigned.insert(j, UnassignmentInfo::Unknown);
    }
    core.goal.accept_solution_state(&mut ctx.solution);
    Ok(ctx)
}

struct OnceEvaluator(Mutex<Option<InsertionSuccess>>);

impl InsertionEvaluator for OnceEvaluator {
    fn evaluate_all(&self, _: &InsertionContext, _: &[&Job], _: &[&RouteContext], _: &LegSelection, _: &(dyn ResultSelector)) -> InsertionResult {
        match self.0.lock().unwrap().take() {
            Some(s) => InsertionResult::Success(s),
            None => InsertionResult::make_failure(),
        }
    }
}

/// Carries out exactly the given success on a copy of the context through `InsertionHeuristic::process`.
fn apply(ctx: &InsertionContext, success: InsertionSuccess) -> Result<InsertionContext, Failure> {
    let mut copy = ctx.deep_copy();
    // the loop of `process` polls the quota once per iteration: exactly one evaluation takes place
    copy.environment = Arc::new(Environment::new(Arc::new(SeededRandom::new(1)), Some(Arc::new(KQuota::new(1))), Parallelism::new(1, 1), quiet_logger(), false));
    let heuristic = InsertionHeuristic::new(Box::new(OnceEvaluator(Mutex::new(Some(success)))));
    let mut after = guard(move || heuristic.process(copy, &AllJobSelector::default(), &AllRouteSelector::default(), &LegSelection::Exhaustive, &BestResultSelector::default()))
        .map_err(|p| Failure::new(format!("insert:apply-panic:{}", panic_site(&p)), format!("carrying out a quoted insertion panicked: {p}")))?;
    after.environment = ctx.environment.clone();
    Ok(after)
}

fn job_id(job: &Job) -> String {
    job.dimens().get_job_id().cloned().unwrap_or_else(|| "?".to_string())
}

fn is_customer(job: &Job) -> bool {
    // marker jobs (break/reload/...) carry a vehicle id dimension in the pragmatic format
    use vrp_core::models::problem::VehicleIdDimension;
    job.dimens().get_vehicle_id().is_none()
}

fn eval(ctx: &InsertionContext, route: &RouteContext, job: &Job, position: InsertionPosition) -> Result<InsertionResult, Failure> {
    let leg_selection = LegSelection::Exhaustive;
    let selector = BestResultSelector::default();
    let eval_ctx = EvaluationContext { goal: &ctx.problem.goal, job, leg_selection: &leg_selection, result_selector: &selector };
    guard(|| eval_job_insertion_in_route(ctx, &eval_ctx, route, position, InsertionResult::make_failure())).map_err(|p| Failure::new(format!("insert:eval-panic:{}", panic_site(&p)), format!("eval_job_insertion_in_route panicked: {p}")))
}

fn describe_route(route: &RouteContext) -> String {
    let r = route.route();
    let acts: Vec<String> = r
        .tour
        .all_activities()
        .map(|a| {
            let id = a.job.as_ref().map(|s| s.dimens.get_job_id().cloned().unwrap_or_default()).unwrap_or_else(|| "-".into());
            format!("{id}@{}[{}..{}]arr{}dep{}", a.place.location, a.place.time.start - T0 as f64, a.place.time.end - T0 as f64, a.schedule.arrival - T0 as f64, a.schedule.departure - T0 as f64)
        })
        .collect();
    format!("closed={} acts={acts:?}", r.actor.detail.end.is_some())
}

fn doc(rendered: &Rendered) -> String {
    json!({"problem": rendered.problem, "matrices": rendered.matrices}).to_string()
}

fn candidate_routes(ctx: &InsertionContext) -> Vec<&RouteContext> {
    ctx.solution.routes.iter().chain(ctx.solution.registry.next_route()).collect()
}

fn waiting_jobs(ctx: &InsertionContext) -> Vec<Job> {
    let mut jobs: Vec<Job> = ctx.solution.unassigned.keys().cloned().collect();
    // HashMap order is not deterministic: order by id
    jobs.sort_by_key(job_id);
    jobs
}

// ---------------------------------------------------------------------------------------------
// C06 (a): soundness against the reference model R, all features
// ---------------------------------------------------------------------------------------------

pub struct SoundProp;

impl Prop for SoundProp {
    type Case = InsCase;
    fn name(&self) -> &'static str {
        "insertion_soundness"
    }
    fn strategy(&self, tier: Tier) -> BoxedStrategy<InsCase> {
        ins_case(tier.pick(10, 16)).boxed()
    }
    fn cases(&self, tier: Tier) -> u32 {
        tier.pick(3_000, 60_000)
    }
    fn shards(&self, _tier: Tier) -> u32 {
        16
    }
    fn max_shrink_iters(&self) -> u32 {
        200
    }
    fn check(&self, c: &InsCase, stats: &Stats) -> Check {
        let rendered = render(&c.spec);
        let core = read_core(&rendered.problem, &rendered.matrices).map_err(|e| Failure::new("harness:generator-invalid", format!("generated problem was rejected: {e}")))?;
        let ctx = build_state(&core, c.prefix, c.seed)?;
        // premise: the state the evaluator looks at is itself feasible for R
        match check_feasible(&ctx, &rendered, "state before insertion", "C06", stats, false, "insertion") {
            Ok(false) => {}
            _ => {
                stats.class("sound.skipped.state_before_not_clean");
                return Ok(());
            }
        }
        let jobs = waiting_jobs(&ctx);
        let routes = candidate_routes(&ctx);
        if jobs.is_empty() || routes.is_empty() {
            stats.class("sound.trivial_nothing_to_insert");
            return Ok(());
        }
        // all (route, job, position) triples the evaluator accepts (the quoted success is kept: jobs with >=3 tasks are
        // evaluated on a random sample of task orders, so asking twice may answer differently)
        let mut accepted: Vec<(usize, usize, Option<usize>, Option<InsertionSuccess>)> = vec![];
        let mut per_pair: Vec<(usize, usize, usize, usize)> = vec![]; // route, job, successes, failures over concrete positions
        for (ri, r) in routes.iter().enumerate() {
            let legs = r.route().tour.legs().count();
            for (ji, j) in jobs.iter().enumerate() {
                let (mut s, mut f) = (0, 0);
                for p in 0..legs {
                    match eval(&ctx, r, j, InsertionPosition::Concrete(p))? {
                        InsertionResult::Success(success) => {
                            accepted.push((ri, ji, Some(p), Some(success)));
                            s += 1;
                        }
                        InsertionResult::Failure(_) => f += 1,
                    }
                }
                if let InsertionResult::Success(success) = eval(&ctx, r, j, InsertionPosition::Any)? {
                    accepted.push((ri, ji, None, Some(success)));
                }
                per_pair.push((ri, ji, s, f));
            }
        }
        if accepted.is_empty() {
            stats.class("sound.no_position_accepted");
            return Ok(());
        }
        let mut chosen: Vec<usize> = c.picks.iter().map(|p| pick_idx(*p, accepted.len())).collect();
        chosen.sort();
        chosen.dedup();
        for k in chosen {
            let (ri, ji, pos) = (accepted[k].0, accepted[k].1, accepted[k].2);
            let (r, j) = (routes[ri], &jobs[ji]);
            let success = accepted[k].3.take().unwrap();
            let what = format!("job {} placed at {:?} (leg indices {:?}, places {:?}) in route [{}]", job_id(j), pos, success.activities.iter().map(|(_, i)| *i).collect::<Vec<_>>(), success.activities.iter().map(|(a, _)| (a.place.idx, a.place.location)).collect::<Vec<_>>(), describe_route(r));
            if let Some(p) = pos {
                if let Job::Single(_) = j {
                    ensure!(success.activities.len() == 1 && success.activities[0].1 == p, "insert:position-ignored", "Concrete({p}) answered with leg index {:?}: {what}", success.activities.iter().map(|(_, i)| *i).collect::<Vec<_>>());
                }
            }
            let actor = success.actor.clone();
            let expected_jobs = r.route().tour.job_count() + 1;
            let after = apply(&ctx, success)?;
            stats.eval();
            // the placement was carried out: the job is in the tour of that actor
            let target = after.solution.routes.iter().find(|rc| rc.route().actor == actor);
            // (conditional marker jobs such as reloads may be dropped again by their feature when the insertion is finalised)
            ensure!(!is_customer(j) || target.is_some_and(|rc| rc.route().tour.jobs().any(|x| x == j)), "insert:placement-not-carried-out", "after applying the quoted insertion the job is not in that tour: {what}");
            // Reachability of the two legs around the placed activity, decided directly on the matrices. The open known
            // finding on reachability (legs made adjacent by a removal, stale location of a location-less break) masks
            // R's reachability rule below; a placement that itself creates an unreachable leg is not that finding.
            if let (Job::Single(_), Some(rc)) = (j, target) {
                let tour = &rc.route().tour;
                let acts: Vec<&Activity> = tour.all_activities().collect();
                let no_own_location = |a: &Activity| a.job.as_ref().is_some_and(|s| s.places.get(a.place.idx).is_some_and(|p| p.location.is_none()));
                if tour.total() == r.route().tour.total() + 1 {
                    if let Some(i) = acts.iter().position(|a| a.retrieve_job().as_ref() == Some(j)) {
                        let profile = rc.route().actor.vehicle.profile.index;
                        let codes = rendered.matrices.get(profile).and_then(|m| m.error_codes.as_ref().map(|c| (c, (m.distances.len() as f64).sqrt().round() as usize)));
                        if let Some((codes, n)) = codes {
                            stats.class("sound.direct_reachability_checked");
                            for (a, b) in [(i.wrapping_sub(1), i), (i, i + 1)] {
                                let (Some(from), Some(to)) = (acts.get(a), acts.get(b)) else { continue };
                                if no_own_location(from) || no_own_location(to) {
                                    continue;
                                }
                                let (lf, lt) = (from.place.location, to.place.location);
                                ensure!(codes.get(lf * n + lt).is_none_or(|c| *c <= 0), "insert:unsound:reachability-of-placed-activity", "the evaluator accepted a placement whose own leg {lf}->{lt} is flagged unreachable: {what}\n{}", doc(&rendered));
                            }
                        }
                    }
                }
            }
            match check_feasible(&after, &rendered, &what, "C06", stats, false, "insertion") {
                Ok(_) => {}
                Err(f) => return Err(Failure::new(f.signature.replace("inv:", "insert:unsound:"), format!("the evaluator accepted a placement that the reference model finds infeasible.\n{}", f.message))),
            }
            let (_, _, s, f) = per_pair.iter().find(|(a, b, _, _)| *a == ri && *b == ji).copied().unwrap();
            if s > 0 && f > 0 {
                stats.nontrivial(mix(hash_of(&format!("{c:?}")), k as u64));
                stats.class("sound.job_has_feasible_and_infeasible_positions");
            }
            match j {
                Job::Single(_) => stats.class(if is_customer(j) { "sound.single_task" } else { "sound.marker_job" }),
                Job::Multi(_) => stats.class("sound.multi_task"),
            }
            if pos.is_none() {
                stats.class("sound.any_position");
            }
            if expected_jobs >= 3 {
                stats.class("sound.tour_with_3plus_jobs");
            }
            let mixed = r.route().tour.all_activities().filter_map(|a| a.job.as_ref()).fold((false, false), |acc, s| match demand_of(&s.dimens) {
                Some(d) => (acc.0 || has_static(&d), acc.1 || has_dynamic(&d)),
                None => acc,
            });
            if mixed.0 && mixed.1 {
                stats.class("sound.tour_mixes_static_and_shipment_demand");
            }
        }
        for f in rendered.info.features.iter() {
            stats.class(&format!("feature.{f}"));
        }
        stats.sample(2, || json!({"kind": "insertion_soundness", "features": rendered.info.features, "waiting_jobs": jobs.len(), "routes": routes.len(), "accepted_triples": accepted.len()}));
        Ok(())
    }
}

// ---------------------------------------------------------------------------------------------
// C06 (b): completeness + soundness against a brute-force simulation (windows, shift times, capacity only)
// ---------------------------------------------------------------------------------------------

/// Restricts a spec to the premise of the completeness clause: time windows, shift times and capacity.
fn plain_spec(mut spec: ProblemSpec) -> ProblemSpec {
    spec.features &= F_WINDOWS | F_MULTI | F_VALUE | F_LATEST;
    spec.profiles = 1;
    spec.unreachable.clear();
    spec.vehicles.iter_mut().for_each(|v| v.profile = 0);
    spec
}

#[derive(Clone)]
struct SimAct {
    loc: usize,
    dur: f64,
    tw: (f64, f64),
    demand: Option<Dem>,
}

fn sim_act(a: &Activity) -> SimAct {
    SimAct { loc: a.place.location, dur: a.place.duration, tw: (a.place.time.start, a.place.time.end), demand: a.job.as_ref().and_then(|s| demand_of(&s.dimens)) }
}

struct Sim<'a> {
    times: &'a [i64],
    n: usize,
    departure: f64,
    shift_end: f64,
    capacity: Vec<i64>,
}

fn loads(l: &MultiDimLoad) -> Vec<i64> {
    l.load.iter().map(|x| *x as i64).collect()
}

/// pickup static, pickup dynamic, delivery static, delivery dynamic (the pragmatic reader uses SingleDimLoad for one dimension)
type Dem = [Vec<i64>; 4];

fn demand_of(d: &Dimensions) -> Option<Dem> {
    if let Some(m) = d.get_job_demand::<MultiDimLoad>() {
        return Some([loads(&m.pickup.0), loads(&m.pickup.1), loads(&m.delivery.0), loads(&m.delivery.1)]);
    }
    d.get_job_demand::<SingleDimLoad>().map(|s| [vec![s.pickup.0.value as i64], vec![s.pickup.1.value as i64], vec![s.delivery.0.value as i64], vec![s.delivery.1.value as i64]])
}

fn capacity_of(d: &Dimensions) -> Option<Vec<i64>> {
    if let Some(m) = d.get_vehicle_capacity::<MultiDimLoad>() {
        return Some(loads(m));
    }
    d.get_vehicle_capacity::<SingleDimLoad>().map(|s| vec![s.value as i64])
}

fn has_static(d: &Dem) -> bool {
    d[0].iter().chain(d[2].iter()).any(|x| *x != 0)
}

fn has_dynamic(d: &Dem) -> bool {
    d[1].iter().chain(d[3].iter()).any(|x| *x != 0)
}

#[derive(Default)]
struct SimFacts {
    arrival_equals_window_end: bool,
    capacity_exactly_full: bool,
    waiting: bool,
}

impl Sim<'_> {
    /// Step-by-step simulation of a whole tour: `Ok(facts)` when feasible, `Err(reason)` otherwise.
    fn run(&self, seq: &[SimAct]) -> Result<SimFacts, String> {
        let mut facts = SimFacts::default();
        // time
        let mut t = self.departure;
        for i in 1..seq.len() {
            let travel = self.times[seq[i - 1].loc * self.n + seq[i].loc] as f64;
            let arrival = t + travel;
            if arrival > seq[i].tw.1 {
                return Err(format!("arrival {} at activity {i} after its window end {}", arrival - T0 as f64, seq[i].tw.1 - T0 as f64));
            }
            if arrival > self.shift_end {
                return Err(format!("arrival {} at activity {i} after shift end", arrival - T0 as f64));
            }
            if arrival == seq[i].tw.1 {
                facts.arrival_equals_window_end = true;
            }
            if arrival < seq[i].tw.0 {
                facts.waiting = true;
            }
            t = arrival.max(seq[i].tw.0) + seq[i].dur;
        }
        // load: static deliveries are on board from the start, static pickups stay until the end
        let dims = self.capacity.len();
        let mut load = vec![0i64; dims];
        for a in seq.iter() {
            if let Some(d) = a.demand.as_ref() {
                (0..dims).for_each(|k| load[k] += d[2][k]);
            }
        }
        let mut check = |load: &Vec<i64>, at: usize| -> Result<(), String> {
            for k in 0..dims {
                if load[k] > self.capacity[k] {
                    return Err(format!("load {load:?} above capacity {:?} after activity {at}", self.capacity));
                }
                if load[k] == self.capacity[k] && self.capacity[k] > 0 {
                    facts.capacity_exactly_full = true;
                }
            }
            Ok(())
        };
        check(&load, 0)?;
        for (i, a) in seq.iter().enumerate() {
            if let Some(d) = a.demand.as_ref() {
                (0..dims).for_each(|k| load[k] += d[0][k] + d[1][k] - d[2][k] - d[3][k]);
                check(&load, i)?;
            }
        }
        Ok(facts)
    }
}

pub struct CompleteProp;

impl CompleteProp {
    /// second pass of a case: tighten the first window of one waiting single-task job around a reachable arrival
    fn tighten(&self, c: &InsCase, ctx: &InsertionContext, rendered: &Rendered) -> Option<ProblemSpec> {
        let mode = c.variant % 4;
        if mode == 3 {
            return None;
        }
        let jobs = waiting_jobs(ctx);
        let singles: Vec<&Job> = jobs.iter().filter(|j| matches!(j, Job::Single(_)) && is_customer(j)).collect();
        let routes = candidate_routes(ctx);
        if singles.is_empty() || routes.is_empty() {
            return None;
        }
        let job = singles[pick_idx(c.picks[0], singles.len())];
        let route = routes[pick_idx(c.picks[1], routes.len())];
        let total = route.route().tour.total();
        let after = pick_idx(c.picks[2], total);
        let prev = route.route().tour.get(after)?;
        let single = job.as_single()?;
        let place = single.places.first()?;
        let n = (rendered.matrices[0].travel_times.len() as f64).sqrt().round() as usize;
        let arrival = prev.schedule.departure + rendered.matrices[0].travel_times[prev.place.location * n + place.location?] as f64;
        let a = (arrival - T0 as f64).max(0.).min(60_000.) as u16;
        let id = job_id(job);
        let idx: usize = id.strip_prefix("job").and_then(|s| s.parse().ok())?;
        let mut spec = c.spec.clone();
        let js = spec.jobs.get_mut(idx)?;
        let window = match mode {
            0 => (a.saturating_sub(40), a.min(40)),                       // ends exactly at the reachable arrival
            1 => (a.saturating_sub(41), a.saturating_sub(1).min(40)),     // ends one second before it
            _ => (a, 0),                                                  // degenerate window at the arrival
        };
        js.places[0][0].windows = vec![window];
        spec.features |= F_WINDOWS;
        Some(spec)
    }
}

impl Prop for CompleteProp {
    type Case = InsCase;
    fn name(&self) -> &'static str {
        "insertion_completeness"
    }
    fn strategy(&self, tier: Tier) -> BoxedStrategy<InsCase> {
        ins_case(tier.pick(8, 12)).prop_map(|mut c| {
            c.spec = plain_spec(c.spec);
            c
        })
        .boxed()
    }
    fn cases(&self, tier: Tier) -> u32 {
        tier.pick(4_000, 100_000)
    }
    fn shards(&self, _tier: Tier) -> u32 {
        16
    }
    fn max_shrink_iters(&self) -> u32 {
        300
    }
    fn check(&self, c: &InsCase, stats: &Stats) -> Check {
        let spec0 = plain_spec(c.spec.clone());
        let rendered0 = render(&spec0);
        let core0 = read_core(&rendered0.problem, &rendered0.matrices).map_err(|e| Failure::new("harness:generator-invalid", format!("generated problem was rejected: {e}")))?;
        let ctx0 = build_state(&core0, c.prefix, c.seed)?;
        // optional second pass with a window placed exactly on a reachable arrival time
        let (rendered, ctx) = match self.tighten(c, &ctx0, &rendered0) {
            Some(spec) => {
                let rendered = render(&spec);
                match read_core(&rendered.problem, &rendered.matrices) {
                    Ok(core) => {
                        stats.class("complete.window_tightened_around_reachable_arrival");
                        let ctx = build_state(&core, c.prefix, c.seed)?;
                        (rendered, ctx)
                    }
                    Err(_) => (rendered0, ctx0),
                }
            }
            None => (rendered0, ctx0),
        };
        let matrix = &rendered.matrices[0];
        let n = (matrix.travel_times.len() as f64).sqrt().round() as usize;
        let jobs = waiting_jobs(&ctx);
        let routes = candidate_routes(&ctx);
        for r in routes.iter() {
            let route = r.route();
            let base: Vec<SimAct> = route.tour.all_activities().map(sim_act).collect();
            let departure = route.tour.start().map(|a| a.schedule.departure).unwrap_or(0.);
            let Some(capacity) = capacity_of(&route.actor.vehicle.dimens) else {
                stats.class("complete.skipped.no_capacity");
                continue;
            };
            let sim = Sim { times: &matrix.travel_times, n, departure, shift_end: route.actor.detail.time.end, capacity };
            // premise: the tour as it stands is feasible in the simulation
            if let Err(why) = sim.run(&base) {
                stats.class("complete.skipped.tour_before_not_feasible_in_simulation");
                let _ = why;
                continue;
            }
            let legs = route.tour.legs().count();
            for j in jobs.iter() {
                let Job::Single(single) = j else {
                    stats.class("complete.exempt.multi_task_job");
                    continue;
                };
                if single.places.iter().any(|p| p.location.is_none() || p.times.iter().any(|t| !matches!(t, TimeSpan::Window(_)))) {
                    stats.class("complete.skipped.place_without_location_or_offset_time");
                    continue;
                }
                // brute force: every position x place x window
                let mut feasible: Vec<(usize, usize, (f64, f64))> = vec![];
                let mut boundary = false;
                let mut infeasible = 0usize;
                for p in 0..legs {
                    for (pi, place) in single.places.iter().enumerate() {
                        for t in place.times.iter() {
                            let TimeSpan::Window(tw) = t else { continue };
                            let mut seq = base.clone();
                            seq.insert(p + 1, SimAct { loc: place.location.unwrap(), dur: place.duration, tw: (tw.start, tw.end), demand: demand_of(&single.dimens) });
                            match sim.run(&seq) {
                                Ok(facts) => {
                                    boundary |= facts.arrival_equals_window_end || facts.capacity_exactly_full;
                                    feasible.push((p, pi, (tw.start, tw.end)));
                                }
                                Err(_) => infeasible += 1,
                            }
                        }
                    }
                }
                let describe = || format!("job {} (places {:?}) into route [{}] departing at {}; capacity {:?}; simulation finds feasible (leg, place, window): {:?}\n--- problem+matrices:\n{}", job_id(j), single.places.iter().map(|p| (p.location, p.duration, p.times.iter().map(|t| if let TimeSpan::Window(w) = t { (w.start - T0 as f64, w.end - T0 as f64) } else { (0., 0.) }).collect::<Vec<_>>())).collect::<Vec<_>>(), describe_route(r), departure - T0 as f64, sim.capacity, feasible.iter().map(|(p, pi, w)| (*p, *pi, w.0 - T0 as f64, w.1 - T0 as f64)).collect::<Vec<_>>(), doc(&rendered));
                let member = |s: &InsertionSuccess| -> bool { s.activities.len() == 1 && feasible.iter().any(|(p, pi, w)| *p == s.activities[0].1 && *pi == s.activities[0].0.place.idx && *w == (s.activities[0].0.place.time.start, s.activities[0].0.place.time.end)) };
                // Any: exhaustive best insertion
                stats.eval();
                match eval(&ctx, r, j, InsertionPosition::Any)? {
                    InsertionResult::Success(s) => {
                        ensure!(member(&s), if feasible.is_empty() { "insert:accepts-infeasible" } else { "insert:returned-position-not-feasible" }, "Any answered leg {} place {} window [{}, {}] which the simulation does not find feasible: {}", s.activities[0].1, s.activities[0].0.place.idx, s.activities[0].0.place.time.start - T0 as f64, s.activities[0].0.place.time.end - T0 as f64, describe());
                    }
                    InsertionResult::Failure(f) => {
                        ensure!(feasible.is_empty(), "insert:misses-feasible-position", "exhaustive best insertion reports failure (code {:?}) although the simulation finds a feasible position: {}", f.constraint, describe());
                    }
                }
                // Concrete(p): soundness only (per-position completeness is not claimed)
                for p in 0..legs {
                    stats.eval();
                    match eval(&ctx, r, j, InsertionPosition::Concrete(p))? {
                        InsertionResult::Success(s) => {
                            ensure!(member(&s) && s.activities[0].1 == p, "insert:accepts-infeasible", "Concrete({p}) answered leg {} place {} window [{}, {}] which the simulation does not find feasible: {}", s.activities[0].1, s.activities[0].0.place.idx, s.activities[0].0.place.time.start - T0 as f64, s.activities[0].0.place.time.end - T0 as f64, describe());
                        }
                        InsertionResult::Failure(_) => {
                            if feasible.iter().any(|(q, _, _)| *q == p) {
                                stats.class("complete.counted.concrete_position_incomplete");
                            }
                        }
                    }
                }
                if !feasible.is_empty() && infeasible > 0 {
                    stats.nontrivial(mix(hash_of(&format!("{c:?}")), hash_of(&(job_id(j), describe_route(r)))));
                    stats.class("complete.job_has_feasible_and_infeasible_positions");
                }
                if boundary {
                    stats.nontrivial(mix(hash_of(&format!("{c:?}")), hash_of(&(job_id(j), describe_route(r), 1))));
                    stats.class("complete.boundary_equality_at_window_end_or_capacity");
                }
                if feasible.len() == 1 {
                    stats.class("complete.exactly_one_feasible_position");
                }
                if feasible.is_empty() {
                    stats.class("complete.no_feasible_position");
                }
                if route.actor.detail.end.is_none() {
                    stats.class("complete.open_tour");
                }
                if single.places.len() > 1 || single.places.iter().any(|p| p.times.len() > 1) {
                    stats.class("complete.multi_place_or_multi_window_job");
                }
                if base.iter().any(|a| a.demand.as_ref().is_some_and(has_dynamic)) && base.iter().any(|a| a.demand.as_ref().is_some_and(has_static)) {
                    stats.class("complete.tour_mixes_static_and_shipment_demand");
                }
                if base.len() >= 5 {
                    stats.class("complete.tour_with_3plus_activities");
                }
            }
        }
        stats.sample(2, || json!({"kind": "insertion_completeness", "features": rendered.info.features, "waiting_jobs": jobs.len(), "routes": routes.len()}));
        Ok(())
    }
}

pub fn property_c06(_tier: Tier) -> PropertyDef {
    PropertyDef {
        id: "C06",
        level: "exploration",
        rule: "states: cheapest insertion on a generated pragmatic problem (pgen) stopped after 0-8 insertions; the other jobs wait in `unassigned` (Unknown). (a) insertion_soundness, all features: eval_job_insertion_in_route (LegSelection::Exhaustive, BestResultSelector) is called for every waiting job x every tour (existing and the next new one per vehicle type) x every InsertionPosition::Concrete(p) and Any; up to 24 accepted (tour, job, position) triples per case are CARRIED OUT through InsertionHeuristic::process (harness evaluator handing out exactly that InsertionSuccess, so apply_insertion_success and finalisation run) and the resulting solution, written by the public writer, must pass the feasibility and conservation oracles of the reference model R (the state before must pass too, else the case is skipped and counted). (b) insertion_completeness, problems restricted to time windows, shift times and capacity: an independent step-by-step simulation (matrix look-ups, service start = max(arrival, window start), static deliveries on board from the start, static pickups to the end, shipment demand in between) enumerates every (leg, place, window) of every waiting single-task job; Any must succeed iff the simulation finds a feasible triple, the triple it returns must be one of them, and every Concrete(p) success must be one of them at p; a second pass places the job's window end exactly on / one second before / degenerate at a reachable arrival time. (c) core_offset_windows_after_departure_shift: tours built through the core API (3-6 grid points, Manhattan metric, one closed vehicle shift, 0-4 existing jobs with at most one absolute window), departure shifted by 0-200 through update_route_departure, candidate single-task job with 1-2 time spans, each absolute or TimeSpan::Offset (relative to the departure): every Success (each Concrete(p) and Any) must name a (leg, window) that an independent simulation finds feasible with the windows resolved from the job definition and the actual departure, and Any must succeed whenever the simulation finds a feasible pair. evaluations = carried-out placements (a) + evaluator calls compared with the simulation (b, c). Non-trivial: the job has both feasible and infeasible positions in that tour, or equality at a window end / capacity exactly full.",
        assumptions: vec![
            "multi-task jobs are exempt from completeness, as the property states; Concrete(p) failing on a feasible p is counted, not asserted (only exhaustive best insertion claims completeness)",
            "the simulation keeps the windows already chosen for the activities in the tour and the tour's current departure time, exactly what the evaluator is documented to work with",
            "travel times come from the generated matrix (time-independent); provider correctness is C16's subject",
        ],
        props: vec![Box::new(SoundProp), Box::new(CompleteProp), Box::new(super::insert_core::CoreOffsetProp)],
        extra: None,
        required_classes: vec![
            "sound.single_task",
            "sound.multi_task",
            "sound.any_position",
            "sound.job_has_feasible_and_infeasible_positions",
            "sound.tour_mixes_static_and_shipment_demand",
            "complete.job_has_feasible_and_infeasible_positions",
            "complete.boundary_equality_at_window_end_or_capacity",
            "complete.window_tightened_around_reachable_arrival",
            "complete.exactly_one_feasible_position",
            "complete.no_feasible_position",
            "complete.open_tour",
            "complete.multi_place_or_multi_window_job",
            "complete.tour_mixes_static_and_shipment_demand",
        ],
    }
}

// ---------------------------------------------------------------------------------------------
// C20: quoted cost == realised objective change
// ---------------------------------------------------------------------------------------------

#[derive(Clone, Copy, Debug, PartialEq)]
enum Layer {
    Unassigned,
    Tours,
    Distance,
    Value,
    Cost,
}

fn cost_spec(mut spec: ProblemSpec) -> ProblemSpec {
    // conditional marker jobs (breaks, reloads) have documented side effects on the objectives; soft order is not additive
    spec.features &= !(F_BREAKS | F_RELOADS | F_ORDER | F_UNREACHABLE);
    spec
}

fn objectives_for(variant: u8, any_value: bool) -> (Vec<api::Objective>, Vec<Layer>) {
    use api::Objective::*;
    let (mut o, mut l) = match variant % 5 {
        0 => (vec![MinimizeUnassigned { breaks: None }, MinimizeTours, MinimizeDistance], vec![Layer::Unassigned, Layer::Tours, Layer::Distance]),
        1 => (vec![MinimizeUnassigned { breaks: None }, MinimizeDistance, MinimizeTours], vec![Layer::Unassigned, Layer::Distance, Layer::Tours]),
        2 => (vec![MinimizeUnassigned { breaks: None }, MinimizeTours, MinimizeCost], vec![Layer::Unassigned, Layer::Tours, Layer::Cost]),
        3 => (vec![MinimizeTours, MinimizeUnassigned { breaks: None }, MinimizeCost], vec![Layer::Tours, Layer::Unassigned, Layer::Cost]),
        _ => (vec![MinimizeUnassigned { breaks: None }, MinimizeDistance], vec![Layer::Unassigned, Layer::Distance]),
    };
    if any_value {
        let at = if variant % 2 == 0 { 0 } else { 1 };
        o.insert(at, MaximizeValue { breaks: None });
        l.insert(at, Layer::Value);
    }
    (o, l)
}

fn has_waiting(route: &RouteContext) -> bool {
    route.route().tour.all_activities().any(|a| a.job.is_some() && a.schedule.arrival < a.place.time.start)
}

fn near(a: f64, b: f64) -> bool {
    (a - b).abs() <= 1e-6 * a.abs().max(b.abs()).max(1.)
}

/// Carries out a quoted insertion and compares every additive layer of the quote with the realised fitness change.
#[allow(clippy::too_many_arguments)]
fn compare_quote(ctx: &InsertionContext, rendered: &Rendered, layers: &[Layer], before: &[f64], success: InsertionSuccess, r: &RouteContext, j: &Job, pos: &str, stats: &Stats) -> Check {
    let quote: Vec<f64> = success.cost.iter().collect();
    let actor = success.actor.clone();
    let indices: Vec<usize> = success.activities.iter().map(|(_, i)| *i).collect();
    let what = format!("job {} at {pos} (leg indices {indices:?}, places {:?}) into route [{}]", job_id(j), success.activities.iter().map(|(a, _)| (a.place.idx, a.place.location)).collect::<Vec<_>>(), describe_route(r));
    let after = apply(ctx, success)?;
    stats.eval();
    let realised: Vec<f64> = after.problem.goal.fitness(&after).collect();
    let target = after.solution.routes.iter().find(|rc| rc.route().actor == actor);
    let Some(target) = target else {
        return Err(Failure::new("quote:placement-not-carried-out", format!("after applying the quoted insertion the tour does not exist: {what}")));
    };
    let waiting = has_waiting(r) || has_waiting(target);
    for (li, layer) in layers.iter().enumerate() {
        let delta = realised[li] - before[li];
        let q = quote.get(li).copied().unwrap_or(0.);
        if *layer == Layer::Cost && waiting {
            stats.class("quote.cost_layer.outside_premise_waiting_time");
            continue;
        }
        if !near(delta, q) {
            return Err(Failure::new(
                format!("quote:{layer:?}"),
                format!("layer {li} ({layer:?}): quoted {q}, realised change {delta} (fitness {} -> {}); full quote {quote:?}, fitness before {before:?} after {realised:?}; {what}\n--- problem+matrices:\n{}", before[li], realised[li], doc(rendered)),
            ));
        }
        stats.class(&format!("quote.layer_checked.{layer:?}"));
        if *layer == Layer::Cost {
            stats.class("quote.cost_layer.no_waiting");
        }
    }
    Ok(())
}

pub struct QuoteProp;

impl Prop for QuoteProp {
    type Case = InsCase;
    fn name(&self) -> &'static str {
        "quote_equals_realised_change"
    }
    fn strategy(&self, tier: Tier) -> BoxedStrategy<InsCase> {
        ins_case(tier.pick(9, 14))
            .prop_map(|mut c| {
                c.spec = cost_spec(c.spec);
                c
            })
            .boxed()
    }
    fn cases(&self, tier: Tier) -> u32 {
        tier.pick(4_000, 100_000)
    }
    fn shards(&self, _tier: Tier) -> u32 {
        16
    }
    fn max_shrink_iters(&self) -> u32 {
        300
    }
    fn check(&self, c: &InsCase, stats: &Stats) -> Check {
        let mut rendered = render(&cost_spec(c.spec.clone()));
        let any_value = rendered.problem.plan.jobs.iter().any(|j| j.value.is_some());
        let (objectives, layers) = objectives_for(c.variant, any_value);
        rendered.problem.objectives = Some(objectives);
        let core = read_core(&rendered.problem, &rendered.matrices).map_err(|e| Failure::new("harness:generator-invalid", format!("generated problem was rejected: {e}")))?;
        let ctx = build_state(&core, c.prefix, c.seed)?;
        let before: Vec<f64> = ctx.problem.goal.fitness(&ctx).collect();
        ensure!(before.len() == layers.len(), "harness:layer-count", "goal has {} layers, the objective list {}", before.len(), layers.len());
        let jobs = waiting_jobs(&ctx);
        let routes = candidate_routes(&ctx);
        // every (tour, job, position) the evaluator accepts, with its quote
        let mut triples: Vec<(usize, usize, Option<usize>, Option<InsertionSuccess>)> = vec![];
        let mut rejected = 0usize;
        for (ri, r) in routes.iter().enumerate() {
            let legs = r.route().tour.legs().count();
            for (ji, j) in jobs.iter().enumerate() {
                for pos in (0..legs).map(Some).chain(std::iter::once(None)) {
                    match eval(&ctx, r, j, pos.map_or(InsertionPosition::Any, InsertionPosition::Concrete))? {
                        InsertionResult::Success(s) => triples.push((ri, ji, pos, Some(s))),
                        InsertionResult::Failure(_) => rejected += 1,
                    }
                }
            }
        }
        stats.class_n("quote.positions_rejected_by_the_evaluator", rejected as u64);
        if triples.is_empty() {
            stats.class("quote.trivial_nothing_to_insert");
            return Ok(());
        }
        let mut chosen: Vec<usize> = c.picks.iter().map(|p| pick_idx(*p, triples.len())).collect();
        chosen.sort();
        chosen.dedup();
        for k in chosen {
            let (ri, ji, pos) = (triples[k].0, triples[k].1, triples[k].2);
            let (r, j) = (routes[ri], &jobs[ji]);
            let success = triples[k].3.take().unwrap();
            let quote: Vec<f64> = success.cost.iter().collect();
            let indices: Vec<usize> = success.activities.iter().map(|(_, i)| *i).collect();
            compare_quote(&ctx, &rendered, &layers, &before, success, r, j, &format!("{pos:?}"), stats)?;
            let inner = r.route().tour.job_count() > 0 && indices.iter().any(|i| *i > 0);
            let dist_layer = layers.iter().position(|l| *l == Layer::Distance || *l == Layer::Cost);
            let nonzero = dist_layer.is_some_and(|li| quote.get(li).is_some_and(|q| q.abs() > 1e-9));
            if (inner && nonzero) || r.route().tour.job_count() == 0 {
                stats.nontrivial(mix(hash_of(&format!("{c:?}")), k as u64));
            }
            if r.route().tour.job_count() == 0 {
                stats.class("quote.new_tour");
            } else if inner {
                stats.class("quote.inner_position_of_existing_tour");
            }
            match j {
                Job::Single(_) => stats.class("quote.single_task"),
                Job::Multi(_) => stats.class("quote.multi_task"),
            }
            if r.route().actor.detail.end.is_none() {
                stats.class("quote.open_tour");
            }
        }
        // the cheapest quoted insertion is the cheapest realised one (single-task jobs, additive layers only)
        if !layers.contains(&Layer::Cost) {
            let mut pairs: Vec<(usize, usize)> = vec![];
            for (ri, ji, pos, _) in triples.iter() {
                if pos.is_some() && matches!(jobs[*ji], Job::Single(_)) && triples.iter().filter(|(a, b, p, _)| a == ri && b == ji && p.is_some()).count() >= 2 && !pairs.contains(&(*ri, *ji)) {
                    pairs.push((*ri, *ji));
                }
            }
            if !pairs.is_empty() {
                let (ri, ji) = pairs[pick_idx(c.picks[0], pairs.len())];
                let j = &jobs[ji];
                let r = routes[ri];
                let legs = r.route().tour.legs().count();
                let mut realised_all: Vec<(usize, Vec<f64>)> = vec![];
                for p in 0..legs {
                    if let InsertionResult::Success(s) = eval(&ctx, r, j, InsertionPosition::Concrete(p))? {
                        let after = apply(&ctx, s)?;
                        realised_all.push((p, after.problem.goal.fitness(&after).collect()));
                    }
                }
                if let InsertionResult::Success(s) = eval(&ctx, r, j, InsertionPosition::Any)? {
                    let p_any = s.activities[0].1;
                    let after = apply(&ctx, s)?;
                    stats.eval();
                    let best: Vec<f64> = after.problem.goal.fitness(&after).collect();
                    for (p, other) in realised_all.iter() {
                        // lexicographic comparison with tolerance
                        let mut worse = false;
                        for (x, y) in best.iter().zip(other.iter()) {
                            if near(*x, *y) {
                                continue;
                            }
                            worse = x > y;
                            break;
                        }
                        ensure!(!worse, "quote:cheapest-quoted-not-cheapest-realised", "job {} into route [{}]: best insertion chose leg {p_any} with fitness {best:?}, but leg {p} realises {other:?}\n--- problem+matrices:\n{}", job_id(j), describe_route(r), doc(&rendered));
                    }
                    if realised_all.len() >= 2 {
                        stats.class("quote.cheapest_compared_over_2plus_positions");
                    }
                }
            }
        }
        for l in layers.iter() {
            stats.class(&format!("quote.goal_has.{l:?}"));
        }
        stats.sample(2, || json!({"kind": "quote_equals_realised_change", "features": rendered.info.features, "layers": format!("{layers:?}"), "waiting_jobs": jobs.len(), "routes": routes.len()}));
        Ok(())
    }
}

/// Long tours evaluated with `LegSelection::Stochastic`: from a random size on (32-48 legs) only a sample of the legs is
/// evaluated; whatever leg is answered, its quote must still be the realised change.
pub struct QuoteLongProp;

impl Prop for QuoteLongProp {
    type Case = InsCase;
    fn name(&self) -> &'static str {
        "quote_on_long_tours_with_leg_sampling"
    }
    fn strategy(&self, _tier: Tier) -> BoxedStrategy<InsCase> {
        (long_spec(), 0u8..6, any::<u64>(), prop::collection::vec(any::<u16>(), 24), 0u8..12).prop_map(|(spec, prefix, seed, picks, variant)| InsCase { spec: cost_spec(spec), prefix, seed, picks, variant }).boxed()
    }
    fn cases(&self, tier: Tier) -> u32 {
        tier.pick(300, 6_000)
    }
    fn shards(&self, _tier: Tier) -> u32 {
        16
    }
    fn max_shrink_iters(&self) -> u32 {
        60
    }
    fn check(&self, c: &InsCase, stats: &Stats) -> Check {
        let mut rendered = render(&cost_spec(c.spec.clone()));
        let any_value = rendered.problem.plan.jobs.iter().any(|j| j.value.is_some());
        let (objectives, layers) = objectives_for(c.variant, any_value);
        rendered.problem.objectives = Some(objectives);
        let core = read_core(&rendered.problem, &rendered.matrices).map_err(|e| Failure::new("harness:generator-invalid", format!("generated problem was rejected: {e}")))?;
        // all but 1-6 jobs are inserted first
        let n = core.jobs.size();
        let ctx = build_state(&core, (n.saturating_sub(1 + c.prefix as usize)).min(250) as u8, c.seed)?;
        let before: Vec<f64> = ctx.problem.goal.fitness(&ctx).collect();
        ensure!(before.len() == layers.len(), "harness:layer-count", "goal has {} layers, the objective list {}", before.len(), layers.len());
        let jobs = waiting_jobs(&ctx);
        let routes = candidate_routes(&ctx);
        let random: Arc<dyn Random> = Arc::new(SeededRandom::new(c.seed ^ 77));
        let leg_selection = LegSelection::Stochastic(random);
        let selector = BestResultSelector::default();
        for r in routes.iter() {
            let legs = r.route().tour.legs().count();
            stats.class_max("quote_long.max_legs_in_a_tour", legs as u64);
            for j in jobs.iter() {
                let eval_ctx = EvaluationContext { goal: &ctx.problem.goal, job: j, leg_selection: &leg_selection, result_selector: &selector };
                let result = guard(|| eval_job_insertion_in_route(&ctx, &eval_ctx, r, InsertionPosition::Any, InsertionResult::make_failure())).map_err(|p| Failure::new(format!("insert:eval-panic:{}", panic_site(&p)), format!("eval_job_insertion_in_route panicked: {p}")))?;
                let InsertionResult::Success(success) = result else {
                    stats.class("quote_long.rejected");
                    continue;
                };
                compare_quote(&ctx, &rendered, &layers, &before, success, r, j, "Any/Stochastic", stats)?;
                if legs >= 32 {
                    stats.class("quote_long.tour_with_32plus_legs");
                    stats.nontrivial(mix(hash_of(&format!("{c:?}")), hash_of(&job_id(j))));
                }
                if legs >= 48 {
                    stats.class("quote_long.tour_with_48plus_legs_always_sampled");
                }
                match j {
                    Job::Single(_) => stats.class("quote_long.single_task"),
                    Job::Multi(_) => stats.class("quote_long.multi_task"),
                }
            }
        }
        stats.sample(1, || json!({"kind": "quote_on_long_tours_with_leg_sampling", "jobs": n, "waiting_jobs": jobs.len(), "layers": format!("{layers:?}")}));
        Ok(())
    }
}

pub fn property_c20(_tier: Tier) -> PropertyDef {
    PropertyDef {
        id: "C20",
        level: "exploration",
        rule: "states as for C06 on generated pragmatic problems without breaks/reloads/soft order (conditional marker jobs have documented side effects on objectives), with an explicit objective list drawn from five orders of {minimize-unassigned, minimize-tours, minimize-distance | minimize-cost} plus maximize-value when jobs carry values; up to 24 (tour, waiting job, position) triples per case (Concrete(p) and Any, single- and multi-task jobs, existing and new tours): the InsertionSuccess quoted by eval_job_insertion_in_route is carried out through InsertionHeuristic::process (apply_insertion_success + finalisation) and for every additive layer k: fitness_k(after) - fitness_k(before) == quote_k (1e-6 relative); the minimize-cost layer is asserted only when neither the tour before nor the tour after contains waiting time (else counted as outside the premise). For goals without the cost layer the fitness realised by the Any answer of a single-task job must be lexicographically <= the fitness realised by every accepted Concrete(p). A second sub-check (quote_on_long_tours_with_leg_sampling) builds tours of 30-90 activities (long-tour class, all but 1-6 jobs inserted) and evaluates the waiting jobs with LegSelection::Stochastic, where only a sample of the legs is looked at: the quote of whatever leg is answered must equal the realised change as well. evaluations = carried-out placements compared. Non-trivial: an inner position of a non-empty tour with a non-zero distance/cost quote, or a new tour. Distinct by (case hash, triple).",
        assumptions: vec![
            "matrices are time-independent (pgen generates no time-aware matrices)",
            "non-additive objectives listed in the anchors (work balance, compactness, fast service, arrival time) are outside the statement and not asserted",
        ],
        props: vec![Box::new(QuoteProp), Box::new(QuoteLongProp)],
        extra: None,
        required_classes: vec![
            "quote.layer_checked.Unassigned",
            "quote.layer_checked.Tours",
            "quote.layer_checked.Distance",
            "quote.layer_checked.Value",
            "quote.layer_checked.Cost",
            "quote.cost_layer.outside_premise_waiting_time",
            "quote.new_tour",
            "quote.inner_position_of_existing_tour",
            "quote.single_task",
            "quote.multi_task",
            "quote.open_tour",
            "quote.cheapest_compared_over_2plus_positions",
            "quote_long.tour_with_32plus_legs",
            "quote_long.tour_with_48plus_legs_always_sampled",
            "quote_long.single_task",
        ],
    }
}

#[allow(dead_code)]
fn _unused(_: &Single) {}
