//! C06, core-level sub-check: the evaluator against a step-by-step simulation on tours built through the core API, where
//! the candidate job's time windows may be `TimeSpan::Offset` (relative to the tour's departure) and the departure of the
//! tour was shifted after it was built. The pragmatic format cannot express that combination, the core API can.
//!
//! Domain: 3-6 points on a grid (Manhattan metric, time == distance), one closed vehicle shift (end location may differ
//! from the start), 0-4 existing jobs with at most one absolute window each (inserted one by one through the evaluator),
//! departure shifted by 0-200 through `update_route_departure`, then one candidate single-task job with 1-2 spans, each
//! absolute or offset. Goal: minimize-unassigned, transport (distance), capacity - the premise of the completeness clause.
//! Oracle: simulation written here (arrival = departure + travel, start = max(arrival, window start), windows of existing
//! activities held fixed, candidate spans resolved from the *job definition* and the *actual* departure):
//! soundness - every `Success` (Concrete(p) and Any) names a (leg, window) the simulation finds feasible;
//! completeness - if the simulation finds any feasible (leg, span), `Any` succeeds.

use crate::fw::*;
use proptest::prelude::*;
use serde::{Deserialize, Serialize};
use serde_json::json;
use std::sync::Arc;
use vrp_core::construction::enablers::update_route_departure;
use vrp_core::construction::features::JobDemandDimension;
use vrp_core::construction::heuristics::*;
use vrp_core::models::common::{TimeOffset, TimeSpan, TimeWindow};
use vrp_core::models::problem::{JobIdDimension, Place, Single};
use vrp_core::prelude::*;

#[derive(Clone, Debug, Serialize, Deserialize)]
pub struct SpanSpec {
    pub offset: bool,
    pub start: u16,
    pub len: u16,
}

#[derive(Clone, Debug, Serialize, Deserialize)]
pub struct CoreJobSpec {
    pub loc: u8,
    pub duration: u8,
    pub window: Option<(u16, u16)>,
}

#[derive(Clone, Debug, Serialize, Deserialize)]
pub struct CoreCase {
    pub points: Vec<(u8, u8)>,
    pub end_loc: u8,
    pub shift_end: u16,
    pub existing: Vec<CoreJobSpec>,
    pub shift_by: u8,
    pub cand_loc: u8,
    pub cand_duration: u8,
    pub cand_spans: Vec<SpanSpec>,
}

fn case_strategy() -> impl Strategy<Value = CoreCase> {
    let job = (0u8..6, prop_oneof![Just(0u8), Just(5), Just(10)], prop::option::weighted(0.6, (0u16..300, 5u16..300))).prop_map(|(loc, duration, window)| CoreJobSpec { loc, duration, window });
    let span = (any::<bool>(), 0u16..300, 0u16..200).prop_map(|(offset, start, len)| SpanSpec { offset, start, len });
    (
        prop::collection::vec((0u8..12, 0u8..12), 3..=6),
        0u8..6,
        200u16..1000,
        prop::collection::vec(job, 0..=4),
        prop_oneof![2 => Just(0u8), 5 => 1u8..200],
        0u8..6,
        prop_oneof![Just(0u8), Just(5), Just(10)],
        prop::collection::vec(span, 1..=2),
    )
        .prop_map(|(points, end_loc, shift_end, existing, shift_by, cand_loc, cand_duration, cand_spans)| CoreCase { points, end_loc, shift_end, existing, shift_by, cand_loc, cand_duration, cand_spans })
}

fn travel(points: &[(u8, u8)], a: usize, b: usize) -> Float {
    ((points[a].0 as i32 - points[b].0 as i32).abs() + (points[a].1 as i32 - points[b].1 as i32).abs()) as Float
}

fn spans_of(case: &CoreCase) -> Vec<TimeSpan> {
    case.cand_spans
        .iter()
        .map(|s| if s.offset { TimeSpan::Offset(TimeOffset::new(s.start as Float, (s.start + s.len) as Float)) } else { TimeSpan::Window(TimeWindow::new(s.start as Float, (s.start + s.len) as Float)) })
        .collect()
}

fn evaluate(ctx: &InsertionContext, job: &Job, position: InsertionPosition) -> Result<InsertionResult, Failure> {
    let leg_selection = LegSelection::Exhaustive;
    let result_selector = BestResultSelector::default();
    guard(|| {
        let eval_ctx = EvaluationContext { goal: &ctx.problem.goal, job, leg_selection: &leg_selection, result_selector: &result_selector };
        eval_job_insertion_in_route(ctx, &eval_ctx, ctx.solution.routes.first().unwrap(), position, InsertionResult::make_failure())
    })
    .map_err(|p| Failure::new(format!("core-insert:panic:{}", panic_site(&p)), p))
}

/// (location, duration, window) per stop; the tour is feasible iff every arrival is within its window end and the end is
/// reached within the shift
fn simulate(points: &[(u8, u8)], start: usize, end: usize, shift_end: Float, departure: Float, stops: &[(usize, Float, (Float, Float))]) -> bool {
    let mut time = departure;
    let mut at = start;
    for (loc, duration, (ws, we)) in stops.iter() {
        let arrival = time + travel(points, at, *loc);
        if arrival > *we + 1e-9 {
            return false;
        }
        time = arrival.max(*ws) + duration;
        at = *loc;
    }
    time + travel(points, at, end) <= shift_end + 1e-9
}

pub struct CoreOffsetProp;

impl Prop for CoreOffsetProp {
    type Case = CoreCase;
    fn name(&self) -> &'static str {
        "core_offset_windows_after_departure_shift"
    }
    fn strategy(&self, _tier: Tier) -> BoxedStrategy<CoreCase> {
        case_strategy().boxed()
    }
    fn cases(&self, tier: Tier) -> u32 {
        tier.pick(20_000, 400_000)
    }
    fn shards(&self, _tier: Tier) -> u32 {
        16
    }
    fn max_shrink_iters(&self) -> u32 {
        2000
    }
    fn check(&self, case: &CoreCase, stats: &Stats) -> Check {
        let n = case.points.len();
        let points = &case.points;
        let (start, end) = (0usize, case.end_loc as usize % n);
        let shift_end = case.shift_end as Float;
        let harness = |e: GenericError| Failure::new("harness:core-problem", format!("{e}"));

        let matrix: Vec<Float> = (0..n).flat_map(|a| (0..n).map(move |b| (a, b))).map(|(a, b)| travel(points, a, b)).collect();
        let transport: Arc<dyn TransportCost> = Arc::new(SimpleTransportCost::new(matrix.clone(), matrix).map_err(harness)?);
        let mut existing_jobs = vec![];
        for (i, j) in case.existing.iter().enumerate() {
            let b = SingleBuilder::default().id(&format!("e{i}")).demand(Demand::delivery(1)).duration(j.duration as Float).map_err(harness)?.location(j.loc as usize % n).map_err(harness)?;
            let b = match j.window {
                Some((s, l)) => b.times(vec![TimeWindow::new(s as Float, (s + l) as Float)]).map_err(harness)?,
                None => b,
            };
            existing_jobs.push(b.build_as_job().map_err(harness)?);
        }
        let candidate = {
            let mut dimens = Dimensions::default();
            dimens.set_job_id("cand".to_string());
            dimens.set_job_demand(Demand::delivery(1));
            Job::Single(Arc::new(Single { places: vec![Place { location: Some(case.cand_loc as usize % n), duration: case.cand_duration as Float, times: spans_of(case) }], dimens }))
        };
        let vehicle = VehicleBuilder::default()
            .id("v1")
            .add_detail(VehicleDetailBuilder::default().set_start_location(start).set_start_time(0.).set_end_location(end).set_end_time(shift_end).build().map_err(harness)?)
            .capacity(SingleDimLoad::new(100))
            .build()
            .map_err(harness)?;
        let goal = GoalContextBuilder::with_features(&[
            MinimizeUnassignedBuilder::new("min-unassigned").build().map_err(harness)?,
            TransportFeatureBuilder::new("min-distance").set_transport_cost(transport.clone()).build_minimize_distance().map_err(harness)?,
            CapacityFeatureBuilder::<SingleDimLoad>::new("capacity").build().map_err(harness)?,
        ])
        .map_err(harness)?
        .build()
        .map_err(harness)?;
        let problem = Arc::new(ProblemBuilder::default().add_jobs(existing_jobs.iter().cloned().chain(std::iter::once(candidate.clone()))).add_vehicles(std::iter::once(vehicle)).with_goal(goal).with_transport_cost(transport).build().map_err(harness)?);

        let mut ctx = InsertionContext::new_empty(problem.clone(), super::common::quiet_env(1, rosomaxa::utils::Parallelism::new(1, 1), None));
        let actor = ctx.solution.registry.next_route().next().unwrap().route().actor.clone();
        let route_ctx = ctx.solution.registry.get_route(&actor).unwrap();
        ctx.solution.routes.push(route_ctx);
        for job in existing_jobs.iter() {
            if let InsertionResult::Success(success) = evaluate(&ctx, job, InsertionPosition::Any)? {
                let route_ctx = ctx.solution.routes.first_mut().unwrap();
                for (activity, index) in success.activities {
                    route_ctx.route_mut().tour.insert_at(activity, index + 1);
                }
                problem.goal.accept_route_state(route_ctx);
            }
        }
        let new_departure = case.shift_by as Float;
        if case.shift_by > 0 {
            let route_ctx = ctx.solution.routes.first_mut().unwrap();
            update_route_departure(route_ctx, problem.activity.as_ref(), problem.transport.as_ref(), new_departure);
            problem.goal.accept_route_state(route_ctx);
        }
        let tour = &ctx.solution.routes.first().unwrap().route().tour;
        let departure = tour.start().unwrap().schedule.departure;
        let stops: Vec<(usize, Float, (Float, Float))> = tour.all_activities().filter(|a| a.job.is_some()).map(|a| (a.place.location, a.place.duration, (a.place.time.start, a.place.time.end))).collect();
        // premise: the tour the evaluator looks at is feasible (the shift is carried out unconditionally)
        if (departure - new_departure).abs() > 1e-9 && case.shift_by > 0 || !simulate(points, start, end, shift_end, departure, &stops) {
            stats.class("core.skipped.tour_infeasible_after_shift");
            return Ok(());
        }
        stats.class(&format!("core.tour_jobs.{}", stops.len()));
        if case.shift_by > 0 {
            stats.class("core.departure_shifted");
        }
        let has_offset = case.cand_spans.iter().any(|s| s.offset);
        if has_offset {
            stats.class("core.candidate_has_offset_span");
        }
        // candidate spans from the job definition and the actual departure
        let windows: Vec<(Float, Float)> = spans_of(case).iter().map(|s| { let w = s.to_time_window(departure); (w.start, w.end) }).collect();
        let cand = |w: (Float, Float)| (case.cand_loc as usize % n, case.cand_duration as Float, w);
        let feasible = |p: usize, w: (Float, Float)| {
            let mut s = stops.clone();
            s.insert(p, cand(w));
            simulate(points, start, end, shift_end, departure, &s)
        };
        let feasible_set: Vec<(usize, usize)> = (0..=stops.len()).flat_map(|p| (0..windows.len()).map(move |w| (p, w))).filter(|(p, w)| feasible(*p, windows[*w])).collect();
        let what = || format!("case {} | departure {departure}, tour stops (loc, duration, window) {stops:?}, candidate loc {} duration {} windows {windows:?} (spans {:?}), feasible (leg, span) pairs {feasible_set:?}", serde_json::to_string(case).unwrap_or_default(), case.cand_loc as usize % n, case.cand_duration, case.cand_spans);

        let mut judge = |result: InsertionResult, pos: Option<usize>| -> Check {
            stats.eval();
            if let InsertionResult::Success(success) = result {
                let (activity, index) = &success.activities[0];
                let w = (activity.place.time.start, activity.place.time.end);
                if let Some(p) = pos {
                    ensure!(*index == p, "core-insert:position-ignored", "Concrete({p}) answered with leg {index}: {}", what());
                }
                ensure!(windows.iter().any(|x| (x.0 - w.0).abs() < 1e-9 && (x.1 - w.1).abs() < 1e-9), "core-insert:window-not-of-the-job", "accepted activity carries window {w:?} which is none of the job's windows for this departure: {}", what());
                ensure!(feasible(*index, w), "core-insert:accepts-infeasible", "evaluator accepted leg {index} with window {w:?}, the simulation finds it infeasible: {}", what());
            }
            Ok(())
        };
        for p in 0..=stops.len() {
            let r = evaluate(&ctx, &candidate, InsertionPosition::Concrete(p))?;
            judge(r, Some(p))?;
        }
        let any = evaluate(&ctx, &candidate, InsertionPosition::Any)?;
        let any_ok = matches!(any, InsertionResult::Success(_));
        judge(any, None)?;
        ensure!(feasible_set.is_empty() || any_ok, "core-insert:misses-feasible", "the simulation finds feasible placements but exhaustive best insertion reports failure: {}", what());
        let total = (stops.len() + 1) * windows.len();
        if !feasible_set.is_empty() && feasible_set.len() < total && case.shift_by > 0 && has_offset {
            stats.class("nontrivial");
            stats.nontrivial(hash_of(&format!("{case:?}")));
        }
        stats.sample(2, || json!({"kind": "core_offset_windows_after_departure_shift", "tour_jobs": stops.len(), "departure": departure, "candidate_spans": case.cand_spans, "feasible_pairs": feasible_set.len(), "of": total}));
        Ok(())
    }
}
