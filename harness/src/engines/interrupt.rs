//! C07: interrupting the solver at any poll point still yields a valid solution (crash-point enumeration).

use super::common::*;
use super::e2e::{read_core, tolerance};
use super::pgen::*;
use super::refmodel::{self};
use crate::fw::*;
use proptest::prelude::*;
use rosomaxa::evolution::TelemetryMode;
use rosomaxa::prelude::*;
use rosomaxa::utils::Parallelism;
use serde::{Deserialize, Serialize};
use serde_json::json;
use std::io::{BufReader, BufWriter};
use std::sync::Arc;
use std::sync::atomic::{AtomicU64, Ordering};
use vrp_core::models::Problem as CoreProblem;
use vrp_core::solver::{Solver, VrpConfigBuilder, get_dynamic_heuristic, get_static_heuristic};
use vrp_pragmatic::format::solution::{PragmaticOutputType, deserialize_solution, write_pragmatic};

/// Quota that turns true at its `fire_at`-th poll (0-based) and stays true.
pub struct KQuota {
    polls: AtomicU64,
    fire_at: u64,
}

impl KQuota {
    pub fn new(fire_at: u64) -> Self {
        Self { polls: AtomicU64::new(0), fire_at }
    }
    pub fn polls(&self) -> u64 {
        self.polls.load(Ordering::SeqCst)
    }
}

impl Quota for KQuota {
    fn is_reached(&self) -> bool {
        let n = self.polls.fetch_add(1, Ordering::SeqCst);
        n >= self.fire_at
    }
}

#[derive(Clone, Debug, Serialize, Deserialize)]
pub struct IntCase {
    pub spec: ProblemSpec,
    pub hyper: u8,
    pub max_generations: u8,
    pub pools: u8,
    pub threads: u8,
    pub seed: u64,
    /// extra poll indices (as fractions of N in 1/65536) beyond the exhaustive prefix
    pub extra: Vec<u16>,
}

pub struct IntProp;

pub struct RunOutcome {
    pub polls: u64,
    pub generations: Option<usize>,
    pub text: Result<String, String>,
}

pub fn run_with_quota(core: Arc<CoreProblem>, hyper: u8, max_generations: usize, pools: usize, threads: usize, seed: u64, fire_at: u64) -> Result<RunOutcome, Failure> {
    let quota = Arc::new(KQuota::new(fire_at));
    let env = Arc::new(Environment::new(Arc::new(SeededRandom::new(seed)), Some(quota.clone()), Parallelism::new(pools, threads), quiet_logger(), false));
    let res = guard(|| {
        let mut builder = VrpConfigBuilder::new(core.clone()).set_environment(env.clone()).set_telemetry_mode(TelemetryMode::OnlyMetrics { track_population: 1000 });
        builder = match hyper % 3 {
            0 => builder,
            1 => builder.set_heuristic(Box::new(get_static_heuristic(core.clone(), env.clone()))),
            _ => builder.set_heuristic(Box::new(get_dynamic_heuristic(core.clone(), env.clone()))),
        };
        let config = builder.prebuild()?.with_max_generations(Some(max_generations)).build()?;
        let solution = Solver::new(core.clone(), config).solve()?;
        let generations = solution.telemetry.as_ref().map(|t| t.generations);
        let mut writer = BufWriter::new(Vec::new());
        write_pragmatic(core.as_ref(), &solution, PragmaticOutputType::default(), &mut writer).map_err(|e| format!("cannot write solution: {e}"))?;
        let bytes = writer.into_inner().map_err(|e| format!("{e}"))?;
        Ok::<_, GenericError>((generations, String::from_utf8(bytes).map_err(|e| format!("{e}"))?))
    });
    match res {
        Ok(Ok((generations, text))) => Ok(RunOutcome { polls: quota.polls(), generations, text: Ok(text) }),
        Ok(Err(e)) => Ok(RunOutcome { polls: quota.polls(), generations: None, text: Err(format!("{e}")) }),
        Err(p) => Err(Failure::new(format!("interrupted:panic:{}", panic_site(&p)), format!("solver panicked with quota firing at poll {fire_at}: {p}"))),
    }
}

impl Prop for IntProp {
    type Case = IntCase;
    fn name(&self) -> &'static str {
        "quota_poll_points"
    }
    fn strategy(&self, tier: Tier) -> BoxedStrategy<IntCase> {
        (problem_spec(tier.pick(9, 16)), 0u8..3, 1u8..=tier.pick(12, 40), 1u8..=2, 1u8..=3, any::<u64>(), prop::collection::vec(any::<u16>(), tier.pick(6, 24)))
            .prop_map(|(spec, hyper, max_generations, pools, threads, seed, extra)| IntCase { spec, hyper, max_generations, pools, threads, seed, extra })
            .boxed()
    }
    fn cases(&self, tier: Tier) -> u32 {
        tier.pick(800, 8_000)
    }
    fn shards(&self, _tier: Tier) -> u32 {
        16
    }
    fn max_shrink_iters(&self) -> u32 {
        60
    }
    fn check(&self, c: &IntCase, stats: &Stats) -> Check {
        let rendered = render(&c.spec);
        let core = read_core(&rendered.problem, &rendered.matrices).map_err(|e| Failure::new("harness:generator-invalid", format!("generated problem was rejected: {e}")))?;
        let l = c.max_generations as usize;
        let (pools, threads) = (c.pools as usize, c.threads as usize);
        // 1. uninterrupted run: number of polls N
        let base = run_with_quota(core.clone(), c.hyper, l, pools, threads, c.seed, u64::MAX)?;
        let n = base.polls;
        // 2. poll indices: exhaustive prefix + samples over the rest
        let prefix = 24u64.min(n);
        let mut ks: Vec<u64> = (0..=prefix).collect();
        for e in c.extra.iter() {
            if n > prefix {
                ks.push(prefix + 1 + ((*e as u64) * (n - prefix)) / 65536);
            }
        }
        ks.sort();
        ks.dedup();
        ks.push(u64::MAX); // the uninterrupted run is judged too
        let tol = tolerance(&rendered.problem);
        for k in ks {
            let out = if k == u64::MAX { RunOutcome { polls: base.polls, generations: base.generations, text: base.text.clone() } } else { run_with_quota(core.clone(), c.hyper, l, pools, threads, c.seed, k)? };
            stats.eval();
            let text = match out.text {
                Ok(t) => t,
                Err(e) => return Err(Failure::new("interrupted:error", format!("solver returned Err with quota firing at poll {k} of ~{n}: {e}"))),
            };
            let solution = deserialize_solution(BufReader::new(text.as_bytes())).map_err(|e| Failure::new("interrupted:unparsable-solution", format!("{e}")))?;
            if let Some(g) = out.generations {
                // zero-based convention pinned by the repository's own unit test: reported generations <= L
                ensure!(g <= l, "interrupted:generations-above-limit", "reported {g} generations with maxGenerations {l} (quota at poll {k})");
            }
            let verdict = refmodel::evaluate(&rendered.problem, &rendered.matrices, &solution, tol);
            let findings = verdict
                .findings
                .iter()
                .filter(|f| {
                    let kind = match f.prop {
                        refmodel::Prop::Feasibility => "feasibility",
                        refmodel::Prop::Conservation => "conservation",
                        refmodel::Prop::Reporting => "reporting",
                    };
                    let sig = format!("{kind}:{}", f.rule);
                    if kind == "feasibility" && super::e2e::known_nonmetric("C07", &rendered, &f.rule, stats) {
                        return false;
                    }
                    // findings already recorded as open for C01-C03 are the same defects seen through C07
                    let known = known_open("C07", &sig);
                    if known {
                        stats.known_hit(&sig);
                    }
                    !known
                })
                .collect::<Vec<_>>();
            if let Some(f) = findings.first() {
                let kind = match f.prop {
                    refmodel::Prop::Feasibility => "feasibility",
                    refmodel::Prop::Conservation => "conservation",
                    refmodel::Prop::Reporting => "reporting",
                };
                return Err(Failure::new(
                    format!("interrupted:{kind}:{}", f.rule),
                    format!("quota firing at poll {k} of ~{n} (maxGenerations {l}, hyper {}, {pools}x{threads} threads): [{}] {}\n--- problem+matrices:\n{}\n--- solution:\n{}", c.hyper, f.rule, f.detail, json!({"problem": rendered.problem, "matrices": rendered.matrices}), text.chars().filter(|c| !c.is_whitespace()).collect::<String>()),
                ));
            }
            let assigned = !solution.tours.is_empty();
            let unassigned = solution.unassigned.as_ref().is_some_and(|u| !u.is_empty());
            if k != u64::MAX && k > 0 && k < n {
                stats.class("interrupted.strictly_inside_run");
                if assigned && unassigned {
                    stats.nontrivial(mix(hash_of(&format!("{c:?}")), k));
                    stats.class("interrupted.partial_solution_assigned_and_unassigned");
                }
                if out.generations.is_some_and(|g| g >= 1) {
                    stats.nontrivial(mix(hash_of(&format!("{c:?}")), k));
                    stats.class("interrupted.after_first_generation");
                }
                if !assigned {
                    stats.class("interrupted.nothing_assigned_yet");
                }
            }
            if k == 0 {
                stats.class("interrupted.before_construction");
            }
        }
        stats.class_max("max_polls_of_uninterrupted_run", n);
        stats.class(&format!("hyper.{}", c.hyper % 3));
        stats.class(if pools * threads == 1 { "threads.single" } else { "threads.multi" });
        stats.sample(2, || json!({"kind": "quota_poll_points", "features": rendered.info.features, "jobs": rendered.problem.plan.jobs.len(), "maxGenerations": l, "polls_uninterrupted": n, "hyper": c.hyper % 3, "layout": format!("{pools}x{threads}")}));
        Ok(())
    }
}

pub fn property(_tier: Tier) -> PropertyDef {
    PropertyDef {
        id: "C07",
        level: "fault_enumeration",
        rule: "crash-point enumeration: for each generated problem (pgen, <=9 jobs quick / 16 thorough) and solver setup (default / static / dynamic hyper-heuristic, maxGenerations 1-12 (thorough 40), 1-2 pools x 1-3 threads) a counting Quota (public trait) first measures the number N of quota polls of an uninterrupted run, then the solve is repeated with the quota turning true at its k-th poll and staying true for ALL k in 0..=min(N,24) plus 6 (thorough 24) sampled k up to N; every run must return Ok, the written solution must pass the C01-C03 oracles of the reference model R (unplaced work listed as unassigned), and the reported generation count must be <= maxGenerations. evaluations = interrupted solves judged. Non-trivial: 0<k<N and (the solution has both assigned and unassigned jobs, or at least one generation completed). Distinct by (case hash, k).",
        assumptions: vec![
            "poll index k is exact for single-thread layouts; with several threads the k-th poll is schedule dependent (sampled)",
            "wall-clock maxTime termination is not enumerated; the poll-index enumeration is its deterministic substitute",
            "generation bound uses the repository's zero-based convention (reported generations <= L), pinned by its own unit test",
            "open findings recorded for C01-C03 are excluded by signature (they are the same defects observed through C07)",
        ],
        props: vec![Box::new(IntProp)],
        extra: None,
        required_classes: vec!["interrupted.strictly_inside_run", "interrupted.partial_solution_assigned_and_unassigned", "interrupted.after_first_generation", "interrupted.before_construction", "interrupted.nothing_assigned_yet", "threads.single", "threads.multi", "hyper.0", "hyper.1", "hyper.2"],
    }
}
