use crate::fw::{PropertyDef, Tier};

pub mod common;
pub mod model;
pub mod algos;
pub mod order;
pub mod routing;

pub fn property(id: &str, tier: Tier) -> Option<PropertyDef> {
    match id {
        "C14" => Some(model::property(tier)),
        "C09" => Some(order::property(tier)),
        "C16" => Some(routing::property(tier)),
        "C17" => Some(algos::property(tier)),
        _ => None,
    }
}
