use crate::fw::{PropertyDef, Tier};

pub mod common;
pub mod model;

pub fn property(id: &str, tier: Tier) -> Option<PropertyDef> {
    match id {
        "C14" => Some(model::property(tier)),
        _ => None,
    }
}
