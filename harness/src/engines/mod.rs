use crate::fw::{PropertyDef, Tier};

pub mod checker;
pub mod common;
pub mod e2e;
pub mod fuzzing;
pub mod ext;
pub mod pgen;
pub mod refmodel;
pub mod relgen;
pub mod gsom;
pub mod insert;
pub mod insert_core;
pub mod interrupt;
pub mod model;
pub mod numerics;
pub mod algos;
pub mod ops;
pub mod order;
pub mod parallel;
pub mod population;
pub mod roundtrip;
pub mod routing;
pub mod scientific;
pub mod seeded;
pub mod validate;

pub fn property(id: &str, tier: Tier) -> Option<PropertyDef> {
    match id {
        "C01" => Some(e2e::property("C01", tier)),
        "C02" => Some(e2e::property("C02", tier)),
        "C03" => Some(e2e::property("C03", tier)),
        "C10" => Some(validate::property(tier)),
        "C11" => Some(roundtrip::property(tier)),
        "C12" => Some(checker::property(tier)),
        "C13" => Some(scientific::property(tier)),
        "C14" => Some(model::property(tier)),
        "C04" => Some(ops::property("C04", tier)),
        "C05" => Some(ops::property("C05", tier)),
        "C06" => Some(insert::property_c06(tier)),
        "C20" => Some(insert::property_c20(tier)),
        "C07" => Some(interrupt::property(tier)),
        "C08" => Some(population::property(tier)),
        "C09" => Some(order::property(tier)),
        "C15" => Some(parallel::property(tier)),
        "C16" => Some(routing::property(tier)),
        "C17" => Some(algos::property(tier)),
        "C18" => Some(numerics::property(tier)),
        "C19" => Some(gsom::property(tier)),
        _ => None,
    }
}
