//! C14: reference-model comparison for Tour, Registry, RegistryContext, RouteContext.

use super::common::*;
use crate::fw::*;
use proptest::prelude::*;
use serde::{Deserialize, Serialize};
use serde_json::json;
use std::collections::{BTreeSet, HashSet};
use std::sync::Arc;
use vrp_core::construction::heuristics::{RegistryContext, RouteContext};
use vrp_core::models::common::*;
use vrp_core::models::problem::*;
use vrp_core::models::solution::{Activity, Place as APlace, Registry, Tour};
use vrp_core::models::{GoalContext, GoalContextBuilder};
use vrp_core::prelude::MinimizeUnassignedBuilder;

// =============================================================================================
// Tour
// =============================================================================================

#[derive(Clone, Debug, Serialize, Deserialize)]
pub enum TourOp {
    /// insert sub-job `single` at relative position `pos`
    InsertAt { single: u16, pos: u16 },
    InsertLast { single: u16 },
    Remove { job: u16 },
    RemoveActivityAt { pos: u16 },
    /// deep copy; the following ops go to the copy, the original is checked for independence
    SwitchToCopy,
    /// deep copy; the following ops go to the original, the copy is checked for independence
    KeepCopy,
}

#[derive(Clone, Debug, Serialize, Deserialize)]
pub struct TourCase {
    pub closed: bool,
    pub singles: u8,
    /// sizes of multi jobs (2..=3 sub-jobs each)
    pub multis: Vec<u8>,
    pub ops: Vec<TourOp>,
}

pub struct TourProp {
    pub exhaustive_small: bool,
}

fn tour_op() -> impl Strategy<Value = TourOp> {
    prop_oneof![
        5 => (any::<u16>(), any::<u16>()).prop_map(|(single, pos)| TourOp::InsertAt { single, pos }),
        2 => any::<u16>().prop_map(|single| TourOp::InsertLast { single }),
        3 => any::<u16>().prop_map(|job| TourOp::Remove { job }),
        2 => any::<u16>().prop_map(|pos| TourOp::RemoveActivityAt { pos }),
        1 => Just(TourOp::SwitchToCopy),
        1 => Just(TourOp::KeepCopy),
    ]
}

struct Universe {
    /// all singles (standalone first, then sub-jobs of multis)
    singles: Vec<Arc<Single>>,
    /// job index per single
    job_of: Vec<usize>,
    jobs: Vec<Job>,
}

fn build_universe(singles: u8, multis: &[u8]) -> Universe {
    let mut all_singles = vec![];
    let mut job_of = vec![];
    let mut jobs = vec![];
    for i in 0..singles {
        let s = simple_single(&format!("s{i}"), i as usize + 1);
        jobs.push(Job::Single(s.clone()));
        job_of.push(jobs.len() - 1);
        all_singles.push(s);
    }
    for (m, size) in multis.iter().enumerate() {
        let subs = (0..(*size).clamp(2, 3))
            .map(|k| {
                Single {
                    places: vec![Place {
                        location: Some(10 + m * 4 + k as usize),
                        duration: 1.,
                        times: vec![TimeSpan::Window(TimeWindow::max())],
                    }],
                    dimens: Default::default(),
                }
            })
            .collect::<Vec<_>>();
        let mut builder = MultiBuilder::default().id(&format!("m{m}"));
        for s in subs {
            builder = builder.add_job(s);
        }
        let multi = builder.build().expect("multi");
        jobs.push(Job::Multi(multi.clone()));
        for s in multi.jobs.iter() {
            job_of.push(jobs.len() - 1);
            all_singles.push(s.clone());
        }
    }
    Universe { singles: all_singles, job_of, jobs }
}

#[derive(Clone, Debug, PartialEq)]
struct TourModel {
    closed: bool,
    /// (single index, unique activity id)
    acts: Vec<(usize, usize)>,
}

/// Full observation of a tour through its public API, rendered into comparable plain data.
#[derive(Debug, PartialEq, Clone)]
struct TourObs {
    total: usize,
    job_activity_count: usize,
    job_count: usize,
    has_jobs: bool,
    /// per activity: None for depot, Some((single idx, uid)) for job activity
    seq: Vec<Option<(usize, usize)>>,
    jobs: BTreeSet<usize>,
    per_job: Vec<(bool, bool, Option<usize>, Option<usize>, usize)>,
    legs: Vec<(Vec<usize>, usize)>,
    start_ok: bool,
    end_ok: bool,
    end_idx: Option<usize>,
}

fn observe_tour(tour: &Tour, u: &Universe) -> TourObs {
    let single_idx = |a: &Activity| -> Option<(usize, usize)> {
        a.job.as_ref().map(|s| {
            let idx = u.singles.iter().position(|x| Arc::ptr_eq(x, s)).expect("known single");
            (idx, a.place.location)
        })
    };
    let job_idx = |j: &Job| u.jobs.iter().position(|x| x == j).expect("known job");
    let seq = tour.all_activities().map(single_idx).collect::<Vec<_>>();
    // Index / get / activities_slice agree with iteration
    for i in 0..tour.total() {
        let via_get = tour.get(i).map(|a| a.place.location);
        let via_index = tour[i].place.location;
        let via_iter = tour.all_activities().nth(i).map(|a| a.place.location);
        assert!(via_get == via_iter && Some(via_index) == via_iter, "get/index/iter disagree at {i}");
    }
    if tour.total() > 0 {
        let slice = tour.activities_slice(0, tour.total() - 1);
        assert_eq!(slice.len(), tour.total(), "activities_slice length");
    }
    assert!(tour.get(tour.total()).is_none(), "get past the end must be None");
    TourObs {
        total: tour.total(),
        job_activity_count: tour.job_activity_count(),
        job_count: tour.job_count(),
        has_jobs: tour.has_jobs(),
        jobs: tour.jobs().map(job_idx).collect(),
        per_job: u
            .jobs
            .iter()
            .map(|j| (tour.contains(j), tour.has_job(j), tour.index(j), tour.index_last(j), tour.job_activities(j).count()))
            .collect(),
        legs: tour.legs().map(|(acts, idx)| (acts.iter().map(|a| a.place.location).collect(), idx)).collect(),
        start_ok: tour.start().is_some_and(|a| a.job.is_none() && a.place.location == 0),
        end_ok: tour.end().is_some(),
        end_idx: tour.end_idx(),
        seq,
    }
}

fn expected_obs(m: &TourModel, u: &Universe) -> TourObs {
    let mut seq: Vec<Option<(usize, usize)>> = vec![None];
    seq.extend(m.acts.iter().map(|a| Some(*a)));
    if m.closed {
        seq.push(None);
    }
    let locs: Vec<usize> = {
        let mut v = vec![0usize];
        v.extend(m.acts.iter().map(|a| a.1));
        if m.closed {
            v.push(DEPOT_END);
        }
        v
    };
    let jobs: BTreeSet<usize> = m.acts.iter().map(|(s, _)| u.job_of[*s]).collect();
    let n = seq.len();
    let mut legs: Vec<(Vec<usize>, usize)> = vec![];
    if n == 1 {
        legs.push((vec![locs[0]], 0));
    } else {
        for i in 0..n - 1 {
            legs.push((vec![locs[i], locs[i + 1]], i));
        }
        if !m.closed {
            legs.push((vec![locs[n - 1]], n - 1));
        }
    }
    let per_job = (0..u.jobs.len())
        .map(|j| {
            let positions =
                seq.iter().enumerate().filter(|(_, a)| a.is_some_and(|(s, _)| u.job_of[s] == j)).map(|(i, _)| i).collect::<Vec<_>>();
            (jobs.contains(&j), jobs.contains(&j), positions.first().copied(), positions.last().copied(), positions.len())
        })
        .collect();
    TourObs {
        total: n,
        job_activity_count: m.acts.len(),
        job_count: jobs.len(),
        has_jobs: !jobs.is_empty(),
        seq,
        jobs,
        per_job,
        legs,
        start_ok: true,
        end_ok: true,
        end_idx: Some(n - 1),
    }
}

const DEPOT_END: usize = 999_999;

fn diff_obs(a: &TourObs, b: &TourObs) -> String {
    let mut parts = vec![];
    macro_rules! f {
        ($name:ident) => {
            if a.$name != b.$name {
                parts.push(format!("{}: impl={:?} model={:?}", stringify!($name), a.$name, b.$name));
            }
        };
    }
    f!(total);
    f!(job_activity_count);
    f!(job_count);
    f!(has_jobs);
    f!(seq);
    f!(jobs);
    f!(per_job);
    f!(legs);
    f!(start_ok);
    f!(end_ok);
    f!(end_idx);
    parts.join("; ")
}

fn make_activity(u: &Universe, single: usize, uid: usize) -> Activity {
    Activity {
        place: APlace { idx: 0, location: uid, duration: 1., time: TimeWindow::max() },
        schedule: Schedule::new(0., 0.),
        job: Some(u.singles[single].clone()),
        commute: None,
    }
}

pub fn check_tour_case(case: &TourCase, stats: &Stats) -> Check {
    let u = build_universe(case.singles.max(1), &case.multis);
    let vehicle = simple_vehicle("v", 0, 0, case.closed.then_some(DEPOT_END));
    let fleet = Fleet::new(vec![empty_driver()], vec![vehicle], |_| |_| 0);
    let actor = fleet.actors[0].clone();

    let mut tour = Tour::new(&actor);
    let mut model = TourModel { closed: case.closed, acts: vec![] };
    // the "other side" of a copy whose independence is being checked
    let mut shadow: Option<(Tour, TourObs)> = None;
    let mut uid = 1000usize;
    let (mut removed_multi, mut reinserted, mut copied) = (false, false, false);
    let mut ever_removed: HashSet<usize> = HashSet::new();

    let obs = observe_tour(&tour, &u);
    let exp = expected_obs(&model, &u);
    ensure!(obs == exp, "tour:initial", "fresh tour differs from model: {}", diff_obs(&obs, &exp));

    for (step, op) in case.ops.iter().enumerate() {
        match op {
            TourOp::InsertAt { single, pos } => {
                let s = pick_idx(*single, u.singles.len());
                let at = 1 + pick_idx(*pos, model.acts.len() + 1);
                uid += 1;
                if ever_removed.contains(&u.job_of[s]) {
                    reinserted = true;
                }
                tour.insert_at(make_activity(&u, s, uid), at);
                model.acts.insert(at - 1, (s, uid));
            }
            TourOp::InsertLast { single } => {
                let s = pick_idx(*single, u.singles.len());
                uid += 1;
                if ever_removed.contains(&u.job_of[s]) {
                    reinserted = true;
                }
                tour.insert_last(make_activity(&u, s, uid));
                model.acts.push((s, uid));
            }
            TourOp::Remove { job } => {
                let j = pick_idx(*job, u.jobs.len());
                let present = model.acts.iter().any(|(s, _)| u.job_of[*s] == j);
                let res = tour.remove(&u.jobs[j]);
                ensure!(res == present, "tour:remove-result", "step {step}: remove returned {res}, model says present={present}");
                if present {
                    ever_removed.insert(j);
                    if matches!(u.jobs[j], Job::Multi(_)) {
                        removed_multi = true;
                    }
                }
                model.acts.retain(|(s, _)| u.job_of[*s] != j);
            }
            TourOp::RemoveActivityAt { pos } => {
                if model.acts.is_empty() {
                    continue;
                }
                let at = 1 + pick_idx(*pos, model.acts.len());
                let j = u.job_of[model.acts[at - 1].0];
                let job = tour.remove_activity_at(at);
                ensure!(job == u.jobs[j], "tour:remove-activity-job", "step {step}: remove_activity_at({at}) returned another job");
                ever_removed.insert(j);
                if matches!(u.jobs[j], Job::Multi(_)) {
                    removed_multi = true;
                }
                model.acts.retain(|(s, _)| u.job_of[*s] != j);
            }
            TourOp::SwitchToCopy => {
                let copy = tour.deep_copy();
                let before = observe_tour(&tour, &u);
                let old = std::mem::replace(&mut tour, copy);
                shadow = Some((old, before));
                copied = true;
            }
            TourOp::KeepCopy => {
                let copy = tour.deep_copy();
                let before = observe_tour(&copy, &u);
                ensure!(before == observe_tour(&tour, &u), "tour:copy-differs", "step {step}: deep copy observes differently");
                shadow = Some((copy, before));
                copied = true;
            }
        }
        let obs = observe_tour(&tour, &u);
        let exp = expected_obs(&model, &u);
        ensure!(obs == exp, "tour:model-mismatch", "step {step} {op:?}: {}", diff_obs(&obs, &exp));
        if let Some((other, before)) = shadow.as_ref() {
            let now = observe_tour(other, &u);
            ensure!(&now == before, "tour:copy-not-independent", "step {step} {op:?}: other side of deep copy changed: {}", diff_obs(&now, before));
        }
    }

    stats.eval();
    if removed_multi || reinserted {
        stats.nontrivial(hash_of(&format!("{case:?}")));
    }
    if removed_multi {
        stats.class("tour.removed_multi");
    }
    if reinserted {
        stats.class("tour.reinserted");
    }
    if copied {
        stats.class("tour.copied");
    }
    stats.class(if case.closed { "tour.closed" } else { "tour.open" });
    stats.sample(2, || json!({"kind": "tour", "closed": case.closed, "singles": case.singles, "multis": case.multis, "ops": format!("{:?}", case.ops)}));
    Ok(())
}

impl Prop for TourProp {
    type Case = TourCase;
    fn name(&self) -> &'static str {
        if self.exhaustive_small { "tour_small" } else { "tour" }
    }
    fn strategy(&self, _tier: Tier) -> BoxedStrategy<TourCase> {
        let (max_ops, singles, multis) = if self.exhaustive_small { (6usize, 1u8..=2, 0usize..=1) } else { (40usize, 1u8..=4, 0usize..=2) };
        (any::<bool>(), singles, prop::collection::vec(2u8..=3, multis), prop::collection::vec(tour_op(), 0..=max_ops))
            .prop_map(|(closed, singles, multis, ops)| TourCase { closed, singles, multis, ops })
            .boxed()
    }
    fn cases(&self, tier: Tier) -> u32 {
        tier.pick(20_000, 600_000)
    }
    fn shards(&self, _tier: Tier) -> u32 {
        8
    }
    fn check(&self, case: &TourCase, stats: &Stats) -> Check {
        check_tour_case(case, stats)
    }
}

// =============================================================================================
// Registry / RegistryContext
// =============================================================================================

#[derive(Clone, Debug, Serialize, Deserialize)]
pub enum RegOp {
    Use(u16),
    Free(u16),
    Next,
    DeepCopySwitch,
    DeepCopyKeep,
    /// slice by actor bitmask, continue on the slice
    DeepSliceSwitch(u8),
    // RegistryContext only:
    GetRoute(u16),
    UseRoute(u16),
    FreeRoute(u16),
}

#[derive(Clone, Debug, Serialize, Deserialize)]
pub struct RegCase {
    /// group id per actor (1..=6 actors)
    pub groups: Vec<u8>,
    pub context: bool,
    pub seed: u64,
    pub ops: Vec<RegOp>,
}

pub struct RegistryProp;

fn reg_op(context: bool) -> BoxedStrategy<RegOp> {
    if context {
        prop_oneof![
            4 => any::<u16>().prop_map(RegOp::GetRoute),
            2 => any::<u16>().prop_map(RegOp::UseRoute),
            4 => any::<u16>().prop_map(RegOp::FreeRoute),
            2 => Just(RegOp::Next),
            1 => Just(RegOp::DeepCopySwitch),
            1 => Just(RegOp::DeepCopyKeep),
            1 => any::<u8>().prop_map(RegOp::DeepSliceSwitch),
        ]
        .boxed()
    } else {
        prop_oneof![
            4 => any::<u16>().prop_map(RegOp::Use),
            4 => any::<u16>().prop_map(RegOp::Free),
            2 => Just(RegOp::Next),
            1 => Just(RegOp::DeepCopySwitch),
            1 => Just(RegOp::DeepCopyKeep),
            1 => any::<u8>().prop_map(RegOp::DeepSliceSwitch),
        ]
        .boxed()
    }
}

fn minimal_goal() -> GoalContext {
    let f = MinimizeUnassignedBuilder::new("min-unassigned").build().expect("feature");
    GoalContextBuilder::with_features(&[f]).expect("goal builder").build().expect("goal")
}

enum Reg {
    Plain(Registry),
    Ctx(RegistryContext),
}

impl Reg {
    fn registry(&self) -> &Registry {
        match self {
            Reg::Plain(r) => r,
            Reg::Ctx(c) => c.resources(),
        }
    }
    fn deep_copy(&self) -> Reg {
        match self {
            Reg::Plain(r) => Reg::Plain(r.deep_copy()),
            Reg::Ctx(c) => Reg::Ctx(c.deep_copy()),
        }
    }
}

#[derive(Clone, Debug, PartialEq)]
struct RegModel {
    /// actors known to this registry (slices shrink it)
    known: BTreeSet<usize>,
    available: BTreeSet<usize>,
}

fn observe_reg(reg: &Reg, actors: &[Arc<Actor>]) -> (BTreeSet<usize>, BTreeSet<usize>) {
    let idx = |a: &Arc<Actor>| actors.iter().position(|x| Arc::ptr_eq(x, a)).expect("known actor");
    let r = reg.registry();
    (r.all().map(|a| idx(&a)).collect(), r.available().map(|a| idx(&a)).collect())
}

pub fn check_reg_case(case: &RegCase, stats: &Stats) -> Check {
    let n = case.groups.len().clamp(1, 6);
    let vehicles = (0..n).map(|i| simple_vehicle(&format!("v{i}"), 0, 0, Some(0))).collect::<Vec<_>>();
    let groups = case.groups.clone();
    let fleet = Fleet::new(vec![empty_driver()], vehicles.clone(), move |actors| {
        let ptrs = actors.iter().map(|a| Arc::as_ptr(a) as usize).collect::<Vec<_>>();
        let groups = groups.clone();
        move |actor: &Actor| {
            let p = actor as *const Actor as usize;
            let i = ptrs.iter().position(|x| *x == p).unwrap_or(0);
            (groups[i] % 3) as usize
        }
    });
    let actors = fleet.actors.clone();
    let group_of = |i: usize| (case.groups[i] % 3) as usize;
    let random = Arc::new(SeededRandom::new(case.seed));
    let registry = Registry::new(&fleet, random);
    let goal = minimal_goal();
    let mut reg = if case.context { Reg::Ctx(RegistryContext::new(&goal, registry)) } else { Reg::Plain(registry) };
    let mut model = RegModel { known: (0..n).collect(), available: (0..n).collect() };
    let mut shadow: Option<(Reg, (BTreeSet<usize>, BTreeSet<usize>))> = None;
    let (mut double_use, mut double_free, mut sliced, mut copied) = (false, false, false, false);

    for (step, op) in case.ops.iter().enumerate() {
        match op {
            RegOp::Use(i) | RegOp::UseRoute(i) => {
                let i = pick_idx(*i, n);
                let expected = model.known.contains(&i) && model.available.contains(&i);
                if model.known.contains(&i) && !expected {
                    double_use = true;
                }
                let res = match &mut reg {
                    Reg::Plain(r) => r.use_actor(&actors[i]),
                    Reg::Ctx(c) => c.use_route(&RouteContext::new(actors[i].clone())),
                };
                ensure!(res == expected, "registry:use-result", "step {step} {op:?}: returned {res}, model {expected}");
                model.available.remove(&i);
            }
            RegOp::Free(i) | RegOp::FreeRoute(i) => {
                let i = pick_idx(*i, n);
                let expected = model.known.contains(&i) && !model.available.contains(&i);
                if model.known.contains(&i) && !expected {
                    double_free = true;
                }
                let res = match &mut reg {
                    Reg::Plain(r) => r.free_actor(&actors[i]),
                    Reg::Ctx(c) => c.free_route(RouteContext::new(actors[i].clone())),
                };
                ensure!(res == expected, "registry:free-result", "step {step} {op:?}: returned {res}, model {expected}");
                if model.known.contains(&i) {
                    model.available.insert(i);
                }
            }
            RegOp::GetRoute(i) => {
                let i = pick_idx(*i, n);
                let expected = model.known.contains(&i) && model.available.contains(&i);
                if model.known.contains(&i) && !expected {
                    double_use = true;
                }
                if let Reg::Ctx(c) = &mut reg {
                    let res = c.get_route(&actors[i]);
                    ensure!(res.is_some() == expected, "registry:get-route", "step {step} {op:?}: is_some={}, model {expected}", res.is_some());
                    if let Some(rc) = res {
                        ensure!(Arc::ptr_eq(&rc.route().actor, &actors[i]), "registry:get-route-actor", "step {step}: route of another actor handed out");
                        ensure!(!rc.route().tour.has_jobs(), "registry:get-route-nonempty", "step {step}: handed-out route is not empty");
                    }
                    model.available.remove(&i);
                }
            }
            RegOp::Next => {
                let r = reg.registry();
                let idx = |a: &Arc<Actor>| actors.iter().position(|x| Arc::ptr_eq(x, a)).expect("known actor");
                let next = match &reg {
                    Reg::Plain(_) => r.next().map(|a| idx(&a)).collect::<Vec<_>>(),
                    Reg::Ctx(c) => c.next_route().map(|rc| idx(&rc.route().actor)).collect::<Vec<_>>(),
                };
                let next_groups = next.iter().map(|i| group_of(*i)).collect::<Vec<_>>();
                let avail_groups = model.available.iter().map(|i| group_of(*i)).collect::<BTreeSet<_>>();
                ensure!(next.iter().all(|i| model.available.contains(i)), "registry:next-offers-used", "step {step}: next() offered {next:?}, available {:?}", model.available);
                ensure!(
                    next_groups.iter().collect::<BTreeSet<_>>().len() == next_groups.len()
                        && next_groups.iter().copied().collect::<BTreeSet<_>>() == avail_groups,
                    "registry:next-groups",
                    "step {step}: next() groups {next_groups:?}, groups with a free actor {avail_groups:?}"
                );
            }
            RegOp::DeepCopySwitch => {
                let copy = reg.deep_copy();
                let before = observe_reg(&reg, &actors);
                let old = std::mem::replace(&mut reg, copy);
                shadow = Some((old, before));
                copied = true;
            }
            RegOp::DeepCopyKeep => {
                let copy = reg.deep_copy();
                let before = observe_reg(&copy, &actors);
                shadow = Some((copy, before));
                copied = true;
            }
            RegOp::DeepSliceSwitch(mask) => {
                let keep: BTreeSet<usize> = (0..n).filter(|i| mask & (1 << i) != 0).collect();
                let ptrs = keep.iter().map(|i| Arc::as_ptr(&actors[*i]) as usize).collect::<HashSet<_>>();
                let filter = move |a: &Actor| ptrs.contains(&(a as *const Actor as usize));
                let slice = match &reg {
                    Reg::Plain(r) => Reg::Plain(r.deep_slice(filter)),
                    Reg::Ctx(c) => Reg::Ctx(c.deep_slice(filter)),
                };
                let before = observe_reg(&reg, &actors);
                let old = std::mem::replace(&mut reg, slice);
                shadow = Some((old, before));
                model.known = model.known.intersection(&keep).copied().collect();
                model.available = model.available.intersection(&keep).copied().collect();
                sliced = true;
            }
        }
        let (all, available) = observe_reg(&reg, &actors);
        ensure!(all == model.known, "registry:all", "step {step} {op:?}: all()={all:?} model={:?}", model.known);
        ensure!(available == model.available, "registry:available", "step {step} {op:?}: available()={available:?} model={:?}", model.available);
        if let Some((other, before)) = shadow.as_ref() {
            let now = observe_reg(other, &actors);
            ensure!(&now == before, "registry:copy-not-independent", "step {step} {op:?}: other side of copy changed {now:?} vs {before:?}");
        }
    }

    stats.eval();
    if double_use || double_free {
        stats.nontrivial(hash_of(&format!("{case:?}")));
    }
    if double_use {
        stats.class("registry.double_use");
    }
    if double_free {
        stats.class("registry.double_free");
    }
    if sliced {
        stats.class("registry.sliced");
    }
    if copied {
        stats.class("registry.copied");
    }
    stats.class(if case.context { "registry.context" } else { "registry.plain" });
    stats.sample(4, || json!({"kind": "registry", "groups": case.groups, "context": case.context, "ops": format!("{:?}", case.ops)}));
    Ok(())
}

impl Prop for RegistryProp {
    type Case = RegCase;
    fn name(&self) -> &'static str {
        "registry"
    }
    fn strategy(&self, _tier: Tier) -> BoxedStrategy<RegCase> {
        (prop::collection::vec(0u8..3, 1..=6), any::<bool>(), any::<u64>())
            .prop_flat_map(|(groups, context, seed)| {
                prop::collection::vec(reg_op(context), 0..=40).prop_map(move |ops| RegCase { groups: groups.clone(), context, seed, ops })
            })
            .boxed()
    }
    fn cases(&self, tier: Tier) -> u32 {
        tier.pick(12_000, 400_000)
    }
    fn check(&self, case: &RegCase, stats: &Stats) -> Check {
        check_reg_case(case, stats)
    }
}

// =============================================================================================
// RouteContext deep copy
// =============================================================================================

#[derive(Clone, Debug, Serialize, Deserialize)]
pub struct RouteCopyCase {
    pub closed: bool,
    pub initial: Vec<u16>,
    pub mutate_copy: bool,
    pub ops: Vec<TourOp>,
    pub state_value: i32,
}

pub struct RouteCopyProp;

struct VerifKey;

fn observe_route(rc: &RouteContext, u: &Universe) -> (TourObs, Option<f64>, Vec<(f64, f64)>) {
    (
        observe_tour(&rc.route().tour, u),
        rc.state().get_tour_state::<VerifKey, f64>().copied(),
        rc.route().tour.all_activities().map(|a| (a.schedule.arrival, a.schedule.departure)).collect(),
    )
}

impl Prop for RouteCopyProp {
    type Case = RouteCopyCase;
    fn name(&self) -> &'static str {
        "route_copy"
    }
    fn strategy(&self, _tier: Tier) -> BoxedStrategy<RouteCopyCase> {
        (any::<bool>(), prop::collection::vec(any::<u16>(), 0..6), any::<bool>(), prop::collection::vec(tour_op(), 1..12), any::<i32>())
            .prop_map(|(closed, initial, mutate_copy, ops, state_value)| RouteCopyCase { closed, initial, mutate_copy, ops, state_value })
            .boxed()
    }
    fn cases(&self, tier: Tier) -> u32 {
        tier.pick(6_000, 200_000)
    }
    fn check(&self, case: &RouteCopyCase, stats: &Stats) -> Check {
        let u = build_universe(3, &[2]);
        let vehicle = simple_vehicle("v", 0, 0, case.closed.then_some(DEPOT_END));
        let fleet = Fleet::new(vec![empty_driver()], vec![vehicle], |_| |_| 0);
        let mut original = RouteContext::new(fleet.actors[0].clone());
        let mut uid = 1000;
        for s in case.initial.iter() {
            uid += 1;
            let s = pick_idx(*s, u.singles.len());
            original.route_mut().tour.insert_last(make_activity(&u, s, uid));
        }
        original.state_mut().set_tour_state::<VerifKey, f64>(1.5);
        let copy = original.deep_copy();
        ensure!(observe_route(&copy, &u) == observe_route(&original, &u), "route:copy-differs", "deep copy observes differently");
        ensure!(copy.is_stale() == original.is_stale(), "route:copy-stale-flag", "stale flag not copied");
        let (mut target, other) = if case.mutate_copy { (copy, original) } else { (original, copy) };
        let before = observe_route(&other, &u);
        let mut changed = false;
        for op in case.ops.iter() {
            let count = target.route().tour.job_activity_count();
            match op {
                TourOp::InsertAt { single, pos } => {
                    uid += 1;
                    let s = pick_idx(*single, u.singles.len());
                    target.route_mut().tour.insert_at(make_activity(&u, s, uid), 1 + pick_idx(*pos, count + 1));
                    changed = true;
                }
                TourOp::InsertLast { single } => {
                    uid += 1;
                    let s = pick_idx(*single, u.singles.len());
                    target.route_mut().tour.insert_last(make_activity(&u, s, uid));
                    changed = true;
                }
                TourOp::Remove { job } => {
                    changed |= target.route_mut().tour.remove(&u.jobs[pick_idx(*job, u.jobs.len())]);
                }
                TourOp::RemoveActivityAt { pos } => {
                    if count > 0 {
                        target.route_mut().tour.remove_activity_at(1 + pick_idx(*pos, count));
                        changed = true;
                    }
                }
                TourOp::SwitchToCopy => {
                    target.state_mut().set_tour_state::<VerifKey, f64>(case.state_value as f64);
                    changed = true;
                }
                TourOp::KeepCopy => {
                    // mutate schedules in place
                    target.route_mut().tour.all_activities_mut().for_each(|a| a.schedule.departure += 7.);
                    changed = true;
                }
            }
            let now = observe_route(&other, &u);
            ensure!(now == before, "route:copy-not-independent", "after {op:?} on one side the other side changed");
        }
        stats.eval();
        if changed {
            stats.nontrivial(hash_of(&format!("{case:?}")));
            stats.class("route_copy.changed");
        }
        Ok(())
    }
}

pub fn property(_tier: Tier) -> PropertyDef {
    PropertyDef {
        id: "C14",
        level: "exploration",
        rule: "proptest op sequences (<=40 ops; separate small-scope generator <=6 ops over <=2 singles + <=1 multi job) on Tour (open/closed, single and multi jobs, indices in the callers' domain 1..=job_activity_count+1), Registry/RegistryContext (1-6 actors in 1-3 groups, use/free/get_route/free_route/next/deep_copy/deep_slice) and RouteContext::deep_copy; after every op the full public observation is compared with a Vec/Set reference model. Non-trivial: tour sequence removing a multi-job or re-inserting a removed job; registry sequence with a double use or double free; route copy followed by an effective mutation. Distinct by hash of the case.",
        assumptions: vec![
            "insert indices restricted to 1..=job_activity_count+1 as every caller in vrp-core does (index 0 / past the end marker is outside the API's domain)",
            "actors/jobs identified by pointer identity as the code itself does",
        ],
        props: vec![Box::new(TourProp { exhaustive_small: false }), Box::new(TourProp { exhaustive_small: true }), Box::new(RegistryProp), Box::new(RouteCopyProp)],
        extra: None,
        required_classes: vec!["tour.removed_multi", "tour.reinserted", "tour.copied", "tour.open", "tour.closed", "registry.double_use", "registry.double_free", "registry.sliced", "registry.context", "registry.plain", "route_copy.changed"],
    }
}
