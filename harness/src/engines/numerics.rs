//! C18: adaptive operator selection (slot machines, arg-max / weighted choice, rewards) and
//! termination math (estimates, variation criterion, statistics helpers) stay numerically sane.

use super::common::*;
use crate::fw::*;
use proptest::prelude::*;
use rosomaxa::algorithms::math::*;
use rosomaxa::algorithms::rl::{SlotAction, SlotFeedback, SlotMachine};
use rosomaxa::hyper::{DynamicSelective, HeuristicSearchOperators};
use rosomaxa::prelude::*;
use rosomaxa::termination::*;
use rosomaxa::utils::{DefaultDistributionSampler, DistributionSampler, Parallelism, ThreadPool, Timer, random_argmax, verif_reseed_repeatable};
use serde::{Deserialize, Serialize};
use serde_json::json;
use std::any::Any;
use std::cell::RefCell;
use std::cmp::Ordering;
use std::collections::HashMap;
use std::rc::Rc;
use std::sync::{Arc, Mutex};

/// A generated number kept symbolic so that replay files reproduce it bit-exactly:
/// palette entry, uniform fill `scale * u / 2^32`, or a small integer (ties).
#[derive(Clone, Debug, Serialize, Deserialize)]
pub enum Num {
    P(u8),
    U(u8, u32),
    I(i8),
}

impl Num {
    fn get(&self, palette: &[f64], scales: &[f64]) -> f64 {
        match self {
            Num::P(i) => palette[*i as usize % palette.len()],
            Num::U(s, u) => scales[*s as usize % scales.len()] * (*u as f64 / 4_294_967_296.),
            Num::I(i) => *i as f64,
        }
    }
}

fn num(palette: usize, scales: usize, ints: (i8, i8)) -> BoxedStrategy<Num> {
    prop_oneof![
        5 => (0..palette as u8).prop_map(Num::P),
        3 => (0..scales as u8, any::<u32>()).prop_map(|(s, u)| Num::U(s, u)),
        3 => (ints.0..=ints.1).prop_map(Num::I),
    ]
    .boxed()
}

fn in_unit(x: f64) -> bool { (0. ..=1.).contains(&x) }

// ---------------------------------------------------------------------------------------------
// harness solution / objective / heuristic context (statistics, ranked and phase are set by the case)
// ---------------------------------------------------------------------------------------------

#[derive(Clone, Debug)]
pub struct Sol(pub Vec<f64>);

impl HeuristicSolution for Sol {
    fn fitness(&self) -> impl Iterator<Item = Float> { self.0.iter().copied() }
    fn deep_copy(&self) -> Self { self.clone() }
}

pub struct Lex;

impl HeuristicObjective for Lex {
    type Solution = Sol;
    fn total_order(&self, a: &Sol, b: &Sol) -> Ordering {
        a.0.iter().zip(b.0.iter()).map(|(x, y)| x.total_cmp(y)).find(|o| *o != Ordering::Equal).unwrap_or(Ordering::Equal)
    }
}

pub struct TCtx {
    objective: Lex,
    ranked: Vec<Sol>,
    statistics: HeuristicStatistics,
    phase: u8,
    environment: Environment,
    state: HashMap<i32, Box<dyn Any + Send + Sync>>,
}

impl TCtx {
    fn new(environment: Environment) -> Self {
        Self { objective: Lex, ranked: vec![], statistics: HeuristicStatistics::default(), phase: 1, environment, state: HashMap::new() }
    }
}

impl HeuristicContext for TCtx {
    type Objective = Lex;
    type Solution = Sol;
    fn objective(&self) -> &Lex { &self.objective }
    fn selected(&self) -> Box<dyn Iterator<Item = &'_ Sol> + '_> { Box::new(self.ranked.iter()) }
    fn ranked(&self) -> Box<dyn Iterator<Item = &'_ Sol> + '_> { Box::new(self.ranked.iter()) }
    fn statistics(&self) -> &HeuristicStatistics { &self.statistics }
    fn selection_phase(&self) -> SelectionPhase {
        match self.phase {
            0 => SelectionPhase::Initial,
            1 => SelectionPhase::Exploration,
            _ => SelectionPhase::Exploitation,
        }
    }
    fn environment(&self) -> &Environment { &self.environment }
    fn on_initial(&mut self, solution: Sol, _: Timer) { self.ranked.push(solution); }
    fn on_generation(&mut self, _: Vec<Sol>, _: Float, _: Timer) {}
    fn on_result(self) -> HeuristicResult<Lex, Sol> { Err("harness context has no population".into()) }
}

impl Stateful for TCtx {
    type Key = i32;
    fn set_state<T: 'static + Send + Sync>(&mut self, key: i32, state: T) { self.state.insert(key, Box::new(state)); }
    fn get_state<T: 'static + Send + Sync>(&self, key: &i32) -> Option<&T> { self.state.get(key).and_then(|v| v.downcast_ref::<T>()) }
    fn state_mut<T: 'static + Send + Sync, F: Fn() -> T>(&mut self, key: i32, inserter: F) -> &mut T {
        self.state.entry(key).or_insert_with(|| Box::new(inserter())).downcast_mut::<T>().unwrap()
    }
}

fn env(seed: u64, experimental: bool) -> Environment {
    Environment::new(Arc::new(SeededRandom::new(seed)), None, Parallelism::default(), quiet_logger(), experimental)
}

// ---------------------------------------------------------------------------------------------
// (a) SlotMachine with a recording sampler, used the way hyper/dynamic_selective.rs uses it
// ---------------------------------------------------------------------------------------------

const REWARDS: [f64; 10] = [0., 5e-324, 1e-300, 1e-9, 0.05, 1., 6., 18., 1e3, 1e6];
const REWARD_SCALES: [f64; 4] = [1., 18., 1e3, 1e6];
/// The only prior mean the shipped caller uses (SearchAgent::new).
const PRIOR_MEAN: f64 = 1.;

#[derive(Clone)]
struct Act;
struct Fb(f64);

impl SlotFeedback for Fb {
    fn reward(&self) -> Float { self.0 }
}

impl SlotAction for Act {
    type Context = f64;
    type Feedback = Fb;
    fn take(&self, reward: f64) -> Fb { Fb(reward) }
}

/// Validates what a real Gamma / Normal would reject (or silently turn into NaN) and delegates.
#[derive(Clone)]
struct RecSampler { inner: DefaultDistributionSampler, bad: Rc<RefCell<Option<String>>> }

impl DistributionSampler for RecSampler {
    fn gamma(&self, shape: Float, scale: Float) -> Float {
        if !(shape > 0. && shape.is_finite() && scale > 0. && scale.is_finite()) {
            self.bad.borrow_mut().get_or_insert(format!("gamma(shape={shape}, scale={scale})"));
            return 1.;
        }
        self.inner.gamma(shape, scale)
    }
    fn normal(&self, mean: Float, std_dev: Float) -> Float {
        if !(mean.is_finite() && std_dev.is_finite() && std_dev >= 0.) {
            self.bad.borrow_mut().get_or_insert(format!("normal(mean={mean}, std_dev={std_dev})"));
            return 0.;
        }
        self.inner.normal(mean, std_dev)
    }
}

#[derive(Clone, Debug, Serialize, Deserialize)]
pub struct SlotCase {
    pub seed: u64,
    pub slots: u8,
    /// true: slot picked by random_argmax over samples (as SearchAgent::search); false: one slot gets everything
    pub thompson: bool,
    pub rewards: Vec<Num>,
}

pub struct SlotProp;

impl Prop for SlotProp {
    type Case = SlotCase;
    fn name(&self) -> &'static str { "slot_machine" }
    fn strategy(&self, _tier: Tier) -> BoxedStrategy<SlotCase> {
        let reward = prop_oneof![
            5 => (0..REWARDS.len() as u8).prop_map(Num::P),
            3 => (0..REWARD_SCALES.len() as u8, any::<u32>()).prop_map(|(s, u)| Num::U(s, u)),
        ];
        (any::<u64>(), 2u8..=5, prop::bool::weighted(0.6), prop::collection::vec(reward, 1..=300))
            .prop_map(|(seed, slots, thompson, rewards)| SlotCase { seed, slots, thompson, rewards })
            .boxed()
    }
    fn cases(&self, tier: Tier) -> u32 { tier.pick(40_000, 2_000_000) }
    fn shards(&self, _tier: Tier) -> u32 { 16 }
    fn check(&self, c: &SlotCase, stats: &Stats) -> Check {
        let random: Arc<dyn Random> = Arc::new(SeededRandom::new(c.seed));
        let bad: Rc<RefCell<Option<String>>> = Default::default();
        let sampler = RecSampler { inner: DefaultDistributionSampler::new(random.clone()), bad: bad.clone() };
        let k = if c.thompson { c.slots.max(1) as usize } else { 1 };
        let mut slots = (0..k).map(|_| SlotMachine::new(PRIOR_MEAN, Act, sampler.clone())).collect::<Vec<_>>();
        // (count, min, max) of the rewards each slot has seen
        let mut seen = vec![(0usize, f64::INFINITY, f64::NEG_INFINITY); k];
        let sample_all = |slots: &[SlotMachine<Act, RecSampler>], step: usize| -> Result<Vec<f64>, Failure> {
            let xs = slots.iter().map(|s| s.sample()).collect::<Vec<_>>();
            if let Some(b) = bad.borrow().as_ref() {
                let params = slots.iter().map(|s| s.get_params()).collect::<Vec<_>>();
                return Err(Failure::new("slot:sampler-invalid-argument", format!("step {step}: sampler called with {b}; slot params {params:?}")));
            }
            ensure!(xs.iter().all(|x| x.is_finite()), "slot:sample-non-finite", "step {step}: samples {xs:?}");
            Ok(xs)
        };
        let (mut tiny, mut huge, mut max_beta) = (false, false, 0f64);
        for (step, r) in c.rewards.iter().enumerate() {
            let r = r.get(&REWARDS, &REWARD_SCALES);
            tiny |= r <= 5e-324;
            huge |= r >= 1e3;
            let samples = sample_all(&slots, step)?;
            let idx = if c.thompson {
                let idx = random_argmax(samples.iter().copied(), random.as_ref());
                ensure!(idx.is_some_and(|i| i < k), "slot:argmax-no-configured-slot", "step {step}: random_argmax returned {idx:?} for {samples:?}");
                let idx = idx.unwrap();
                ensure!(samples.iter().all(|s| samples[idx] >= *s), "slot:argmax-not-maximal", "step {step}: picked {idx} of {samples:?}");
                idx
            } else {
                0
            };
            let feedback = slots[idx].play(r);
            slots[idx].update(&feedback);
            let s = &mut seen[idx];
            *s = (s.0 + 1, s.1.min(r), s.2.max(r));
            let (alpha, beta, mu, v, n) = slots[idx].get_params();
            let state = format!("step {step} reward {r:?}: alpha={alpha:?} beta={beta:?} mu={mu:?} v={v:?} n={n}");
            ensure!(alpha.is_finite() && beta.is_finite() && mu.is_finite() && v.is_finite(), "slot:non-finite-param", "{state}");
            ensure!(alpha > 0., "slot:alpha-non-positive", "{state}");
            ensure!(beta > 0., "slot:beta-non-positive", "{state}");
            ensure!(v >= 0., "slot:negative-variance", "{state}");
            ensure!(n == s.0, "slot:usage-count", "{state}, but {} rewards were fed", s.0);
            // tolerance: 1e-9 * max(1, largest reward seen) absolute (running mean rounding)
            let tol = 1e-9 * s.2.max(1.);
            ensure!(mu >= s.1 - tol && mu <= s.2 + tol, "slot:mean-outside-hull", "{state}; rewards seen by the slot span [{:?}, {:?}]", s.1, s.2);
            max_beta = max_beta.max(beta);
        }
        sample_all(&slots, c.rewards.len())?;
        stats.eval();
        if tiny && huge {
            stats.nontrivial(hash_of(&format!("{c:?}")));
            stats.class("slot.mix_zero_or_denormal_with_ge_1e3");
        }
        stats.class(if c.thompson { "slot.thompson_multi_slot" } else { "slot.single_slot" });
        if c.rewards.len() >= 100 { stats.class("slot.history_ge_100"); }
        stats.class_max("slot.max_beta_log10", max_beta.log10().max(0.) as u64);
        stats.sample(1, || json!({"kind": "slot_machine", "slots": k, "rewards": c.rewards.len(), "final_params": format!("{:?}", slots.iter().map(|s| s.get_params()).collect::<Vec<_>>())}));
        Ok(())
    }
}

// ---------------------------------------------------------------------------------------------
// (b) random_argmax and DefaultRandom::weighted
// ---------------------------------------------------------------------------------------------

const VALUES: [f64; 16] = [f64::MIN, -1e308, -1e3, -1., -5e-324, -0., 0., 5e-324, 1e-9, 0.5, 1., 1.0000000000000002, 6., 1e6, 1e308, f64::MAX];
const WEIGHTS: [usize; 11] = [0, 0, 1, 1, 2, 3, 10, 100, 1000, 1_000_000, usize::MAX];

#[derive(Clone, Debug, Serialize, Deserialize)]
pub struct SelCase { pub seed: u64, pub values: Vec<Num>, pub weights: Vec<u8> }

pub struct SelProp;

impl Prop for SelProp {
    type Case = SelCase;
    fn name(&self) -> &'static str { "argmax_weighted" }
    fn strategy(&self, _tier: Tier) -> BoxedStrategy<SelCase> {
        (any::<u64>(), prop::collection::vec(num(VALUES.len(), 2, (-2, 2)), 0..=12), prop::collection::vec(0..WEIGHTS.len() as u8, 1..=10))
            .prop_map(|(seed, values, weights)| SelCase { seed, values, weights })
            .boxed()
    }
    fn cases(&self, tier: Tier) -> u32 { tier.pick(200_000, 10_000_000) }
    fn check(&self, c: &SelCase, stats: &Stats) -> Check {
        verif_reseed_repeatable(c.seed);
        let random = DefaultRandom::new_repeatable();
        let values = c.values.iter().map(|v| v.get(&VALUES, &[1., 18.])).collect::<Vec<_>>();
        let weights = c.weights.iter().map(|w| WEIGHTS[*w as usize % WEIGHTS.len()]).collect::<Vec<_>>();
        let max_count = values.iter().filter(|v| values.iter().all(|o| *v >= o)).count();
        let mut picks = std::collections::BTreeSet::new();
        for _ in 0..6 {
            match random_argmax(values.iter().copied(), &random) {
                None => ensure!(values.is_empty(), "argmax:none-for-non-empty", "None for {values:?}"),
                Some(i) => {
                    ensure!(i < values.len(), "argmax:out-of-range", "index {i} for {values:?}");
                    ensure!(values.iter().all(|v| values[i] >= *v), "argmax:not-maximal", "index {i} ({}) is not maximal in {values:?}", values[i]);
                    picks.insert(i);
                }
            }
            // `weights` is never empty: the callers pass one weight per configured operator
            let w = random.weighted(&weights);
            ensure!(w < weights.len(), "weighted:out-of-range", "index {w} for {weights:?}");
            // a zero weight is a zero rate: it can only win when every rate is zero
            ensure!(weights[w] > 0 || weights.iter().all(|x| *x == 0), "weighted:zero-weight-picked", "index {w} has weight 0 in {weights:?}");
        }
        stats.eval();
        if max_count >= 2 {
            stats.nontrivial(hash_of(&format!("{c:?}")));
            stats.class("argmax.ties_at_max");
            if picks.len() >= 2 { stats.class("argmax.ties_resolved_to_different_indices"); }
        }
        match values.len() {
            0 => stats.class("argmax.empty"),
            1 => stats.class("argmax.single"),
            _ => {}
        }
        if weights.contains(&0) { stats.class(if weights.iter().all(|x| *x == 0) { "weighted.all_zero" } else { "weighted.some_zero" }); }
        if weights.len() == 1 { stats.class("weighted.single"); }
        stats.sample(2, || json!({"kind": "argmax_weighted", "values": values, "weights": weights}));
        Ok(())
    }
}

// ---------------------------------------------------------------------------------------------
// (c) DynamicSelective over the harness context with is_experimental = true (Display telemetry)
// ---------------------------------------------------------------------------------------------

/// Non-negative fitness palette (costs).
const FITNESS: [f64; 14] = [0., 5e-324, 1e-300, 1e-9, 0.5, 1., 1.0000000000000002, 2., 10., 1e3, 1e6, 1e12, 1e300, f64::MAX];
const RATIOS: [f64; 7] = [0., 0.01, 0.05, 0.1, 0.15, 0.2, 1.];

#[derive(Clone, Debug, Serialize, Deserialize)]
pub struct DsStep {
    pub initial: Vec<Num>,
    pub new: Vec<Num>,
    pub best: Vec<Num>,
    /// sign bits: component i of initial (bit i), new (bit 4+i), best (bit 8+i) is negated; 0 in the campaign
    pub neg: u16,
    pub ratio: u8,
    pub many: bool,
    pub no_best: bool,
}

#[derive(Clone, Debug, Serialize, Deserialize)]
pub struct DsCase { pub seed: u64, pub dims: u8, pub ops: u8, pub steps: Vec<DsStep> }

/// `probe: None` is the campaign over non-negative fitness; `Some(k)` is one fixed targeted case of an
/// input class that is excluded from the campaign by construction (opposite-sign fitness components).
pub struct DsProp { pub probe: Option<u8> }

struct ScriptOp { next: Arc<Mutex<Option<Sol>>> }

impl HeuristicSearchOperator for ScriptOp {
    type Context = TCtx;
    type Objective = Lex;
    type Solution = Sol;
    fn search(&self, _: &TCtx, solution: &Sol) -> Sol { self.next.lock().unwrap().clone().unwrap_or_else(|| solution.deep_copy()) }
}

thread_local! {
    /// One-thread pool per shard thread: `search_many` then runs on a thread whose repeatable RNG the case seeds.
    static POOL: ThreadPool = ThreadPool::new(1);
}

fn ds_run(c: &DsCase, stats: &Stats, probe: bool) -> Check {
    let environment = env(c.seed, true);
    let n = c.dims.max(1) as usize;
    let names = (0..c.ops.max(1)).map(|i| format!("op{i}")).collect::<Vec<_>>();
    let next: Arc<Mutex<Option<Sol>>> = Default::default();
    let operators: HeuristicSearchOperators<TCtx, Lex, Sol> = names.iter().map(|name| (Arc::new(ScriptOp { next: next.clone() }) as Arc<dyn HeuristicSearchOperator<Context = TCtx, Objective = Lex, Solution = Sol> + Send + Sync>, name.clone(), 1.)).collect();
    let mut heuristic = DynamicSelective::new(operators, vec![], &environment);
    let mut ctx = TCtx::new(environment.clone());
    let sol = |v: &[Num], neg: u16, shift: usize| Sol((0..n).map(|i| v[i % v.len()].get(&FITNESS, &[1., 1e3]) * if neg >> (i + shift) & 1 == 1 { -1. } else { 1. }).collect());
    let mut late_diff = false;
    for (i, step) in c.steps.iter().enumerate() {
        let (initial, new, best) = (sol(&step.initial, step.neg, 0), sol(&step.new, step.neg, 4), sol(&step.best, step.neg, 8));
        // the parent is a member of the population, so the best known is never worse than it
        let best = if Lex.total_order(&initial, &best) == Ordering::Less { initial.clone() } else { best };
        late_diff |= n > 1 && [&initial, &best].iter().any(|o| new.0[0] == o.0[0] && new.0 != o.0);
        ctx.ranked = if step.no_best { vec![] } else { vec![best] };
        ctx.statistics.generation = i;
        ctx.statistics.improvement_1000_ratio = RATIOS[step.ratio as usize % RATIOS.len()];
        *next.lock().unwrap() = Some(new.clone());
        let out = if step.many { heuristic.search_many(&ctx, vec![&initial]) } else { heuristic.search(&ctx, &initial) };
        ensure!(out.len() == 1, "ds:offspring-count", "step {i}: {} offspring for one parent", out.len());
    }
    // telemetry: "name,generation,reward,from,to,duration" rows, then "generation,state,name,alpha,beta,mu,v,n" rows
    let text = format!("{heuristic}");
    let mut section = 0;
    let (mut rewards, mut params) = (vec![], vec![]);
    for line in text.lines() {
        match line {
            "name,generation,reward,from,to,duration" => section = 1,
            "generation,state,name,alpha,beta,mu,v,n" => section = 2,
            "TELEMETRY" | "search:" | "heuristic:" => {}
            _ => {
                let f = line.split(',').collect::<Vec<_>>();
                let p = |i: usize| f.get(i).and_then(|s| s.parse::<f64>().ok());
                match section {
                    1 => rewards.push((f[0].to_string(), p(2), f.get(3).copied() == Some("best"), f.get(4).copied() == Some("best"))),
                    2 => params.push((f.get(2).map(|s| s.to_string()), p(3), p(4), p(5), p(6), p(7))),
                    _ => {}
                }
            }
        }
    }
    ensure!(rewards.len() == c.steps.len(), "ds:telemetry-rows", "{} search rows for {} searches:\n{text}", rewards.len(), c.steps.len());
    // documented: distance in [-N, N] => base reward <= (N+1) + (N+1)*2, multiplier in (~0.5, 3]; N = 1 gives the literal [0, 6] x 3
    let limit = 9. * (n as f64 + 1.);
    let (mut lo, mut hi) = (PRIOR_MEAN, PRIOR_MEAN);
    for (i, (name, reward, from_best, to_best)) in rewards.iter().enumerate() {
        ensure!(names.contains(name), "ds:unknown-operator", "search {i} was attributed to '{name}', configured {names:?}");
        let st = &c.steps[i];
        let what = || format!("search {i}: parent {:?} -> offspring {:?}, best known {:?}, improvement ratio {} got reward {reward:?} (N={n})", sol(&st.initial, st.neg, 0).0, sol(&st.new, st.neg, 4).0, sol(&st.best, st.neg, 8).0, RATIOS[st.ratio as usize % RATIOS.len()]);
        let class = if probe { ":opposite-sign-fitness" } else { "" };
        ensure!(reward.is_some_and(|r| r.is_finite()), format!("ds:reward-non-finite{class}"), "{}; the slot update then makes beta NaN and the next sample() panics in the gamma sampler", what());
        let r = reward.unwrap();
        ensure!(r >= 0., "ds:reward-negative", "{}", what());
        ensure!(r <= limit * (1. + 1e-12), format!("ds:reward-above-documented-range{class}"), "{}; documented upper bound {limit}", what());
        (lo, hi) = (lo.min(r), hi.max(r));
        stats.class(if r > 0. { "ds.reward_positive" } else { "ds.reward_zero" });
        if r > 18. { stats.class("ds.reward_above_literal_0_6_x3_range_multi_objective"); }
        stats.class(match (from_best, to_best) {
            (true, true) => "ds.best_to_best",
            (true, false) => "ds.best_to_diverse",
            (false, true) => "ds.diverse_to_best",
            _ => "ds.diverse_to_diverse",
        });
    }
    for (name, alpha, beta, mu, v, cnt) in params.iter() {
        let row = format!("telemetry row name={name:?} alpha={alpha:?} beta={beta:?} mu={mu:?} v={v:?} n={cnt:?}");
        ensure!(name.as_ref().is_some_and(|x| names.contains(x)), "ds:unknown-operator", "{row}");
        ensure!([alpha, beta, mu, v, cnt].iter().all(|x| x.is_some_and(|x| x.is_finite())), "ds:param-non-finite", "{row}");
        ensure!(alpha.unwrap() > 0. && beta.unwrap() > 0. && v.unwrap() >= 0., "ds:param-invalid", "{row}");
        let tol = 1e-9 * hi.max(1.);
        ensure!(mu.unwrap() >= lo - tol && mu.unwrap() <= hi + tol, "ds:mean-outside-hull", "{row}; prior and rewards span [{lo}, {hi}]");
    }
    stats.eval();
    stats.class_n("ds.param_rows", params.len() as u64);
    if late_diff {
        stats.nontrivial(hash_of(&format!("{c:?}")));
        stats.class("ds.pair_differs_first_at_index_ge_1");
    }
    stats.class(if n == 1 { "ds.scalar_objective" } else { "ds.multi_objective" });
    stats.sample(3, || json!({"kind": "dynamic_selective", "dims": n, "operators": names.len(), "searches": c.steps.len(), "telemetry_head": text.lines().take(5).collect::<Vec<_>>()}));
    Ok(())
}

impl Prop for DsProp {
    type Case = DsCase;
    fn name(&self) -> &'static str {
        match self.probe {
            None => "dynamic_selective",
            Some(0) => "dynamic_selective_probe_opposite_sign_range",
            Some(_) => "dynamic_selective_probe_opposite_sign_overflow",
        }
    }
    fn strategy(&self, _tier: Tier) -> BoxedStrategy<DsCase> {
        if let Some(probe) = self.probe {
            // 0: N=2, parent (1, 0) -> offspring (-1, 0): relative distance 2 * 2, outside the documented [-N, N]
            // 1: N=1, parent f64::MAX -> offspring -f64::MAX: |a - b| overflows
            let (dims, v) = if probe == 0 { (2, Num::I(1)) } else { (1, Num::P(13)) };
            let fit = vec![v, Num::I(0)];
            let step = DsStep { initial: fit.clone(), new: fit.clone(), best: fit, neg: 1 << 4, ratio: 0, many: false, no_best: false };
            return Just(DsCase { seed: 1, dims, ops: 1, steps: vec![step] }).boxed();
        }
        (any::<u64>(), 1usize..=3, 1u8..=4)
            .prop_flat_map(move |(seed, dims, ops)| {
                let fit = || prop::collection::vec(num(FITNESS.len(), 2, (0, 4)), dims);
                let step = (fit(), fit(), fit(), 0..RATIOS.len() as u8, prop::bool::weighted(0.3), prop::bool::weighted(0.05)).prop_map(|(initial, new, best, ratio, many, no_best)| DsStep { initial, new, best, neg: 0, ratio, many, no_best });
                prop::collection::vec(step, 1..=40).prop_map(move |steps| DsCase { seed, dims: dims as u8, ops, steps })
            })
            .boxed()
    }
    fn cases(&self, tier: Tier) -> u32 { if self.probe.is_some() { 1 } else { tier.pick(30_000, 1_500_000) } }
    fn shards(&self, _tier: Tier) -> u32 { 16 }
    fn check(&self, c: &DsCase, stats: &Stats) -> Check {
        let probe = self.probe.is_some();
        match POOL.with(|pool| pool.execute(|| guard(|| ds_run(c, stats, probe)))) {
            Ok(r) => r,
            Err(p) => Err(Failure::new(format!("ds:panic:{}", panic_site(&p)), format!("DynamicSelective panicked: {p}"))),
        }
    }
}

// ---------------------------------------------------------------------------------------------
// (d1) termination estimates
// ---------------------------------------------------------------------------------------------

const GENERATIONS: [usize; 10] = [0, 1, 2, 3, 10, 1000, 3000, 1 << 32, usize::MAX - 1, usize::MAX];
const TIME_LIMITS: [f64; 10] = [0., 5e-324, 1e-300, 1e-9, 1e-3, 1., 300., 1e9, 1e300, f64::MAX];
const THRESHOLDS: [f64; 8] = [0., 1e-9, 1e-3, 0.01, 0.05, 0.1, 0.5, 1.];

#[derive(Clone, Debug, Serialize, Deserialize)]
pub struct EstCase {
    pub limit: u8,
    pub generation: u8,
    pub time_limit: u8,
    pub threshold: u8,
    pub sample: u8,
    pub target: Vec<Num>,
    pub fitness: Vec<Num>,
    pub with_best: bool,
}

pub struct EstProp;

impl Prop for EstProp {
    type Case = EstCase;
    fn name(&self) -> &'static str { "termination_estimates" }
    fn strategy(&self, _tier: Tier) -> BoxedStrategy<EstCase> {
        let fit = || prop::collection::vec(num(FITNESS.len(), 2, (0, 4)), 1..=3);
        (0..GENERATIONS.len() as u8, 0..GENERATIONS.len() as u8, 0..TIME_LIMITS.len() as u8, 0..THRESHOLDS.len() as u8, 1u8..=8, fit(), fit(), prop::bool::weighted(0.9))
            .prop_map(|(limit, generation, time_limit, threshold, sample, target, fitness, with_best)| EstCase { limit, generation, time_limit, threshold, sample, target, fitness, with_best })
            .boxed()
    }
    fn cases(&self, tier: Tier) -> u32 { tier.pick(60_000, 3_000_000) }
    fn check(&self, c: &EstCase, stats: &Stats) -> Check {
        type T = Box<dyn Termination<Context = TCtx, Objective = Lex>>;
        let mut ctx = TCtx::new(env(0, false));
        let (limit, generation) = (GENERATIONS[c.limit as usize % 10], GENERATIONS[c.generation as usize % 10]);
        let (time_limit, threshold) = (TIME_LIMITS[c.time_limit as usize % 10], THRESHOLDS[c.threshold as usize % 8]);
        ctx.statistics.generation = generation;
        let vals = |v: &[Num]| v.iter().map(|x| x.get(&FITNESS, &[1., 1e3])).collect::<Vec<_>>();
        if c.with_best { ctx.ranked = vec![Sol(vals(&c.fitness))]; }
        let make = || -> Vec<(&'static str, T)> {
            vec![
                ("max-generation", Box::new(MaxGeneration::new(limit))),
                ("max-time", Box::new(MaxTime::new(time_limit))),
                ("target-proximity", Box::new(TargetProximity::new(vals(&c.target), threshold))),
                ("min-variation", Box::new(MinVariation::new_with_sample(c.sample.max(1) as usize, threshold, true, 1))),
            ]
        };
        for (name, t) in make() {
            let before = t.estimate(&ctx);
            let fired = t.is_termination(&mut ctx);
            let after = t.estimate(&ctx);
            ensure!(in_unit(before) && in_unit(after), format!("estimate:{name}-outside-unit-interval"), "{name}: estimates {before:?} / {after:?} (limit {limit}, generation {generation}, time limit {time_limit:?})");
            // (max-time is a wall-clock verdict: not counted, evidence stays a function of the seed)
            if fired && name != "max-time" { stats.class(&format!("estimate.{name}.terminated")); }
        }
        let composite = CompositeTermination::new(make().into_iter().map(|(_, t)| t).collect());
        let e = composite.estimate(&ctx);
        ensure!(in_unit(e), "estimate:composite-outside-unit-interval", "composite estimate {e}");
        let empty = CompositeTermination::<TCtx, Lex, Sol>::new(vec![]).estimate(&ctx);
        ensure!(in_unit(empty), "estimate:composite-outside-unit-interval", "empty composite estimate {empty}");
        stats.eval();
        if limit == 0 || time_limit == 0. { stats.class("estimate.zero_limit"); }
        if generation > limit {
            stats.nontrivial(hash_of(&format!("{c:?}")));
            stats.class("estimate.generation_beyond_limit");
        }
        if generation > 0 && generation < limit { stats.class("estimate.generation_strictly_inside_limit"); }
        Ok(())
    }
}

// ---------------------------------------------------------------------------------------------
// (d2) MinVariation (sample mode) against an independent CV computation
// ---------------------------------------------------------------------------------------------

const BASES: [f64; 7] = [1., 10., 1000., 1e6, 0.001, 0., -1000.];
const SPREADS: [f64; 6] = [0., 1., 2.5, 4., 8., 32.];
/// jitter value meaning "same value as in the previous generation" (stagnation)
const REPEAT: i8 = -1;

#[derive(Clone, Debug, Serialize, Deserialize)]
pub struct MvStep { pub jitter: Vec<i8>, pub phase: u8, pub no_best: bool }

#[derive(Clone, Debug, Serialize, Deserialize)]
pub struct MvCase {
    pub sample: u8,
    pub threshold: u8,
    pub is_global: bool,
    pub bases: Vec<u8>,
    pub spread: u8,
    /// generation numbers 0,0,1,2,.. as produced by Telemetry (true) or 0,1,2,.. (false)
    pub repeat_zero: bool,
    pub steps: Vec<MvStep>,
}

pub struct MvProp;

/// (population cv, sample cv, mean); an all-equal window has no variation by definition.
fn cv_of(values: &[f64]) -> (f64, f64, f64) {
    let n = values.len() as f64;
    let mean = values.iter().sum::<f64>() / n;
    if values.iter().all(|v| *v == values[0]) { return (0., 0., mean); }
    let ss = values.iter().map(|v| (v - mean) * (v - mean)).sum::<f64>();
    ((ss / n).sqrt() / mean, (ss / (n - 1.)).sqrt() / mean, mean)
}

impl Prop for MvProp {
    type Case = MvCase;
    fn name(&self) -> &'static str { "min_variation" }
    fn strategy(&self, _tier: Tier) -> BoxedStrategy<MvCase> {
        (1usize..=3)
            .prop_flat_map(|dims| {
                let base = prop_oneof![22 => 0u8..5, 2 => Just(5u8), 1 => Just(6u8)];
                let jitter = prop_oneof![2 => Just(REPEAT), 3 => 0i8..=16];
                let step = (prop::collection::vec(jitter, dims), prop_oneof![1 => 0u8..2, 2 => Just(2u8)], prop::bool::weighted(0.01)).prop_map(|(jitter, phase, no_best)| MvStep { jitter, phase, no_best });
                (1u8..=8, 0..THRESHOLDS.len() as u8, prop::bool::weighted(0.7), prop::collection::vec(base, dims), 0..SPREADS.len() as u8, any::<bool>(), prop::collection::vec(step, 1..=40))
            })
            .prop_map(|(sample, threshold, is_global, bases, spread, repeat_zero, steps)| MvCase { sample, threshold, is_global, bases, spread, repeat_zero, steps })
            .boxed()
    }
    fn cases(&self, tier: Tier) -> u32 { tier.pick(80_000, 4_000_000) }
    fn shards(&self, _tier: Tier) -> u32 { 16 }
    fn check(&self, c: &MvCase, stats: &Stats) -> Check {
        let sample = c.sample.max(1) as usize;
        let threshold = THRESHOLDS[c.threshold as usize % THRESHOLDS.len()];
        // values of one objective lie in base * [1, 1 + spread * max(threshold, 1e-3)]
        let unit = SPREADS[c.spread as usize % SPREADS.len()] * threshold.max(1e-3) / 16.;
        let termination = MinVariation::<TCtx, Lex, Sol, i32>::new_with_sample(sample, threshold, c.is_global, 7);
        let mut ctx = TCtx::new(env(0, false));
        let mut history: HashMap<usize, Vec<f64>> = HashMap::new();
        let mut previous: Option<Vec<f64>> = None;
        let band = 1e-9 + 1e-9 * threshold;
        let (mut fired_full, mut silent_full) = (0u32, 0u32);
        for (k, step) in c.steps.iter().enumerate() {
            let generation = if c.repeat_zero { k.saturating_sub(1) } else { k };
            let fitness = (0..c.bases.len())
                .map(|d| match (step.jitter[d % step.jitter.len()], previous.as_ref()) {
                    (REPEAT, Some(p)) => p[d],
                    (j, _) => BASES[c.bases[d] as usize % BASES.len()] * (1. + unit * j.max(0) as f64),
                })
                .collect::<Vec<_>>();
            ctx.statistics.generation = generation;
            ctx.phase = step.phase;
            ctx.ranked = if step.no_best { vec![] } else { vec![Sol(fitness.clone())] };
            let fired = termination.is_termination(&mut ctx);
            let e = termination.estimate(&ctx);
            ensure!(in_unit(e), "estimate:min-variation-outside-unit-interval", "estimate {e}");
            if step.no_best {
                // no best known solution: nothing is observed in this generation (statement silent on the verdict)
                stats.class("minvar.no_best_known.unasserted");
                history.remove(&generation);
                continue;
            }
            history.insert(generation, fitness.clone());
            previous = Some(fitness);
            let at = format!("step {k} generation {generation} (sample {sample}, threshold {threshold}, global {})", c.is_global);
            if generation + 1 < sample {
                ensure!(!fired, "minvar:fired-before-window-full", "{at}: fired with fewer than `sample` generations observed");
                stats.class("minvar.window_not_full");
                continue;
            }
            if !c.is_global && step.phase != 2 {
                // documented flag: "whether the logic is applicable for all search phases, not only exploitation"
                ensure!(!fired, "minvar:fired-outside-exploitation", "{at}: non-global criterion fired in phase {}", step.phase);
                stats.class("minvar.gated_by_phase");
                continue;
            }
            let window = (generation + 1 - sample..=generation).map(|g| history.get(&g)).collect::<Option<Vec<_>>>();
            let Some(window) = window else {
                stats.class("minvar.window_with_gap.unasserted");
                continue;
            };
            let cvs = (0..c.bases.len()).map(|d| cv_of(&window.iter().map(|f| f[d]).collect::<Vec<_>>())).collect::<Vec<_>>();
            if cvs.iter().any(|(_, _, mean)| *mean < 0.) {
                // sign convention of CV for a negative mean is not specified (code: sd/mean < 0 counts as "below")
                stats.class("minvar.negative_mean.unasserted");
                continue;
            }
            let detail = || format!("{at}: per-objective (cv population, cv sample, mean) {cvs:?}, window {window:?}");
            if cvs.iter().all(|(_, smp, _)| *smp < threshold - band) {
                ensure!(fired, "minvar:not-fired-below-threshold", "{}", detail());
            } else if cvs.iter().any(|(pop, _, _)| *pop > threshold + band) {
                ensure!(!fired, "minvar:fired-above-threshold", "{}", detail());
            } else {
                // within the 1e-9 band, or between the population and the sample definition of the variance
                stats.class("minvar.band_or_between_definitions.unasserted");
                continue;
            }
            if fired {
                fired_full += 1;
            } else {
                silent_full += 1;
            }
        }
        stats.eval();
        stats.class_n("minvar.fired", fired_full as u64);
        stats.class_n("minvar.not_fired_full_window", silent_full as u64);
        if fired_full > 0 && silent_full > 0 {
            stats.nontrivial(hash_of(&format!("{c:?}")));
            stats.class("minvar.history_straddles_threshold");
        }
        stats.sample(4, || json!({"kind": "min_variation", "sample": sample, "threshold": threshold, "global": c.is_global, "steps": c.steps.len(), "fired": fired_full, "not_fired": silent_full}));
        Ok(())
    }
}

// ---------------------------------------------------------------------------------------------
// (e) relative_distance, mean / variance / stdev / cv, Remedian
// ---------------------------------------------------------------------------------------------

const MAGNITUDES: [f64; 13] = [0., 5e-324, 1e-300, 1e-9, 0.1, 0.5, 1., 1.0000000000000002, 6., 1e3, 1e6, 1e12, 1e100];

#[derive(Clone, Debug, Serialize, Deserialize)]
pub struct MathCase {
    pub xs: Vec<Num>,
    pub ys: Vec<Num>,
    /// sign bits for xs (low 32) and ys (high 32); 0 = non-negative stream
    pub neg: u64,
    pub base: u8,
    pub exponent: u8,
    /// xs is its first element repeated (constant stream: rounding may drive the variance below zero)
    pub constant: bool,
}

pub struct MathProp;

impl Prop for MathProp {
    type Case = MathCase;
    fn name(&self) -> &'static str { "math" }
    fn strategy(&self, _tier: Tier) -> BoxedStrategy<MathCase> {
        let stream = |max| prop::collection::vec(num(MAGNITUDES.len(), 3, (0, 5)), 0..=max);
        (stream(40), stream(8), prop_oneof![Just(0u64), any::<u64>()], 1u8..=11, 1u8..=3, prop::bool::weighted(0.1)).prop_map(|(xs, ys, neg, base, exponent, constant)| MathCase { xs, ys, neg, base, exponent, constant }).boxed()
    }
    fn cases(&self, tier: Tier) -> u32 { tier.pick(100_000, 5_000_000) }
    fn shards(&self, _tier: Tier) -> u32 { 16 }
    fn check(&self, c: &MathCase, stats: &Stats) -> Check {
        let vals = |v: &[Num], shift: u32| v.iter().enumerate().map(|(i, x)| x.get(&MAGNITUDES, &[1., 1e3, 1e-6]) * if c.neg >> (shift + i as u32 % 32) & 1 == 1 { -1. } else { 1. }).collect::<Vec<_>>();
        let (mut xs, ys) = (vals(&c.xs, 0), vals(&c.ys, 32));
        if c.constant && !xs.is_empty() {
            xs = vec![xs[0]; xs.len()];
            stats.class("math.constant_stream");
        }
        // relative distance: documented as D = |x - y| / max(|x|, |y|) per component (each in [0, 2]), euclidean norm of these
        let n = xs.len().min(ys.len());
        let d = relative_distance(xs.iter(), ys.iter());
        let spec = xs.iter().zip(ys.iter()).map(|(a, b)| if a.abs().max(b.abs()) == 0. { 0. } else { (a - b).abs() / a.abs().max(b.abs()) }).map(|x| x * x).sum::<f64>().sqrt();
        ensure!(d.is_finite() && d >= 0. && d <= 2. * (n as f64).sqrt() * (1. + 1e-12), "math:relative-distance-range", "relative_distance = {d:?} for {xs:?} / {ys:?}");
        ensure!((d - spec).abs() <= 1e-9 * spec.max(1.), "math:relative-distance-value", "relative_distance = {d:?}, formula gives {spec:?} for {xs:?} / {ys:?}");
        ensure!(relative_distance(ys.iter(), xs.iter()).to_bits() == d.to_bits(), "math:relative-distance-asymmetric", "{xs:?} / {ys:?}");
        ensure!(relative_distance(xs.iter(), xs.iter()) == 0., "math:relative-distance-identity", "{xs:?}");
        // statistics
        if xs.is_empty() {
            stats.class("math.empty_stream.unasserted");
        } else {
            let (lo, hi) = xs.iter().fold((f64::INFINITY, f64::NEG_INFINITY), |(l, h), x| (l.min(*x), h.max(*x)));
            let scale = lo.abs().max(hi.abs());
            let (mean, mean_iter, var, sd, cv, cv_safe) = (get_mean_slice(&xs), get_mean_iter(xs.iter().copied()), get_variance(&xs), get_stdev(&xs), get_cv(&xs), get_cv_safe(&xs));
            let what = format!("mean {mean:?} variance {var:?} stdev {sd:?} cv {cv:?} of {xs:?}");
            ensure!(mean.is_finite() && mean >= lo - 1e-9 * scale && mean <= hi + 1e-9 * scale, "math:mean-outside-hull", "{what}");
            ensure!((mean - mean_iter).abs() <= 1e-9 * scale, "math:mean-iter-differs", "get_mean_iter {mean_iter:?}; {what}");
            // population variance ("Bessel's correction is not used"), tolerance 1e-9 * scale^2
            let spec = xs.iter().map(|x| (x - mean) * (x - mean)).sum::<f64>() / xs.len() as f64;
            ensure!(var.is_finite() && (var - spec).abs() <= 1e-9 * scale * scale + 1e-9 * spec, "math:variance-value", "two-pass population variance {spec:?}; {what}");
            ensure!(!cv_safe.is_nan(), "math:cv-safe-nan", "get_cv_safe = {cv_safe}; {what}");
            if var < 0. {
                // rounding: not asserted, get_cv documents NaN through get_cv_safe
                stats.class("math.variance_slightly_negative.unasserted");
                stats.class(if sd.is_nan() { "math.stdev_nan.unasserted" } else { "math.stdev_not_nan_for_negative_variance" });
            } else {
                ensure!((sd - var.sqrt()).abs() <= 1e-9 * scale, "math:stdev-value", "{what}");
                if lo >= 0. {
                    // non-negative data: 0 <= cv <= sqrt(n - 1)
                    ensure!(cv >= 0. && cv <= ((xs.len() - 1) as f64).sqrt() * (1. + 1e-9) + 1e-9, "math:cv-range", "{what}");
                    ensure!(cv_safe.to_bits() == cv.to_bits(), "math:cv-safe-differs", "get_cv_safe = {cv_safe}; {what}");
                    stats.class("math.cv_checked_non_negative_stream");
                } else {
                    stats.class(if cv.is_finite() { "math.cv_signed_stream.unasserted" } else { "math.cv_signed_stream_non_finite.unasserted" });
                }
            }
        }
        // remedian
        let (base, exponent) = (c.base.max(1) as usize, c.exponent.max(1) as usize);
        let capacity = base.pow(exponent as u32);
        let mut remedian = Remedian::new(base, exponent, |a: &f64, b: &f64| a.total_cmp(b));
        ensure!(remedian.approx_median().is_none(), "remedian:median-of-nothing", "empty estimator returned a median");
        for (i, x) in xs.iter().enumerate() {
            let added = remedian.add_observation(*x);
            ensure!(added == (i < capacity), "remedian:add-flag", "observation {i} (base {base}, exponent {exponent}, capacity {capacity}) returned {added}");
            let m = remedian.approx_median();
            let seen = &xs[..(i + 1).min(capacity)];
            ensure!(m.is_some_and(|m| seen.iter().any(|s| s.to_bits() == m.to_bits())), "remedian:not-an-element", "after {} observations median {m:?} is not one of {seen:?}", i + 1);
            let mut sorted = seen.to_vec();
            sorted.sort_by(|a, b| a.total_cmp(b));
            let exact = sorted[sorted.len() / 2];
            if i + 1 == base {
                // one full buffer: its median (the definition of the estimator; pinned by the repo's unit test)
                ensure!(m.unwrap().to_bits() == exact.to_bits(), "remedian:full-buffer-not-median", "base {base}: median {m:?} of {seen:?}, expected {exact:?}");
                stats.class("remedian.full_first_buffer_exact");
            } else if i + 1 < base {
                stats.class(if m.unwrap().to_bits() == exact.to_bits() { "remedian.partial_buffer_is_median" } else { "remedian.partial_buffer_is_lower_rank.unasserted" });
            }
        }
        stats.eval();
        if xs.len() > capacity { stats.class("remedian.stream_beyond_capacity"); }
        if xs.len() > base && exponent > 1 { stats.class("remedian.multi_buffer"); }
        if n >= 2 && c.neg != 0 { stats.class("math.relative_distance_mixed_sign"); }
        let mixed_scale = xs.iter().any(|x| x.abs() >= 1e6) && xs.iter().any(|x| *x != 0. && x.abs() <= 1e-9);
        if mixed_scale {
            stats.nontrivial(hash_of(&format!("{c:?}")));
            stats.class("math.stream_mixes_1e6_and_1e-9_scales");
        }
        Ok(())
    }
}

pub fn property(_tier: Tier) -> PropertyDef {
    PropertyDef {
        id: "C18",
        level: "exploration",
        rule: "proptest, numbers kept symbolic (palette / uniform fill / small int) so replays are bit-exact. (slot_machine) reward histories of 1-300 items from {0, 5e-324, 1e-300, 1e-9, 0.05, 1, 6, 18, 1e3, 1e6} and uniform fills up to 1e6, fed to 1 slot or to 2-5 SlotMachine(prior mean 1, as the shipped caller) picked by random_argmax over sample() like SearchAgent; a recording DistributionSampler rejects shape<=0, scale<=0, non-finite and std_dev<0 before delegating to the default sampler; after every update: alpha>0, beta>0, all finite, v>=0, n = rewards fed, mu within the hull of the rewards seen by the slot (abs. tolerance 1e-9*max(1,max reward)), every sample finite, arg-max returns a configured slot holding a maximal sample. (argmax_weighted) random_argmax over 0-12 finite values (ties, +-0, denormals, +-f64::MAX) and DefaultRandom::weighted over 1-10 weights from {0,1,2,3,10,100,1e3,1e6,usize::MAX}, 6 draws each: in-range, maximal element, None only for empty input, zero weight only picked when all weights are zero. (dynamic_selective) DynamicSelective(is_experimental) with 1-4 scripted operators over a harness HeuristicContext, 1-40 searches (search / search_many) with generated parent, offspring and best-known fitness (1-3 objectives, non-negative palette from 0 and denormal to f64::MAX), improvement ratio and empty population; parsed Display telemetry: one row per search attributed to a configured operator, reward finite, >=0 and <= 9(N+1) (documented distance range [-N,N] => base <= 3(N+1), multiplier <= 3; N=1 is the literal [0,6]x3), parameter rows alpha>0, beta>0, v>=0, finite, mu within hull of prior and rewards. Two fixed probes cover opposite-sign fitness, which the campaign excludes by construction. (termination_estimates) MaxGeneration / MaxTime / TargetProximity / MinVariation / CompositeTermination estimates before and after is_termination over limits incl. 0, usize::MAX, 5e-324, f64::MAX: in [0,1]. (min_variation) MinVariation sample mode (sample 1-8, thresholds 0..1, global or exploitation-only) driven generation by generation (0,1,2.. or Telemetry's 0,0,1,2..) with 1-3 objectives base*(1+spread*jitter) incl. constant-zero objectives and stagnation; independent CV per objective over the last `sample` generations: must fire when every sample-CV < threshold-band, must not fire when some population-CV > threshold+band (band 1e-9+1e-9*threshold), never before `sample` generations were observed, never outside exploitation when not global. (math) relative_distance (range [0,2*sqrt(n)], formula, symmetry, identity), mean within hull, population variance vs two-pass (1e-9*scale^2), stdev, cv in [0,sqrt(n-1)] for non-negative streams, get_cv_safe never NaN, Remedian(base 1-11, exponent 1-3): add flag vs capacity, estimate is an element of the stream, equals the median when exactly one buffer is full. Non-trivial: reward history mixing a zero/denormal reward with one >=1e3; arg-max input with a tie at the maximum; search whose offspring differs from parent or best first at objective index >=1; estimate case with generation beyond the limit; variation history with asserted fired and asserted not-fired full windows; statistic stream mixing magnitudes >=1e6 and <=1e-9. Distinct by case hash.",
        assumptions: vec![
            "SlotMachine prior mean 1 and DefaultDistributionSampler, as constructed by hyper/dynamic_selective.rs (the only shipped caller)",
            "weighted(): at least one weight (callers pass one weight per configured operator); a zero weight may be returned only when all weights are zero (up to the 2^-52 event of a uniform draw of exactly 0)",
            "campaign fitness values are non-negative (costs); opposite-sign fitness components are exercised only by the two fixed probes",
            "reward bound for N>1 objectives is the one implied by the documented distance range [-N,N]; rewards above the literal [0,6]x3 are counted in ds.reward_above_literal_0_6_x3_range_multi_objective",
            "operator durations are whatever the wall clock gives (0-1 ms); they only select a documented multiplier in (0.5,3] and never decide a verdict",
            "variation criterion: objective values are 0 or of magnitude 1e-3..4e7 (below ~1e-154 the squared deviations underflow and the criterion fires regardless of the CV, above ~1e154 they overflow and it never fires: extreme scales are not generated); generations are consecutive as produced by the evolution loop; windows with a negative mean, with a generation lacking a best-known solution, within the 1e-9 band or between the population and sample definitions of variance are counted (*.unasserted), not asserted",
            "statistics helpers: magnitudes up to 1e100 (squares stay finite); a variance rounded slightly below zero and the resulting NaN stdev/cv are counted, get_cv documents NaN via get_cv_safe; Remedian estimates on a partially filled first buffer are only required to be stream elements (the repo's unit test pins a lower-rank estimate there)",
        ],
        props: vec![Box::new(SlotProp), Box::new(SelProp), Box::new(DsProp { probe: None }), Box::new(EstProp), Box::new(MvProp), Box::new(MathProp), Box::new(DsProp { probe: Some(0) }), Box::new(DsProp { probe: Some(1) })],
        extra: None,
        required_classes: vec![
            "slot.mix_zero_or_denormal_with_ge_1e3", "slot.thompson_multi_slot", "slot.single_slot", "slot.history_ge_100", "argmax.ties_at_max",
            "argmax.ties_resolved_to_different_indices", "argmax.single", "argmax.empty", "weighted.some_zero", "weighted.all_zero",
            "weighted.single", "ds.pair_differs_first_at_index_ge_1", "ds.reward_positive", "ds.reward_zero", "ds.param_rows", "ds.best_to_best",
            "ds.diverse_to_best", "ds.scalar_objective", "ds.multi_objective", "estimate.zero_limit", "estimate.generation_beyond_limit",
            "estimate.generation_strictly_inside_limit", "minvar.fired", "minvar.not_fired_full_window", "minvar.history_straddles_threshold", "minvar.gated_by_phase",
            "math.cv_checked_non_negative_stream", "math.constant_stream", "math.stream_mixes_1e6_and_1e-9_scales",
            "remedian.full_first_buffer_exact", "remedian.multi_buffer", "remedian.stream_beyond_capacity",
        ],
    }
}
