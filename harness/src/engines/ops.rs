//! C04 / C05: operator histories on InsertionContext.
//! C04: invariant Inv after every step + parent unchanged.  C05: cached state == recomputation.

use super::common::*;
use super::e2e::{read_core, tolerance};
use super::pgen::*;
use super::refmodel;
use crate::fw::*;
use proptest::prelude::*;
use rosomaxa::evolution::TelemetryMode;
use rosomaxa::hyper::HeuristicSearchOperator;
use rosomaxa::prelude::*;
use rosomaxa::utils::{Parallelism, ThreadPool};
use serde::{Deserialize, Serialize};
use serde_json::json;
use std::collections::{BTreeMap, BTreeSet, HashMap};
use std::io::{BufReader, BufWriter};
use std::sync::Arc;
use vrp_core::construction::heuristics::*;
use vrp_core::models::problem::{Job, JobIdDimension, VehicleIdDimension};
use vrp_core::models::{Problem as CoreProblem, Solution as CoreSolution};
use vrp_core::solver::search::*;
use vrp_core::solver::{RefinementContext, create_default_heuristic_operator, create_elitism_population};
use vrp_pragmatic::format::solution::{PragmaticOutputType, deserialize_solution, write_pragmatic};

#[derive(Clone, Debug, Serialize, Deserialize)]
pub enum OpSpec {
    Ruin(u8),
    Recreate(u8),
    Local(u8),
    Search(u8),
}

#[derive(Clone, Debug, Serialize, Deserialize)]
pub struct OpsCase {
    pub spec: ProblemSpec,
    pub initial: u8,
    pub seed: u64,
    pub ops: Vec<OpSpec>,
    /// non-empty: relations are read off a witness solution with these choices and added to the problem
    #[serde(default)]
    pub relations: Vec<u16>,
}

pub const RUINS: [&str; 9] = ["adjusted-string", "neighbour", "random-job", "random-route", "close-route", "worst-route", "worst-job", "cluster", "composite"];
pub const RECREATES: [&str; 11] = ["cheapest", "skip-best", "blinks", "gaps", "nearest", "skip-random-phased", "slice", "farthest", "perturbation", "regret", "skip-random"];
pub const LOCALS: [&str; 7] = ["swap-star", "inter-route-best", "inter-route-random", "intra-route-random", "sequence", "reschedule-departure", "composite-local"];
pub const SEARCHES: [&str; 8] = ["ruin-recreate", "local-search", "decompose", "redistribute", "infeasible", "lkh-improvement", "lkh-diverse", "default-weighted"];

fn small_limits() -> RemovalLimits {
    RemovalLimits { removed_activities_range: 1..6, affected_routes_range: 1..3 }
}

pub fn make_ruin(k: u8, problem: &Arc<CoreProblem>) -> Arc<dyn Ruin> {
    let l = small_limits();
    match k as usize % RUINS.len() {
        0 => Arc::new(AdjustedStringRemoval::new_with_defaults(l)),
        1 => Arc::new(NeighbourRemoval::new(l)),
        2 => Arc::new(RandomJobRemoval::new(l)),
        3 => Arc::new(RandomRouteRemoval::new(l)),
        4 => Arc::new(CloseRouteRemoval::new(l)),
        5 => Arc::new(WorstRouteRemoval::new(l)),
        6 => Arc::new(WorstJobRemoval::new(2, l)),
        7 => Arc::new(ClusterRemoval::new(problem.clone(), l).expect("cluster removal")),
        _ => Arc::new(CompositeRuin::new(vec![(Arc::new(NeighbourRemoval::new(l.clone())), 1.), (Arc::new(RandomJobRemoval::new(l)), 0.5)])),
    }
}

pub fn make_recreate(k: u8, random: Arc<dyn Random>) -> Arc<dyn Recreate> {
    match k as usize % RECREATES.len() {
        0 => Arc::new(RecreateWithCheapest::new(random)),
        1 => Arc::new(RecreateWithSkipBest::new(1, 2, random)),
        2 => Arc::new(RecreateWithBlinks::new_with_defaults(random)),
        3 => Arc::new(RecreateWithGaps::new(2, 20, random)),
        4 => Arc::new(RecreateWithNearestNeighbor::new(random)),
        5 => Arc::new(RecreateWithSkipRandom::default_explorative_phased(Arc::new(RecreateWithCheapest::new(random.clone())), random)),
        6 => Arc::new(RecreateWithSlice::new(random)),
        7 => Arc::new(RecreateWithFarthest::new(random)),
        8 => Arc::new(RecreateWithPerturbation::new_with_defaults(random)),
        9 => Arc::new(RecreateWithRegret::new(2, 3, random)),
        _ => Arc::new(RecreateWithSkipRandom::new(random)),
    }
}

fn make_local(k: u8, random: Arc<dyn Random>) -> Arc<dyn LocalOperator> {
    match k as usize % LOCALS.len() {
        0 => Arc::new(ExchangeSwapStar::new(random, 200)),
        1 => Arc::new(ExchangeInterRouteBest::default()),
        2 => Arc::new(ExchangeInterRouteRandom::default()),
        3 => Arc::new(ExchangeIntraRouteRandom::default()),
        4 => Arc::new(ExchangeSequence::default()),
        5 => Arc::new(RescheduleDeparture::default()),
        _ => Arc::new(CompositeLocalOperator::new(vec![(Arc::new(ExchangeInterRouteBest::default()), 1), (Arc::new(ExchangeSequence::default()), 1), (Arc::new(ExchangeIntraRouteRandom::default()), 1)], 1, 2)),
    }
}

type SearchOp = Arc<dyn HeuristicSearchOperator<Context = RefinementContext, Objective = vrp_core::models::GoalContext, Solution = InsertionContext> + Send + Sync>;

fn make_search(k: u8, problem: &Arc<CoreProblem>, env: &Arc<Environment>) -> SearchOp {
    let random = env.random.clone();
    let default_op = || create_default_heuristic_operator(problem.clone(), env.clone());
    match k as usize % SEARCHES.len() {
        0 => Arc::new(RuinAndRecreate::new(make_ruin(8, problem), make_recreate(0, random))),
        1 => Arc::new(LocalSearch::new(make_local(6, random))),
        2 => Arc::new(DecomposeSearch::new(default_op(), (2, 4), 2, 200)),
        3 => Arc::new(RedistributeSearch::new(make_recreate(0, random))),
        4 => Arc::new(InfeasibleSearch::new(default_op(), make_recreate(0, random), 2, (0.5, 0.5), (0.5, 0.5))),
        5 => Arc::new(LKHSearch::new(LKHSearchMode::ImprovementOnly)),
        6 => Arc::new(LKHSearch::new(LKHSearchMode::Diverse)),
        _ => default_op(),
    }
}

fn op_strategy() -> impl Strategy<Value = OpSpec> {
    prop_oneof![
        3 => (0u8..RUINS.len() as u8).prop_map(OpSpec::Ruin),
        4 => (0u8..RECREATES.len() as u8).prop_map(OpSpec::Recreate),
        4 => (0u8..LOCALS.len() as u8).prop_map(OpSpec::Local),
        4 => (0u8..SEARCHES.len() as u8).prop_map(OpSpec::Search),
    ]
}

// ---------------------------------------------------------------------------------------------
// observation helpers
// ---------------------------------------------------------------------------------------------

fn job_label(job: &Job) -> String {
    job.dimens().get_job_id().cloned().unwrap_or_else(|| "?".into())
}

fn is_conditional(job: &Job) -> bool {
    job.dimens().get_vehicle_id().is_some()
}

/// Deep structural snapshot of a context (for "parent unchanged").
fn snapshot(ctx: &InsertionContext) -> String {
    let mut out = String::new();
    for r in ctx.solution.routes.iter() {
        out.push_str(&format!("R[{:p}|stale={}]", Arc::as_ptr(&r.route().actor), r.is_stale()));
        for a in r.route().tour.all_activities() {
            out.push_str(&format!(
                "({:?},{},{},{},{:?},{:?},{:?})",
                a.job.as_ref().map(Arc::as_ptr),
                a.place.idx,
                a.place.location,
                a.place.duration,
                (a.place.time.start, a.place.time.end),
                (a.schedule.arrival, a.schedule.departure),
                a.commute.as_ref().map(|c| c.duration())
            ));
        }
        out.push_str(&format!("{:?}", r.state().verif_digest()));
    }
    let ids = |jobs: &mut dyn Iterator<Item = &Job>| -> Vec<String> {
        let mut v = jobs.map(job_label).collect::<Vec<_>>();
        v.sort();
        v
    };
    out.push_str(&format!("|req{:?}", ids(&mut ctx.solution.required.iter())));
    out.push_str(&format!("|ign{:?}", ids(&mut ctx.solution.ignored.iter())));
    out.push_str(&format!("|una{:?}", ids(&mut ctx.solution.unassigned.keys())));
    out.push_str(&format!("|loc{:?}", ids(&mut ctx.solution.locked.iter())));
    let mut avail = ctx.solution.registry.resources().available().map(|a| format!("{:p}", Arc::as_ptr(&a))).collect::<Vec<_>>();
    avail.sort();
    out.push_str(&format!("|avail{avail:?}"));
    out.push_str(&format!("|st{:?}", solution_digest(&ctx.solution.state)));
    out
}

/// solution-level state without history-carrying keys (tabu list, footprint, weights)
fn solution_digest(state: &SolutionState) -> BTreeMap<String, String> {
    state.verif_digest().into_iter().filter(|(k, _)| !(k.contains("TabuList") || k.contains("Footprint") || k.contains("SolutionWeights") || k.contains("tabu"))).collect()
}

/// Placement signature: where every job lives (ignores order inside containers).
fn placement(ctx: &InsertionContext) -> Vec<(String, String)> {
    let mut v = vec![];
    for (ri, r) in ctx.solution.routes.iter().enumerate() {
        let seq = r.route().tour.all_activities().map(|a| a.retrieve_job().map(|j| job_label(&j)).unwrap_or("-".into())).collect::<Vec<_>>().join(">");
        v.push((format!("route{ri}:{:p}", Arc::as_ptr(&r.route().actor)), seq));
    }
    v
}

fn moved(a: &InsertionContext, b: &InsertionContext) -> bool {
    let pa = placement(a).into_iter().map(|(_, s)| s).collect::<BTreeSet<_>>();
    let pb = placement(b).into_iter().map(|(_, s)| s).collect::<BTreeSet<_>>();
    let dep = |c: &InsertionContext| c.solution.routes.iter().map(|r| (r.route().tour.start().map(|s| s.schedule.departure as i64).unwrap_or(0), r.route().tour.total())).collect::<BTreeSet<_>>();
    pa != pb || dep(a) != dep(b) || a.solution.required.len() != b.solution.required.len() || a.solution.unassigned.len() != b.solution.unassigned.len()
}

/// Compares two digest values: numbers within 1e-6 relative, everything else exactly.
fn close(a: &str, b: &str) -> bool {
    if a == b {
        return true;
    }
    let tok = |s: &str| -> Vec<String> {
        let mut out = vec![];
        let mut cur = String::new();
        for ch in s.chars() {
            if ch.is_ascii_digit() || ch == '.' || ch == '-' || ch == 'e' || ch == '+' {
                cur.push(ch);
            } else {
                if !cur.is_empty() {
                    out.push(std::mem::take(&mut cur));
                }
                out.push(ch.to_string());
            }
        }
        if !cur.is_empty() {
            out.push(cur);
        }
        out
    };
    let (ta, tb) = (tok(a), tok(b));
    ta.len() == tb.len()
        && ta.iter().zip(tb.iter()).all(|(x, y)| {
            x == y
                || match (x.parse::<f64>(), y.parse::<f64>()) {
                    (Ok(p), Ok(q)) => (p - q).abs() <= 1e-6 * p.abs().max(q.abs()).max(1.),
                    _ => false,
                }
        })
}

// ---------------------------------------------------------------------------------------------
// C04 invariant
// ---------------------------------------------------------------------------------------------

fn check_inv(ctx: &InsertionContext, what: &str) -> Check {
    let problem = &ctx.problem;
    let sol = &ctx.solution;
    // (i) every customer job in exactly one place; conditional jobs at most once
    let mut places: HashMap<Job, Vec<String>> = HashMap::new();
    for (ri, r) in sol.routes.iter().enumerate() {
        for j in r.route().tour.jobs() {
            places.entry(j.clone()).or_default().push(format!("route{ri}"));
        }
    }
    for j in sol.required.iter() {
        places.entry(j.clone()).or_default().push("required".into());
    }
    for j in sol.ignored.iter() {
        places.entry(j.clone()).or_default().push("ignored".into());
    }
    for j in sol.unassigned.keys() {
        places.entry(j.clone()).or_default().push("unassigned".into());
    }
    for job in problem.jobs.all() {
        let p = places.get(job).cloned().unwrap_or_default();
        if is_conditional(job) {
            ensure!(p.iter().filter(|x| x.starts_with("route")).count() <= 1, "inv:conditional-job-in-two-tours", "{what}: marker job {} lives in {p:?}", job_label(job));
            ensure!(p.len() <= 1 || !p.iter().any(|x| x.starts_with("route")), "inv:conditional-job-assigned-and-pending", "{what}: marker job {} lives in {p:?}", job_label(job));
            ensure!(!p.is_empty(), "inv:conditional-job-lost", "{what}: marker job {} is neither in a tour nor required / ignored / unassigned", job_label(job));
        } else {
            ensure!(p.len() == 1, if p.is_empty() { "inv:job-lost" } else { "inv:job-in-several-places" }, "{what}: job {} lives in {p:?}", job_label(job));
        }
    }
    for j in places.keys() {
        ensure!(problem.jobs.all().iter().any(|x| x == j), "inv:foreign-job", "{what}: a job not in the problem appears in the solution");
    }
    // (ii) registry
    let available: Vec<_> = sol.registry.resources().available().collect();
    let mut used_actors = vec![];
    for r in sol.routes.iter() {
        let actor = &r.route().actor;
        ensure!(!used_actors.iter().any(|a: &Arc<_>| Arc::ptr_eq(a, actor)), "inv:two-routes-one-actor", "{what}: two routes share an actor");
        used_actors.push(actor.clone());
        ensure!(!available.iter().any(|a| Arc::ptr_eq(a, actor)), "inv:used-actor-available", "{what}: actor of a route is still available in the registry");
    }
    for actor in problem.fleet.actors.iter() {
        let used = used_actors.iter().any(|a| Arc::ptr_eq(a, actor));
        let avail = available.iter().any(|a| Arc::ptr_eq(a, actor));
        ensure!(used != avail, "inv:registry-drift", "{what}: actor used={used} available={avail}");
    }
    for r in sol.registry.next_route() {
        ensure!(!used_actors.iter().any(|a| Arc::ptr_eq(a, &r.route().actor)), "inv:next-route-offers-used-actor", "{what}: next_route offers a used actor");
    }
    // (iii) tours: job set == jobs of activities; multi jobs whole, each task once, permitted order
    for (ri, r) in sol.routes.iter().enumerate() {
        let tour = &r.route().tour;
        let mut seen: HashMap<Job, Vec<usize>> = HashMap::new();
        for a in tour.all_activities() {
            if let Some(job) = a.retrieve_job() {
                let sub = match &job {
                    Job::Multi(m) => m.jobs.iter().position(|s| a.job.as_ref().is_some_and(|x| Arc::ptr_eq(s, x))).unwrap_or(usize::MAX),
                    Job::Single(_) => 0,
                };
                seen.entry(job).or_default().push(sub);
            }
        }
        let set: BTreeSet<String> = tour.jobs().map(job_label).collect();
        let from_acts: BTreeSet<String> = seen.keys().map(job_label).collect();
        ensure!(set == from_acts && tour.job_count() == seen.len(), "inv:tour-job-set", "{what}: route {ri} job set {set:?} != jobs of activities {from_acts:?}");
        for (job, subs) in seen.iter() {
            match job {
                Job::Single(_) => ensure!(subs.len() == 1, "inv:activity-duplicated", "{what}: route {ri} has {} activities of single job {}", subs.len(), job_label(job)),
                Job::Multi(m) => {
                    let mut sorted = subs.clone();
                    sorted.sort();
                    ensure!(sorted == (0..m.jobs.len()).collect::<Vec<_>>(), "inv:multi-job-not-whole", "{what}: route {ri} multi job {} has task activities {subs:?} of {}", job_label(job), m.jobs.len());
                    // permitted order (documented): all pickups of the job before any of its other tasks.
                    // NOTE: Multi::validate() is not used as oracle: the pragmatic permutator's validate()
                    // returns false for every order when the job has no pickups or only pickups.
                    let kinds: Vec<bool> = subs.iter().map(|i| vrp_pragmatic::format::JobTypeDimension::get_job_type(&m.jobs[*i].dimens).is_some_and(|t| t == "pickup")).collect();
                    let has_both = kinds.iter().any(|p| *p) && kinds.iter().any(|p| !*p);
                    if has_both {
                        let last_pickup = kinds.iter().rposition(|p| *p).unwrap();
                        let first_other = kinds.iter().position(|p| !*p).unwrap();
                        ensure!(last_pickup < first_other, "inv:multi-job-order", "{what}: route {ri} multi job {} has a pickup after another task (task order {subs:?})", job_label(job));
                    }
                }
            }
        }
    }
    // (iv) pinned jobs: no relations are generated yet (solution.locked only holds marker jobs here)
    Ok(())
}

/// (v) R-feasibility of the assigned part through the public writer.
/// Returns Ok(true) when an open known finding was hit (the state is tainted, the history must stop).
pub fn check_feasible(ctx: &InsertionContext, rendered: &Rendered, what: &str, property: &str, stats: &Stats, refresh: bool, op_family: &str) -> Result<bool, Failure> {
    let mut copy = ctx.deep_copy();
    if refresh {
        copy.restore();
    }
    // empty routes are an internal intermediate (removed when insertion is finalized)
    copy.solution.keep_routes(&|r| r.route().tour.has_jobs());
    let problem = copy.problem.clone();
    let solution: CoreSolution = copy.into();
    let mut writer = BufWriter::new(Vec::new());
    write_pragmatic(problem.as_ref(), &solution, PragmaticOutputType::default(), &mut writer).map_err(|e| Failure::new("inv:cannot-write", format!("{what}: {e}")))?;
    let bytes = writer.into_inner().map_err(|e| Failure::new("inv:cannot-write", format!("{e}")))?;
    let doc = deserialize_solution(BufReader::new(bytes.as_slice())).map_err(|e| Failure::new("inv:cannot-parse", format!("{e}")))?;
    let verdict = refmodel::evaluate(&rendered.problem, &rendered.matrices, &doc, tolerance(&rendered.problem));
    let mut tainted = false;
    for f in verdict.findings.iter() {
        let kind = match f.prop {
            refmodel::Prop::Feasibility => "feasibility",
            refmodel::Prop::Conservation => "conservation",
            refmodel::Prop::Reporting => continue,
        };
        // a tour without customer jobs cannot be seen at this level (routes with only markers are judged by inv)
        let sig = format!("{kind}:{}", f.rule);
        if kind == "feasibility" && super::e2e::known_nonmetric(property, rendered, &f.rule, stats) {
            tainted = true;
            continue;
        }
        if f.rule == "tour-without-jobs" {
            // a tour holding only marker jobs is not excluded by the C04 statement (C02 judges returned solutions)
            stats.class("unspecified.route_with_marker_jobs_only");
            continue;
        }
        if known_open(property, &sig) {
            stats.known_hit(&sig);
            tainted = true;
            continue;
        }
        // hard-constraint violations right after a repair-based operator share one root cause (see known findings)
        let family_sig = format!("feasibility@{op_family}");
        if kind == "feasibility" && known_open(property, &family_sig) && std::env::var("VERIF_NO_FAMILY").is_err() {
            stats.known_hit(&family_sig);
            stats.class(&format!("excluded_known.detail.{sig}@{op_family}"));
            tainted = true;
            continue;
        }
        return Err(Failure::new(format!("inv:{sig}"), format!("{what}: [{}] {}\n--- problem+matrices:\n{}\n--- solution:\n{}", f.rule, f.detail, json!({"problem": rendered.problem, "matrices": rendered.matrices}), String::from_utf8_lossy(&bytes).chars().filter(|c| !c.is_whitespace()).collect::<String>())));
    }
    Ok(tainted)
}

// ---------------------------------------------------------------------------------------------
// C05 recomputation
// ---------------------------------------------------------------------------------------------

fn strip(ctx: &InsertionContext) -> InsertionContext {
    InsertionContext {
        problem: ctx.problem.clone(),
        solution: SolutionContext {
            required: ctx.solution.required.clone(),
            ignored: ctx.solution.ignored.clone(),
            unassigned: ctx.solution.unassigned.clone(),
            locked: ctx.solution.locked.clone(),
            routes: ctx.solution.routes.iter().map(|r| RouteContext::new_with_state(r.route().deep_copy(), RouteState::default())).collect(),
            registry: ctx.solution.registry.deep_copy(),
            state: SolutionState::default(),
        },
        environment: ctx.environment.clone(),
    }
}

fn check_cache(ctx: &InsertionContext, what: &str) -> Check {
    let mut re = strip(ctx);
    let goal = ctx.problem.goal.clone();
    re.solution.routes.iter_mut().for_each(|r| goal.accept_route_state(r));
    goal.accept_solution_state(&mut re.solution);
    // (e) fixpoint: recomputation must not need to move anything
    ensure!(placement(ctx) == placement(&re), "cache:recompute-moves-jobs", "{what}: recomputation from bare tours changes the tours:\n cached   {:?}\n recomputed {:?}", placement(ctx), placement(&re));
    let ids = |jobs: &mut dyn Iterator<Item = &Job>| -> BTreeSet<String> { jobs.map(job_label).collect() };
    ensure!(
        ids(&mut ctx.solution.required.iter()) == ids(&mut re.solution.required.iter()) && ids(&mut ctx.solution.unassigned.keys()) == ids(&mut re.solution.unassigned.keys()) && ids(&mut ctx.solution.ignored.iter()) == ids(&mut re.solution.ignored.iter()),
        "cache:recompute-moves-pending-jobs",
        "{what}: recomputation changes required/ignored/unassigned: cached req {:?} ign {:?} una {:?}; recomputed req {:?} ign {:?} una {:?}",
        ids(&mut ctx.solution.required.iter()),
        ids(&mut ctx.solution.ignored.iter()),
        ids(&mut ctx.solution.unassigned.keys()),
        ids(&mut re.solution.required.iter()),
        ids(&mut re.solution.ignored.iter()),
        ids(&mut re.solution.unassigned.keys())
    );
    for (ri, (a, b)) in ctx.solution.routes.iter().zip(re.solution.routes.iter()).enumerate() {
        // (a) schedules
        for (ai, (x, y)) in a.route().tour.all_activities().zip(b.route().tour.all_activities()).enumerate() {
            let ok = |p: f64, q: f64| (p - q).abs() <= 1e-6 * p.abs().max(q.abs()).max(1.);
            ensure!(ok(x.schedule.arrival, y.schedule.arrival) && ok(x.schedule.departure, y.schedule.departure), "cache:schedule", "{what}: route {ri} activity {ai}: cached schedule {:?} != recomputed {:?}", (x.schedule.arrival, x.schedule.departure), (y.schedule.arrival, y.schedule.departure));
        }
        // (b) route state
        let (da, db) = (a.state().verif_digest(), b.state().verif_digest());
        let keys: BTreeSet<&String> = da.keys().chain(db.keys()).collect();
        for k in keys {
            let (va, vb) = (da.get(k), db.get(k));
            // shared-resource availability is coupled to the whole solution: the code documents that it cannot be
            // estimated on partial contexts; per-activity vectors are compared up to trailing "no value" entries
            if k.contains("SharedResourceStateKey") {
                let complete = ctx.solution.get_jobs_amount() == ctx.problem.jobs.size();
                if !complete {
                    continue;
                }
                let norm = |v: &String| v.trim_end_matches(']').trim_end_matches(|c| c == '-' || c == ',').to_string();
                if let (Some(x), Some(y)) = (va, vb) {
                    ensure!(close(&norm(x), &norm(y)), format!("cache:route-state:{}", short_key(k)), "{what}: route {ri} state {k}: cached {x} != recomputed {y}");
                }
                continue;
            }
            match (va, vb) {
                (Some(x), Some(y)) => ensure!(close(x, y), format!("cache:route-state:{}", short_key(k)), "{what}: route {ri} state {k}: cached {x} != recomputed {y}"),
                (None, Some(y)) => return Err(Failure::new(format!("cache:route-state-missing:{}", short_key(k)), format!("{what}: route {ri} state {k} missing in cache, recomputed {y}"))),
                (Some(x), None) => return Err(Failure::new(format!("cache:route-state-extra:{}", short_key(k)), format!("{what}: route {ri} state {k} cached {x} but not produced by recomputation"))),
                _ => {}
            }
        }
    }
    // (c) solution state (tour-derived part)
    let (sa, sb) = (solution_digest(&ctx.solution.state), solution_digest(&re.solution.state));
    let keys: BTreeSet<&String> = sa.keys().chain(sb.keys()).collect();
    for k in keys {
        if let (Some(x), Some(y)) = (sa.get(k), sb.get(k)) {
            ensure!(close(x, y), format!("cache:solution-state:{}", short_key(k)), "{what}: solution state {k}: cached {x} != recomputed {y}");
        }
    }
    // (d) fitness is a function of the tours; identical tours compare equal
    let (fa, fb) = (ctx.fitness().collect::<Vec<_>>(), re.fitness().collect::<Vec<_>>());
    ensure!(fa.len() == fb.len() && fa.iter().zip(fb.iter()).all(|(p, q)| (p - q).abs() <= 1e-6 * p.abs().max(q.abs()).max(1.)), "cache:fitness", "{what}: fitness from cache {fa:?} != fitness after recomputation {fb:?}");
    ensure!(goal.total_order(ctx, &re) == std::cmp::Ordering::Equal || fa != fb, "cache:identical-tours-not-equal", "{what}: solutions with identical tours do not compare equal: {fa:?} vs {fb:?}");
    Ok(())
}

fn short_key(k: &str) -> String {
    k.rsplit("::").next().unwrap_or(k).to_string()
}

// ---------------------------------------------------------------------------------------------
// the property
// ---------------------------------------------------------------------------------------------

pub struct OpsProp {
    /// true = C05 (cache), false = C04 (invariant)
    pub cache: bool,
}

impl Prop for OpsProp {
    type Case = OpsCase;
    fn name(&self) -> &'static str {
        if self.cache { "operator_histories_cache" } else { "operator_histories_invariant" }
    }
    fn strategy(&self, tier: Tier) -> BoxedStrategy<OpsCase> {
        (mixed_spec(tier.pick(12, 24)), 0u8..RECREATES.len() as u8, any::<u64>(), prop::collection::vec(op_strategy(), 1..=tier.pick(12, 40)), prop_oneof![3 => Just(vec![]), 1 => prop::collection::vec(any::<u16>(), 24)]).prop_map(|(spec, initial, seed, ops, relations)| OpsCase { spec, initial, seed, ops, relations }).boxed()
    }
    fn cases(&self, tier: Tier) -> u32 {
        tier.pick(12_000, 50_000)
    }
    fn shards(&self, _tier: Tier) -> u32 {
        16
    }
    fn max_shrink_iters(&self) -> u32 {
        300
    }
    fn check(&self, c: &OpsCase, stats: &Stats) -> Check {
        let property = if self.cache { "C05" } else { "C04" };
        let mut rendered = render(&c.spec);
        if !c.relations.is_empty() {
            // pinned jobs: relations read off a witness solution of the (metric) problem
            let base = render(&super::e2e::relation_spec(c.spec.clone()));
            rendered = match super::e2e::with_witness_relations(&base, &c.relations, stats)? {
                Some((locked, _)) => {
                    stats.class("ops.problem_with_relations");
                    locked
                }
                None => base,
            };
        }
        let core = read_core(&rendered.problem, &rendered.matrices).map_err(|e| Failure::new("harness:generator-invalid", format!("generated problem was rejected: {e}")))?;
        // single-thread pool: the case seed owns the random streams
        let pool = ThreadPool::new(1);
        if std::env::var("VERIF_OPS_OBS").is_ok() {
            use std::sync::Mutex;
            static PREV: Mutex<String> = Mutex::new(String::new());
            static DONE: std::sync::atomic::AtomicBool = std::sync::atomic::AtomicBool::new(false);
            verif_hooks::set_insertion_observer(Some(Arc::new(|ctx| {
                let render = |ctx: &InsertionContext| {
                    ctx.solution.routes.iter().map(|r| format!("[{}]", r.route().tour.all_activities().map(|a| format!("{}@{}({:.0}..{:.0} twend {:.0})", a.retrieve_job().map(|j| job_label(&j)).unwrap_or("-".into()), a.place.location, a.schedule.arrival - 1577836800., a.schedule.departure - 1577836800., if a.place.time.end > 1e12 { -1. } else { a.place.time.end - 1577836800. })).collect::<Vec<_>>().join(" "))).collect::<Vec<_>>().join("  ")
                };
                let now = render(ctx);
                if std::env::var("VERIF_OPS_OBS").is_ok_and(|v| v == "all") {
                    crate::outln!("OBS step: {now}  digest0: {:?}", ctx.solution.routes.first().map(|r| r.state().verif_digest().into_iter().filter(|(k, _)| k.contains("Total") || k.contains("Limit")).collect::<Vec<_>>()));
                }
                let bad = ctx.solution.routes.iter().any(|r| r.route().tour.all_activities().any(|a| a.schedule.arrival > a.place.time.end + 1e-6));
                if bad && !DONE.swap(true, std::sync::atomic::Ordering::SeqCst) {
                    crate::outln!("OBS first violating insertion:\n  before: {}\n  after:  {}", PREV.lock().unwrap(), now);
                }
                *PREV.lock().unwrap() = now;
            })));
        }
        pool.execute(|| {
            let env = quiet_env(c.seed, Parallelism::new(1, 1), None);
            let random = env.random.clone();
            let mut rctx = RefinementContext::new(core.clone(), Box::new(create_elitism_population(core.goal.clone(), env.clone())), TelemetryMode::None, env.clone());
            let mut state = make_recreate(c.initial, random.clone()).run(&rctx, InsertionContext::new(core.clone(), env.clone()));
            rctx.add_solution(state.deep_copy());
            if self.cache {
                check_cache(&state, &format!("initial {}", RECREATES[c.initial as usize % RECREATES.len()]))?;
            } else {
                check_inv(&state, "initial construction")?;
                if check_feasible(&state, &rendered, "initial construction", property, stats, false, "recreate")? {
                    return Ok(());
                }
            }
            let mut history_has_removal = false;
            let mut history_has_insertion = true;
            for (step, op) in c.ops.iter().enumerate() {
                // callers' precondition: local and search operators only ever receive finalized solutions
                // (population members: nothing pending in `required`); a raw ruin output goes to a recreate
                if !state.solution.required.is_empty() && !matches!(op, OpSpec::Recreate(_) | OpSpec::Ruin(_)) {
                    stats.class("skipped.non_recreate_on_pending_state");
                    continue;
                }
                let before = if self.cache { String::new() } else { snapshot(&state) };
                let (name, next): (String, Option<InsertionContext>) = match op {
                    OpSpec::Ruin(k) => (format!("ruin:{}", RUINS[*k as usize % RUINS.len()]), Some(make_ruin(*k, &core).run(&rctx, state.deep_copy()))),
                    OpSpec::Recreate(k) => (format!("recreate:{}", RECREATES[*k as usize % RECREATES.len()]), Some(make_recreate(*k, random.clone()).run(&rctx, state.deep_copy()))),
                    OpSpec::Local(k) => (format!("local:{}", LOCALS[*k as usize % LOCALS.len()]), make_local(*k, random.clone()).explore(&rctx, &state)),
                    OpSpec::Search(k) => (format!("search:{}", SEARCHES[*k as usize % SEARCHES.len()]), Some(make_search(*k, &core, &env).search(&rctx, &state))),
                };
                let what = format!("step {step} {name}");
                stats.eval();
                if name == "search:decompose" {
                    let sol = &state.solution;
                    stats.class(&format!("decompose.input.routes_{}", sol.routes.len().min(4)));
                    if sol.required.is_empty() && sol.unassigned.is_empty() && sol.locked.is_empty() && !sol.ignored.is_empty() {
                        stats.class(&format!("decompose.input.only_ignored_pending.routes_{}", sol.routes.len().min(4)));
                    }
                    if !sol.locked.is_empty() {
                        stats.class("decompose.input.has_locked");
                    }
                }
                if std::env::var("VERIF_OPS_TRACE").is_ok() {
                    crate::outln!("TRACE {what}: before {:?} req {:?} ign {:?} una {:?}", placement(&state).iter().map(|p| p.1.clone()).collect::<Vec<_>>(), state.solution.required.iter().map(job_label).collect::<Vec<_>>(), state.solution.ignored.iter().map(job_label).collect::<Vec<_>>(), state.solution.unassigned.keys().map(job_label).collect::<Vec<_>>());
                    if let Some(n) = next.as_ref() {
                        crate::outln!("TRACE {what}: after  {:?} req {:?} ign {:?} una {:?}", placement(n).iter().map(|p| p.1.clone()).collect::<Vec<_>>(), n.solution.required.iter().map(job_label).collect::<Vec<_>>(), n.solution.ignored.iter().map(job_label).collect::<Vec<_>>(), n.solution.unassigned.keys().map(job_label).collect::<Vec<_>>());
                    }
                }
                if !self.cache {
                    let after = snapshot(&state);
                    ensure!(before == after, format!("parent-changed:{name}"), "{what}: the parent solution handed to the step was modified");
                }
                let Some(next) = next else {
                    stats.class(&format!("op.{name}.none"));
                    continue;
                };
                let effective = moved(&state, &next);
                if effective {
                    stats.class(&format!("op.{name}.effective"));
                    stats.nontrivial(mix(hash_of(&format!("{c:?}")), step as u64));
                } else {
                    stats.class(&format!("op.{name}.noop"));
                }
                let is_ruin = matches!(op, OpSpec::Ruin(_));
                if is_ruin {
                    history_has_removal = true;
                } else {
                    history_has_insertion = true;
                }
                if self.cache {
                    // hand-over points: outputs of recreate / local / search (a raw ruin output is an
                    // intermediate state inside ruin-and-recreate, its caches are refreshed by the recreate)
                    if !is_ruin {
                        check_cache(&next, &what).map_err(|f| Failure::new(format!("{}@{}", f.signature, name), f.message))?;
                        if history_has_removal && history_has_insertion {
                            stats.class("cache.compared_after_removal_and_insertion");
                        }
                    }
                } else {
                    check_inv(&next, &what).map_err(|f| Failure::new(format!("{}@{}", f.signature, name), f.message))?;
                    let family = match op {
                        OpSpec::Search(k) if matches!(*k as usize % SEARCHES.len(), 4..=6) => "repair-based-search",
                        OpSpec::Search(_) => "search",
                        OpSpec::Ruin(_) => "ruin",
                        OpSpec::Recreate(_) => "recreate",
                        OpSpec::Local(_) => "local",
                    };
                    if check_feasible(&next, &rendered, &what, property, stats, is_ruin, family).map_err(|f| Failure::new(format!("{}@{}", f.signature, name), f.message))? {
                        // the state violates a constraint through an open known finding: stop this history here
                        stats.class("history_stopped_at_known_finding");
                        return Ok(());
                    }
                }
                state = next;
                if !is_ruin {
                    rctx.add_solution(state.deep_copy());
                }
            }
            for f in rendered.info.features.iter() {
                stats.class(&format!("feature.{f}"));
            }
            stats.sample(2, || json!({"kind": Prop::name(self), "features": rendered.info.features, "jobs": rendered.problem.plan.jobs.len(), "initial": RECREATES[c.initial as usize % RECREATES.len()], "ops": format!("{:?}", c.ops)}));
            Ok(())
        })
    }
}

fn required_ops() -> Vec<&'static str> {
    // every operator kind must have been effective at least once (generator health)
    vec![
        "op.ruin:adjusted-string.effective", "op.ruin:neighbour.effective", "op.ruin:random-job.effective", "op.ruin:random-route.effective", "op.ruin:close-route.effective", "op.ruin:worst-route.effective", "op.ruin:worst-job.effective", "op.ruin:cluster.effective", "op.ruin:composite.effective",
        "op.recreate:cheapest.effective", "op.recreate:skip-best.effective", "op.recreate:blinks.effective", "op.recreate:gaps.effective", "op.recreate:nearest.effective", "op.recreate:skip-random-phased.effective", "op.recreate:slice.effective", "op.recreate:farthest.effective", "op.recreate:perturbation.effective", "op.recreate:regret.effective", "op.recreate:skip-random.effective",
        "op.local:swap-star.effective", "op.local:inter-route-best.effective", "op.local:inter-route-random.effective", "op.local:intra-route-random.effective", "op.local:sequence.effective", "op.local:reschedule-departure.effective", "op.local:composite-local.effective",
        "op.search:ruin-recreate.effective", "op.search:local-search.effective", "op.search:decompose.effective", "op.search:redistribute.effective", "op.search:infeasible.effective", "op.search:lkh-improvement.effective", "op.search:lkh-diverse.effective", "op.search:default-weighted.effective",
    ]
}

pub fn property(id: &'static str, _tier: Tier) -> PropertyDef {
    let cache = id == "C05";
    let mut required = required_ops();
    if cache {
        required.push("cache.compared_after_removal_and_insertion");
    }
    PropertyDef {
        id,
        level: "exploration",
        rule: if cache {
            "proptest operator histories (1-12 steps quick, 40 thorough) on states built from generated pragmatic problems (pgen, all features) by a generated recreate; operators drawn from all shipped ones through public constructors (9 ruins incl. composite, 11 recreates incl. phased skip-random, 7 local operators incl. RescheduleDeparture and composite, 8 search operators: ruin-recreate, local-search, decompose, redistribute, infeasible+repair, LKH in both modes, default weighted) inside a 1-thread pool with a seeded Random. At every hand-over point (output of each recreate, local operator and search operator, and the initial construction) the context is stripped to bare tours (fresh RouteState/SolutionState), state is recomputed exactly as the code base does (goal.accept_route_state per route, then goal.accept_solution_state) and compared: per-activity schedules, every route-state key (verif_digest hook, 1e-6 relative), tour-derived solution-state keys, fitness vector, and the fixpoint condition (recomputation may not move any job); solutions with identical tours must compare Equal. evaluations = operator applications. Non-trivial: an operator application that changed the solution. Distinct by (case hash, step)."
        } else {
            "proptest operator histories (1-12 steps quick, 40 thorough) on states built from generated pragmatic problems (pgen, all features) by a generated recreate; operators drawn from all shipped ones through public constructors (9 ruins incl. composite, 11 recreates, 7 local operators, 8 search operators incl. decompose, redistribute, infeasible+repair, LKH both modes) inside a 1-thread pool with a seeded Random. After EVERY step: Inv = every customer job in exactly one of {one tour, unassigned, required, ignored}, marker jobs at most once, registry availability == not used by a route, no actor shared, next_route never offers a used actor, tour job set == jobs of activities, single jobs one activity, multi jobs whole with each task once in an order their validate() accepts, no empty route, and the assigned part passes R's feasibility and conservation oracles (through the public solution writer; ruin outputs refreshed first); plus parent unchanged = deep structural snapshot (activities with places and schedules, job lists, registry, state digests) equal before and after the call. evaluations = operator applications. Non-trivial: an application that changed the solution; every operator kind must be effective at least once. Distinct by (case hash, step)."
        },
        assumptions: vec![
            "pinned jobs: every 4th history runs on a problem with relations read off a witness solution (any / sequence / strict, departure and arrival anchors); tours that use a reload are left unlocked",
            "thread interleavings: operators run inside a 1-thread pool (search_many-style parallel application is not exercised here)",
            "history-carrying solution state (tabu list, footprint, rosomaxa weights) is excluded from comparisons by key",
        ],
        props: vec![Box::new(OpsProp { cache })],
        extra: None,
        required_classes: required,
    }
}
