//! C09: order laws of InsertionCost and of solution comparison under goals.

use super::common::*;
use crate::fw::*;
use proptest::prelude::*;
use rosomaxa::evolution::objectives::dominance_order;
use rosomaxa::prelude::*;
use serde::{Deserialize, Serialize};
use serde_json::json;
use std::cmp::Ordering;
use std::sync::Arc;
use vrp_core::construction::heuristics::{InsertionContext, InsertionCost, MoveContext};
use vrp_core::models::common::Cost;
use vrp_core::models::problem::*;
use vrp_core::models::*;
use vrp_core::prelude::{SingleBuilder, VehicleBuilder, VehicleDetailBuilder};

// ---------------------------------------------------------------------------------------------
// InsertionCost
// ---------------------------------------------------------------------------------------------

fn special_float() -> impl Strategy<Value = f64> {
    prop_oneof![
        3 => Just(0.0f64),
        2 => Just(-0.0f64),
        1 => Just(f64::MIN_POSITIVE / 4.), // denormal
        1 => Just(-f64::MIN_POSITIVE / 4.),
        3 => Just(1.0),
        2 => Just(-1.0),
        2 => Just(2.0),
        1 => Just(1e300),
        1 => Just(-1e300),
        1 => Just(f64::MAX),
        1 => Just(-f64::MAX),
        4 => (-50i32..50).prop_map(|v| v as f64),
        2 => (-1000i32..1000).prop_map(|v| v as f64 * 0.5),
    ]
}

/// Small integers and halves: sums/differences are exact in f64.
fn exact_float() -> impl Strategy<Value = f64> {
    prop_oneof![
        2 => Just(0.0f64),
        1 => Just(-0.0f64),
        6 => (-4096i32..4096).prop_map(|v| v as f64 * 0.25),
    ]
}

#[derive(Clone, Debug, Serialize, Deserialize)]
pub struct CostCase {
    pub x: Vec<f64>,
    pub y: Vec<f64>,
    pub z: Vec<f64>,
    /// vectors with exactly representable sums for the add/sub laws
    pub p: Vec<f64>,
    pub q: Vec<f64>,
}

pub struct CostProp;

/// Numeric lexicographic comparison with implicit zero padding; None when all components are
/// numerically equal (then +0/-0 representation differences may order either way).
fn spec_cmp(a: &[f64], b: &[f64]) -> Option<Ordering> {
    let n = a.len().max(b.len());
    for i in 0..n {
        let l = a.get(i).copied().unwrap_or(0.);
        let r = b.get(i).copied().unwrap_or(0.);
        if l < r {
            return Some(Ordering::Less);
        }
        if l > r {
            return Some(Ordering::Greater);
        }
    }
    None
}

fn spec_cmp_total(a: &[f64], b: &[f64]) -> Ordering {
    let n = a.len().max(b.len());
    for i in 0..n {
        let l = a.get(i).copied().unwrap_or(0.);
        let r = b.get(i).copied().unwrap_or(0.);
        // IEEE-754 totalOrder on finite values: numeric, then -0 < +0
        let o = if l < r {
            Ordering::Less
        } else if l > r {
            Ordering::Greater
        } else {
            r.is_sign_negative().cmp(&l.is_sign_negative())
        };
        if o != Ordering::Equal {
            return o;
        }
    }
    Ordering::Equal
}

fn first_diff(a: &[f64], b: &[f64]) -> Option<usize> {
    let n = a.len().max(b.len());
    (0..n).find(|&i| a.get(i).copied().unwrap_or(0.) != b.get(i).copied().unwrap_or(0.))
}

impl Prop for CostProp {
    type Case = CostCase;
    fn name(&self) -> &'static str {
        "insertion_cost"
    }
    fn strategy(&self, _tier: Tier) -> BoxedStrategy<CostCase> {
        let v = || prop::collection::vec(special_float(), 0..=8);
        // related vectors: y/z often share a prefix with x
        (v(), v(), v(), any::<u16>(), any::<u16>(), prop::collection::vec(exact_float(), 0..=8), prop::collection::vec(exact_float(), 0..=8))
            .prop_map(|(x, mut y, mut z, k1, k2, p, q)| {
                let c1 = pick_idx(k1, x.len() + 1);
                for i in 0..c1.min(y.len()) {
                    y[i] = x[i];
                }
                let c2 = pick_idx(k2, y.len() + 1);
                for i in 0..c2.min(z.len()) {
                    z[i] = y[i];
                }
                CostCase { x, y, z, p, q }
            })
            .boxed()
    }
    fn cases(&self, tier: Tier) -> u32 {
        tier.pick(60_000, 2_000_000)
    }
    fn check(&self, c: &CostCase, stats: &Stats) -> Check {
        let (x, y, z) = (InsertionCost::new(&c.x), InsertionCost::new(&c.y), InsertionCost::new(&c.z));
        // construction round trip
        ensure!(x.iter().collect::<Vec<_>>().iter().map(|v| v.to_bits()).eq(c.x.iter().map(|v| v.to_bits())), "cost:iter", "iter() does not return the data given: {:?} vs {:?}", x, c.x);
        ensure!(c.x.iter().copied().collect::<InsertionCost>().iter().map(|v| v.to_bits()).eq(c.x.iter().map(|v| v.to_bits())), "cost:from-iter", "from_iter changes data");
        for (i, v) in c.x.iter().enumerate() {
            ensure!(x[i].to_bits() == v.to_bits(), "cost:index", "index {i} returns {} instead of {v}", x[i]);
        }
        // reflexive
        for (v, d) in [(&x, &c.x), (&y, &c.y), (&z, &c.z)] {
            ensure!(v.cmp(v) == Ordering::Equal, "cost:reflexive", "cmp(a,a) != Equal for {d:?}");
            ensure!(v == &v.clone(), "cost:eq-reflexive", "a != a.clone() for {d:?}");
        }
        // agreement with the specification + antisymmetry
        for ((a, da), (b, db)) in [((&x, &c.x), (&y, &c.y)), ((&y, &c.y), (&z, &c.z)), ((&x, &c.x), (&z, &c.z))] {
            let ab = a.cmp(b);
            let ba = b.cmp(a);
            ensure!(ab == ba.reverse(), "cost:antisymmetry", "cmp({da:?},{db:?})={ab:?} but reverse gives {ba:?}");
            // Two readings of "lexicographic total order" are accepted: numeric comparison per
            // component (+0 == -0) and IEEE total order per component (-0 < +0, missing = +0).
            let numeric = spec_cmp(da, db).unwrap_or(Ordering::Equal);
            let ieee = spec_cmp_total(da, db);
            ensure!(ab == numeric || ab == ieee, "cost:lexicographic", "cmp({da:?},{db:?})={ab:?}, lexicographic spec (missing trailing = 0) says {numeric:?} (numeric) / {ieee:?} (IEEE total order)");
            ensure!((a == b) == (ab == Ordering::Equal), "cost:eq-vs-cmp", "== disagrees with cmp for {da:?},{db:?}");
            ensure!(a.partial_cmp(b) == Some(ab), "cost:partial-cmp", "partial_cmp disagrees with cmp for {da:?},{db:?}");
        }
        // transitivity (as a total preorder): a<=b && b<=c => a<=c
        let le = |a: &InsertionCost, b: &InsertionCost| a.cmp(b) != Ordering::Greater;
        let all = [(&x, &c.x), (&y, &c.y), (&z, &c.z)];
        for (a, da) in all.iter() {
            for (b, db) in all.iter() {
                for (cc, dc) in all.iter() {
                    if le(a, b) && le(b, cc) {
                        ensure!(le(a, cc), "cost:transitivity", "{da:?} <= {db:?} <= {dc:?} but not {da:?} <= {dc:?}");
                    }
                }
            }
        }
        // sorting with the comparator must not panic and must be ordered
        let mut v = vec![x.clone(), y.clone(), z.clone(), x.clone()];
        v.sort();
        ensure!(v.windows(2).all(|w| w[0].cmp(&w[1]) != Ordering::Greater), "cost:sort", "sorted sequence is not ordered");
        // max_value dominates finite vectors whose first component is below MAX
        if c.x.first().is_some_and(|f| *f < f64::MAX) || c.x.is_empty() {
            ensure!(x.cmp(InsertionCost::max_value()) == Ordering::Less, "cost:max-value", "{:?} is not below max_value", c.x);
        }
        // add / sub inverse up to the sign of zero (exactly representable operands)
        let (p, q) = (InsertionCost::new(&c.p), InsertionCost::new(&c.q));
        let n = c.p.len().max(c.q.len());
        let sum = &p + &q;
        let back = &sum - &q;
        let diff = &p - &q;
        let forth = &diff + &q;
        let owned_sum = p.clone() + q.clone();
        let owned_diff = p.clone() - q.clone();
        ensure!(sum.iter().count() == n && diff.iter().count() == n, "cost:arith-len", "result length is not max of operand lengths");
        for i in 0..n {
            let pi = c.p.get(i).copied().unwrap_or(0.);
            let qi = c.q.get(i).copied().unwrap_or(0.);
            ensure!(sum[i] == pi + qi, "cost:add", "({:?}+{:?})[{i}] = {} expected {}", c.p, c.q, sum[i], pi + qi);
            ensure!(diff[i] == pi - qi, "cost:sub", "({:?}-{:?})[{i}] = {} expected {}", c.p, c.q, diff[i], pi - qi);
            ensure!(back[i] == pi, "cost:add-sub-inverse", "(({:?}+{:?})-{:?})[{i}] = {} expected {pi}", c.p, c.q, c.q, back[i]);
            ensure!(forth[i] == pi, "cost:sub-add-inverse", "(({:?}-{:?})+{:?})[{i}] = {} expected {pi}", c.p, c.q, c.q, forth[i]);
            ensure!(owned_sum[i] == sum[i] && owned_diff[i] == diff[i], "cost:owned-vs-ref", "owned and by-ref operators disagree at {i}");
        }

        stats.eval();
        let nt = [(&c.x, &c.y), (&c.y, &c.z), (&c.x, &c.z)].iter().any(|(a, b)| {
            a.len() != b.len() || first_diff(a, b).is_some_and(|i| i >= 1) || a.iter().chain(b.iter()).any(|v| *v == 0.)
        });
        if nt {
            stats.nontrivial(hash_of(&format!("{c:?}")));
        }
        if c.x.len().max(c.y.len()).max(c.z.len()) > 6 {
            stats.class("cost.beyond_inline_slots");
        }
        if c.x.len() != c.y.len() {
            stats.class("cost.different_lengths");
        }
        if first_diff(&c.x, &c.y).is_some_and(|i| i >= 1) {
            stats.class("cost.differs_after_first");
        }
        if c.x.iter().chain(c.y.iter()).any(|v| *v == 0. && v.is_sign_negative()) {
            stats.class("cost.negative_zero");
        }
        stats.sample(2, || json!({"kind": "insertion_cost", "x": c.x, "y": c.y, "z": c.z, "p": c.p, "q": c.q}));
        Ok(())
    }
}

// ---------------------------------------------------------------------------------------------
// Goals over synthetic solutions
// ---------------------------------------------------------------------------------------------

struct FitnessVecKey;

struct VecObjective(usize);

impl FeatureObjective for VecObjective {
    fn fitness(&self, solution: &InsertionContext) -> Cost {
        solution.solution.state.get_value::<FitnessVecKey, Vec<f64>>().and_then(|v| v.get(self.0).copied()).unwrap_or(0.)
    }
    fn estimate(&self, _: &MoveContext<'_>) -> Cost {
        0.
    }
}

#[derive(Clone, Debug, Serialize, Deserialize)]
pub enum LayerSpec {
    Single(u8),
    /// dominance layer over the objective indices
    Multi(Vec<u8>),
}

#[derive(Clone, Debug, Serialize, Deserialize)]
pub struct GoalCase {
    pub dims: u8,
    pub layers: Vec<LayerSpec>,
    pub a: Vec<f64>,
    pub b: Vec<f64>,
    pub c: Vec<f64>,
}

pub struct GoalProp;

fn build_problem(goal: GoalContext) -> Arc<Problem> {
    let job = SingleBuilder::default().id("j1").location(1).unwrap().build_as_job().unwrap();
    let vehicle = VehicleBuilder::default()
        .id("v1")
        .add_detail(VehicleDetailBuilder::default().set_start_location(0).set_end_location(0).build().unwrap())
        .build()
        .unwrap();
    let transport = Arc::new(SimpleTransportCost::new(vec![0., 1., 1., 0.], vec![0., 1., 1., 0.]).unwrap());
    Arc::new(
        ProblemBuilder::default()
            .add_job(job)
            .add_vehicle(vehicle)
            .with_goal(goal)
            .with_transport_cost(transport)
            .with_logger(quiet_logger())
            .build()
            .unwrap(),
    )
}

fn build_goal(dims: usize, layers: &[LayerSpec]) -> (GoalContext, Vec<usize>, bool) {
    let features = (0..dims)
        .map(|i| FeatureBuilder::default().with_name(&format!("o{i}")).with_objective(VecObjective(i)).build().unwrap())
        .collect::<Vec<_>>();
    let mut builder = GoalBuilder::default();
    let mut order = vec![];
    let mut only_single = true;
    for layer in layers {
        match layer {
            LayerSpec::Single(i) => {
                let i = *i as usize % dims;
                order.push(i);
                builder = builder.add_single(features[i].objective.clone().unwrap());
            }
            LayerSpec::Multi(idx) => {
                only_single = false;
                let objs = idx.iter().map(|i| features[*i as usize % dims].objective.clone().unwrap()).collect::<Vec<_>>();
                order.extend(idx.iter().map(|i| *i as usize % dims));
                builder = builder.add_multi(
                    &objs,
                    |os, a, b| dominance_order(a, b, os.iter().map(|o| |a, b| o.fitness(a).total_cmp(&o.fitness(b)))),
                    |os, move_ctx| os.iter().map(|o| o.estimate(move_ctx)).sum(),
                );
            }
        }
    }
    let goal = builder.build().unwrap();
    let ctx = GoalContextBuilder::with_features(&features).unwrap().set_main_goal(goal).build().unwrap();
    (ctx, order, only_single)
}

fn lex_spec(order: &[usize], a: &[f64], b: &[f64]) -> Ordering {
    for &i in order {
        let (l, r) = (a[i], b[i]);
        if l < r {
            return Ordering::Less;
        }
        if l > r {
            return Ordering::Greater;
        }
    }
    Ordering::Equal
}

impl Prop for GoalProp {
    type Case = GoalCase;
    fn name(&self) -> &'static str {
        "goal_synthetic"
    }
    fn strategy(&self, _tier: Tier) -> BoxedStrategy<GoalCase> {
        (1u8..=5)
            .prop_flat_map(|dims| {
                let layer = prop_oneof![
                    4 => (0..dims).prop_map(LayerSpec::Single),
                    1 => prop::collection::vec(0..dims, 1..=3).prop_map(LayerSpec::Multi),
                ];
                let v = move || prop::collection::vec(special_float(), dims as usize);
                (Just(dims), prop::collection::vec(layer, 1..=5), v(), v(), v(), any::<u16>(), any::<u16>())
            })
            .prop_map(|(dims, layers, a, mut b, mut c, k1, k2)| {
                // share prefixes (in objective index space) so later layers decide
                let c1 = pick_idx(k1, a.len() + 1);
                b[..c1].copy_from_slice(&a[..c1]);
                let c2 = pick_idx(k2, a.len() + 1);
                c[..c2].copy_from_slice(&b[..c2]);
                GoalCase { dims, layers, a, b, c }
            })
            .boxed()
    }
    fn cases(&self, tier: Tier) -> u32 {
        tier.pick(6_000, 300_000)
    }
    fn check(&self, case: &GoalCase, stats: &Stats) -> Check {
        let dims = case.dims as usize;
        let (goal, order, only_single) = build_goal(dims, &case.layers);
        let problem = build_problem(goal);
        let env = quiet_env(1, rosomaxa::utils::Parallelism::default(), None);
        let mk = |v: &Vec<f64>| {
            let mut ctx = InsertionContext::new_empty(problem.clone(), env.clone());
            ctx.solution.state.set_value::<FitnessVecKey, Vec<f64>>(v.clone());
            ctx
        };
        let sols = [(mk(&case.a), &case.a), (mk(&case.b), &case.b), (mk(&case.c), &case.c)];
        let goal = problem.goal.as_ref();
        // fitness vector is the injected one in layer order
        for (s, v) in sols.iter() {
            let fit = goal.fitness(s).collect::<Vec<_>>();
            let exp = order.iter().map(|i| v[*i]).collect::<Vec<_>>();
            ensure!(fit.iter().map(|f| f.to_bits()).eq(exp.iter().map(|f| f.to_bits())), "goal:fitness-order", "fitness() {fit:?} differs from injected vector in layer order {exp:?}");
            ensure!(goal.total_order(s, s) == Ordering::Equal, "goal:reflexive", "total_order(a,a) != Equal for {v:?} layers {:?}", case.layers);
            let copy = s.deep_copy();
            ensure!(goal.total_order(s, &copy) == Ordering::Equal, "goal:copy-equal", "solution differs from its deep copy");
        }
        for i in 0..3 {
            for j in 0..3 {
                let (a, va) = &sols[i];
                let (b, vb) = &sols[j];
                let ab = goal.total_order(a, b);
                let ba = goal.total_order(b, a);
                ensure!(ab == ba.reverse(), "goal:antisymmetry", "cmp({va:?},{vb:?})={ab:?}, reverse {ba:?}, layers {:?}", case.layers);
                if only_single {
                    let spec = lex_spec(&order, va, vb);
                    ensure!(ab == spec, "goal:lexicographic", "cmp({va:?},{vb:?})={ab:?} but lexicographic comparison of fitness (+0==-0) is {spec:?}; layer order {order:?}");
                }
            }
        }
        if only_single {
            let le = |i: usize, j: usize| goal.total_order(&sols[i].0, &sols[j].0) != Ordering::Greater;
            for i in 0..3 {
                for j in 0..3 {
                    for k in 0..3 {
                        if le(i, j) && le(j, k) {
                            ensure!(le(i, k), "goal:transitivity", "not transitive on {:?} {:?} {:?}", sols[i].1, sols[j].1, sols[k].1);
                        }
                    }
                }
            }
            // sort must not panic
            let mut idx = vec![0usize, 1, 2, 0, 1];
            idx.sort_by(|i, j| goal.total_order(&sols[*i].0, &sols[*j].0));
        }
        stats.eval();
        let first_layer_decides = lex_spec(&order[..1], &case.a, &case.b) != Ordering::Equal;
        let has_zero = case.a.iter().chain(case.b.iter()).any(|v| *v == 0.);
        if !first_layer_decides || has_zero {
            stats.nontrivial(hash_of(&format!("{case:?}")));
        }
        stats.class(if only_single { "goal.single_layers_only" } else { "goal.with_dominance_layer" });
        if !first_layer_decides {
            stats.class("goal.decided_after_first_layer");
        }
        if case.a.iter().chain(case.b.iter()).any(|v| *v == 0. && v.is_sign_negative()) {
            stats.class("goal.negative_zero");
        }
        stats.sample(2, || json!({"kind": "goal_synthetic", "layers": format!("{:?}", case.layers), "a": case.a, "b": case.b, "c": case.c}));
        Ok(())
    }
}

// ---------------------------------------------------------------------------------------------
// (3) real solutions of generated pragmatic problems under the problem's own goal
// ---------------------------------------------------------------------------------------------

#[derive(Clone, Debug, Serialize, Deserialize)]
pub struct RealCase {
    pub spec: super::pgen::ProblemSpec,
    pub seed: u64,
    /// construction recipes: (recreate kind, ruin kind or 255 for none)
    pub recipes: Vec<(u8, u8)>,
}

pub struct RealProp;

impl Prop for RealProp {
    type Case = RealCase;
    fn name(&self) -> &'static str {
        "goal_on_real_solutions"
    }
    fn strategy(&self, tier: Tier) -> BoxedStrategy<RealCase> {
        (super::pgen::problem_spec(tier.pick(10, 20)), any::<u64>(), prop::collection::vec((0u8..11, prop_oneof![Just(255u8), 0u8..9]), 3..=5)).prop_map(|(spec, seed, recipes)| RealCase { spec, seed, recipes }).boxed()
    }
    fn cases(&self, tier: Tier) -> u32 {
        tier.pick(1_500, 40_000)
    }
    fn shards(&self, _tier: Tier) -> u32 {
        16
    }
    fn max_shrink_iters(&self) -> u32 {
        100
    }
    fn check(&self, c: &RealCase, stats: &Stats) -> Check {
        use rosomaxa::evolution::TelemetryMode;
        use rosomaxa::utils::{Parallelism, ThreadPool};
        use vrp_core::solver::search::{Recreate, Ruin};
        use vrp_core::solver::{RefinementContext, create_elitism_population};
        let rendered = super::pgen::render(&c.spec);
        let core = super::e2e::read_core(&rendered.problem, &rendered.matrices).map_err(|e| Failure::new("harness:generator-invalid", format!("generated problem was rejected: {e}")))?;
        let single_layers = !rendered.problem.objectives.iter().flatten().any(|o| matches!(o, vrp_pragmatic::format::problem::Objective::MultiObjective { .. }));
        let pool = ThreadPool::new(1);
        let solutions: Vec<InsertionContext> = pool.execute(|| {
            let env = quiet_env(c.seed, Parallelism::new(1, 1), None);
            let rctx = RefinementContext::new(core.clone(), Box::new(create_elitism_population(core.goal.clone(), env.clone())), TelemetryMode::None, env.clone());
            c.recipes
                .iter()
                .map(|(recreate, ruin)| {
                    let first = super::ops::make_recreate(*recreate, env.random.clone()).run(&rctx, InsertionContext::new(core.clone(), env.clone()));
                    if *ruin == 255 {
                        first
                    } else {
                        let ruined = super::ops::make_ruin(*ruin, &core).run(&rctx, first);
                        super::ops::make_recreate(recreate.wrapping_add(3), env.random.clone()).run(&rctx, ruined)
                    }
                })
                .collect()
        });
        let goal = core.goal.clone();
        let fit: Vec<Vec<f64>> = solutions.iter().map(|s| goal.fitness(s).collect()).collect();
        let lex = |a: &[f64], b: &[f64]| -> Ordering {
            for (x, y) in a.iter().zip(b.iter()) {
                // +0 and -0 are equal
                if x < y {
                    return Ordering::Less;
                }
                if x > y {
                    return Ordering::Greater;
                }
            }
            Ordering::Equal
        };
        let n = solutions.len();
        for i in 0..n {
            stats.eval();
            ensure!(goal.total_order(&solutions[i], &solutions[i]) == Ordering::Equal, "goal:real:reflexivity", "solution {i} does not compare Equal with itself, fitness {:?}", fit[i]);
            for j in 0..n {
                let ab = goal.total_order(&solutions[i], &solutions[j]);
                let ba = goal.total_order(&solutions[j], &solutions[i]);
                ensure!(ab == ba.reverse(), "goal:real:antisymmetry", "cmp(a,b)={ab:?} but cmp(b,a)={ba:?}; fitness a {:?} b {:?}", fit[i], fit[j]);
                if single_layers && fit[i].iter().chain(fit[j].iter()).all(|x| x.is_finite()) {
                    let spec = lex(&fit[i], &fit[j]);
                    ensure!(ab == spec, "goal:real:not-lexicographic", "cmp(a,b)={ab:?}, lexicographic comparison of the fitness vectors gives {spec:?}; fitness a {:?} b {:?}; objectives {:?}", fit[i], fit[j], rendered.problem.objectives);
                    if let Some(k) = fit[i].iter().zip(fit[j].iter()).position(|(x, y)| x != y) {
                        if k >= 1 {
                            stats.class("real.decided_after_first_layer");
                            stats.nontrivial(mix(hash_of(&format!("{c:?}")), (i * 8 + j) as u64));
                        }
                    }
                }
                for k in 0..n {
                    if single_layers {
                        let bc = goal.total_order(&solutions[j], &solutions[k]);
                        let ac = goal.total_order(&solutions[i], &solutions[k]);
                        if ab != Ordering::Greater && bc != Ordering::Greater {
                            ensure!(ac != Ordering::Greater, "goal:real:transitivity", "a<=b and b<=c but a>c; fitness {:?} {:?} {:?}", fit[i], fit[j], fit[k]);
                        }
                    }
                }
            }
        }
        stats.class(if single_layers { "real.single_layers_only" } else { "real.with_multi_objective_layer" });
        if fit.iter().any(|f| f != &fit[0]) {
            stats.class("real.solutions_with_different_fitness");
        }
        if rendered.problem.objectives.is_some() {
            stats.class("real.explicit_objectives");
        }
        stats.sample(1, || json!({"kind": "goal_on_real_solutions", "objectives": rendered.problem.objectives, "fitness": fit}));
        Ok(())
    }
}

pub fn property(_tier: Tier) -> PropertyDef {
    PropertyDef {
        id: "C09",
        level: "exploration",
        rule: "proptest triples: (1) InsertionCost vectors of length 0-8 over {+-0, denormals, +-1, small ints/halves, +-1e300, +-MAX} with shared prefixes, checked for reflexivity, antisymmetry, transitivity, agreement with numeric lexicographic comparison with zero padding, Eq/PartialOrd consistency, sort, and add/sub inverse on exactly representable operands; (2) goals built with the public GoalBuilder (1-5 layers, add_single and dominance add_multi as the pragmatic reader installs) over synthetic solutions carrying an injected fitness vector: reflexive, antisymmetric; for single-layer goals transitive and equal to lexicographic comparison of fitness() with +0==-0; (3) real solutions: 3-5 solutions of a generated pragmatic problem (pgen, all objective lists incl. balance, multi-objective and default) built by different recreate methods, optionally followed by a ruin and another recreate, are compared pairwise and in triples under the problem's own goal: reflexive, antisymmetric; when the goal has single layers only, transitive and equal to the lexicographic comparison of GoalContext::fitness. Non-trivial: a compared pair differs first at index >=1, or has different lengths, or involves a zero. Distinct by case hash.",
        assumptions: vec!["NaN/inf excluded (properties say finite; C18 guards that objectives yield finite values)"],
        props: vec![Box::new(CostProp), Box::new(GoalProp), Box::new(RealProp)],
        extra: None,
        required_classes: vec!["cost.beyond_inline_slots", "cost.different_lengths", "cost.differs_after_first", "cost.negative_zero", "goal.single_layers_only", "goal.with_dominance_layer", "goal.decided_after_first_layer", "goal.negative_zero", "real.single_layers_only", "real.with_multi_objective_layer", "real.solutions_with_different_fitness", "real.decided_after_first_layer"],
    }
}
