//! C15: parallel insertion evaluation does not depend on how work is split; solves under layouts stay valid.

use super::common::*;
use super::e2e::{read_core, solve_to_solution, tolerance};
use super::interrupt::KQuota;
use super::pgen::*;
use super::refmodel;
use crate::fw::*;
use proptest::prelude::*;
use rosomaxa::evolution::TelemetryMode;
use rosomaxa::utils::{Parallelism, ThreadPool};
use serde::{Deserialize, Serialize};
use serde_json::json;
use std::sync::Arc;
use vrp_core::construction::heuristics::*;
use vrp_core::models::problem::Job;
use vrp_core::solver::RefinementContext;
use vrp_core::solver::create_elitism_population;
use vrp_core::solver::search::{Recreate, RecreateWithCheapest};

#[derive(Clone, Debug, Serialize, Deserialize)]
pub struct ParCase {
    pub spec: ProblemSpec,
    /// number of insertions performed before the evaluated state is taken
    pub prefix: u8,
    pub seed: u64,
    pub perm: Vec<u16>,
}

pub struct ParProp;

const POOLS: [usize; 7] = [1, 2, 3, 4, 7, 8, 16];

/// Restricts a generated spec to the premise of the equality clause: exact metric symmetric
/// matrices, minimize-distance, no value / conditional jobs.
pub fn metric_spec(mut spec: ProblemSpec) -> ProblemSpec {
    spec.non_metric = false;
    spec.asym.iter_mut().for_each(|a| *a = 0);
    spec.profiles = 1;
    spec.objectives = 4; // [minimize-unassigned, minimize-tours, minimize-distance]
    // jobs with >=3 tasks are evaluated on a RANDOM sample of task permutations (not deterministic selection)
    spec.features &= !(F_VALUE | F_BREAKS | F_RELOADS | F_UNREACHABLE | F_SCALE | F_ORDER | F_MULTI);
    spec.vehicles.iter_mut().for_each(|v| v.profile = 0);
    spec
}

fn permute<T: Clone>(items: &[T], order: &[u16]) -> Vec<T> {
    let mut rest = items.to_vec();
    let mut out = vec![];
    let mut i = 0;
    while !rest.is_empty() {
        let k = pick_idx(order.get(i).copied().unwrap_or(0), rest.len());
        out.push(rest.remove(k));
        i += 1;
    }
    out
}

impl Prop for ParProp {
    type Case = ParCase;
    fn name(&self) -> &'static str {
        "evaluate_all_pools"
    }
    fn strategy(&self, tier: Tier) -> BoxedStrategy<ParCase> {
        (problem_spec(tier.pick(12, 24)), 0u8..8, any::<u64>(), prop::collection::vec(any::<u16>(), 0..24)).prop_map(|(spec, prefix, seed, perm)| ParCase { spec: metric_spec(spec), prefix, seed, perm }).boxed()
    }
    fn cases(&self, tier: Tier) -> u32 {
        tier.pick(1_000, 30_000)
    }
    fn shards(&self, _tier: Tier) -> u32 {
        4
    }
    fn max_shrink_iters(&self) -> u32 {
        200
    }
    fn check(&self, c: &ParCase, stats: &Stats) -> Check {
        let rendered = render(&c.spec);
        let core = read_core(&rendered.problem, &rendered.matrices).map_err(|e| Failure::new("harness:generator-invalid", format!("generated problem was rejected: {e}")))?;
        // state: cheapest insertion stopped after `prefix` insertions (quota polled once per insertion)
        let quota = Arc::new(KQuota::new(c.prefix as u64));
        let env_q = Arc::new(rosomaxa::prelude::Environment::new(Arc::new(SeededRandom::new(c.seed)), Some(quota), Parallelism::new(1, 1), quiet_logger(), false));
        let env = quiet_env(c.seed ^ 1, Parallelism::new(1, 1), None);
        let refinement_ctx = RefinementContext::new(core.clone(), Box::new(create_elitism_population(core.goal.clone(), env.clone())), TelemetryMode::None, env.clone());
        let mut ctx = RecreateWithCheapest::new(env_q.random.clone()).run(&refinement_ctx, InsertionContext::new(core.clone(), env_q));
        ctx.environment = env.clone();
        let pending: Vec<Job> = ctx.solution.unassigned.iter().filter(|(_, info)| matches!(info, UnassignmentInfo::Unknown)).map(|(j, _)| j.clone()).collect();
        for j in pending.iter() {
            ctx.solution.unassigned.remove(j);
            ctx.solution.required.push(j.clone());
        }
        core.goal.accept_solution_state(&mut ctx.solution);
        let jobs_owned: Vec<Job> = permute(&ctx.solution.required, &c.perm);
        let jobs: Vec<&Job> = jobs_owned.iter().collect();
        let routes_owned: Vec<&RouteContext> = ctx.solution.routes.iter().chain(ctx.solution.registry.next_route()).collect();
        let routes: Vec<&RouteContext> = permute(&routes_owned, &c.perm);
        if jobs.is_empty() || routes.is_empty() {
            stats.class("par.trivial_no_jobs_or_routes");
            return Ok(());
        }
        let leg_selection = LegSelection::Exhaustive;
        let selector = BestResultSelector::default();
        // explicit sequential minimum: no alternative => no pruning, no reduction
        let mut all_costs: Vec<InsertionCost> = vec![];
        for r in routes.iter() {
            for j in jobs.iter() {
                let eval_ctx = EvaluationContext { goal: &core.goal, job: j, leg_selection: &leg_selection, result_selector: &selector };
                if let InsertionResult::Success(s) = eval_job_insertion_in_route(&ctx, &eval_ctx, r, InsertionPosition::Any, InsertionResult::make_failure()) {
                    all_costs.push(s.cost);
                }
            }
        }
        let min_seq = all_costs.iter().min().cloned();
        let evaluator = PositionInsertionEvaluator::default();
        for n in POOLS {
            let pool = ThreadPool::new(n);
            for rep in 0..3 {
                let result = pool.execute(|| evaluator.evaluate_all(&ctx, &jobs, &routes, &leg_selection, &selector));
                stats.eval();
                match (&result, &min_seq) {
                    (InsertionResult::Success(s), Some(m)) => {
                        ensure!(&s.cost == m, "parallel:cost-not-minimal", "pool of {n} threads (repetition {rep}): chosen insertion cost {:?}, sequential minimum over {} (route, job) pairs is {:?}", s.cost, routes.len() * jobs.len(), m);
                    }
                    (InsertionResult::Failure(_), None) => {}
                    (InsertionResult::Success(s), None) => return Err(Failure::new("parallel:success-without-feasible-pair", format!("pool {n}: success {:?} although the sequential scan finds no feasible pair", s.cost))),
                    (InsertionResult::Failure(f), Some(m)) => return Err(Failure::new("parallel:failure-despite-feasible-pair", format!("pool {n}: failure (code {:?}) although the sequential scan finds cost {:?}", f.constraint, m))),
                }
            }
        }
        let distinct = {
            let mut v = all_costs.clone();
            v.sort();
            v.dedup();
            v.len()
        };
        let ties_on_min = min_seq.as_ref().map_or(0, |m| all_costs.iter().filter(|c| *c == m).count());
        if routes.len() >= 2 && jobs.len() >= 2 && distinct >= 2 {
            stats.nontrivial(hash_of(&format!("{c:?}")));
            stats.class("par.nontrivial");
        }
        if ties_on_min >= 2 {
            stats.class("par.tie_on_minimum");
        }
        if ctx.solution.routes.len() >= 2 {
            stats.class("par.two_or_more_existing_routes");
        }
        if min_seq.is_none() {
            stats.class("par.no_feasible_pair");
        }
        stats.sample(2, || json!({"kind": "evaluate_all_pools", "jobs": jobs.len(), "routes": routes.len(), "existing_routes": ctx.solution.routes.len(), "distinct_costs": distinct, "min": format!("{:?}", min_seq)}));
        Ok(())
    }
}

// ---------------------------------------------------------------------------------------------
// full solves under parallelism layouts
// ---------------------------------------------------------------------------------------------

#[derive(Clone, Debug, Serialize, Deserialize)]
pub struct LayoutCase {
    pub spec: ProblemSpec,
    pub config: ConfigSpec,
    /// 0 = default layout (no parallelism section)
    pub default_layout: bool,
}

pub struct LayoutProp;

impl Prop for LayoutProp {
    type Case = LayoutCase;
    fn name(&self) -> &'static str {
        "solve_under_layouts"
    }
    fn strategy(&self, tier: Tier) -> BoxedStrategy<LayoutCase> {
        (problem_spec(tier.pick(12, 30)), config_spec(tier.pick(30, 150)), prop::bool::weighted(0.2)).prop_map(|(spec, config, default_layout)| LayoutCase { spec, config, default_layout }).boxed()
    }
    fn cases(&self, tier: Tier) -> u32 {
        tier.pick(480, 12_000)
    }
    fn shards(&self, _tier: Tier) -> u32 {
        8
    }
    fn max_shrink_iters(&self) -> u32 {
        200
    }
    fn check(&self, c: &LayoutCase, stats: &Stats) -> Check {
        let rendered = render(&c.spec);
        let core = read_core(&rendered.problem, &rendered.matrices).map_err(|e| Failure::new("harness:generator-invalid", format!("generated problem was rejected: {e}")))?;
        let mut cfg = render_config(&c.config);
        if c.default_layout {
            cfg["environment"].as_object_mut().unwrap().remove("parallelism");
        }
        let (solution, text) = solve_to_solution(core, &cfg)?;
        let verdict = refmodel::evaluate(&rendered.problem, &rendered.matrices, &solution, tolerance(&rendered.problem));
        stats.eval();
        let layout = if c.default_layout { "default".to_string() } else { format!("{}x{}", c.config.pools.max(1), c.config.threads.max(1)) };
        stats.class(&format!("layout.{layout}"));
        if solution.tours.len() >= 2 {
            stats.nontrivial(hash_of(&format!("{c:?}")));
        }
        for f in verdict.findings.iter() {
            let kind = match f.prop {
                refmodel::Prop::Feasibility => "feasibility",
                refmodel::Prop::Conservation => "conservation",
                refmodel::Prop::Reporting => "reporting",
            };
            let sig = format!("{kind}:{}", f.rule);
            if kind == "feasibility" && super::e2e::known_nonmetric("C15", &rendered, &f.rule, stats) {
                continue;
            }
            if known_open("C15", &sig) {
                stats.known_hit(&sig);
                continue;
            }
            return Err(Failure::new(format!("layout:{sig}"), format!("layout {layout}: [{}] {}\n--- problem+matrices:\n{}\n--- solution:\n{}", f.rule, f.detail, json!({"problem": rendered.problem, "matrices": rendered.matrices}), text.chars().filter(|c| !c.is_whitespace()).collect::<String>())));
        }
        Ok(())
    }
}

pub fn property(_tier: Tier) -> PropertyDef {
    PropertyDef {
        id: "C15",
        level: "exploration",
        rule: "proptest: (1) generated problems restricted to the premise of the equality clause (exact-metric symmetric integer matrices, objectives [minimize-unassigned, minimize-tours, minimize-distance], no value/breaks/reloads/order), a state reached by cheapest insertion stopped after 0-7 insertions (counting quota), all pending jobs x (existing routes + one free route per vehicle type) with the job and route slices permuted; PositionInsertionEvaluator::evaluate_all with BestResultSelector + LegSelection::Exhaustive inside rayon pools of 1,2,3,4,7,8,16 threads, 3 repetitions each, must return exactly the lexicographically minimal cost vector of an explicit sequential loop over eval_job_insertion_in_route without alternative (no pruning, no reduction) and agree on success/failure; evaluations = pool executions. (2) full solves of generated problems x configs under layouts 1-3 pools x 1-4 threads and the default layout judged by the C01-C03 oracles of R. Non-trivial (1): >=2 routes, >=2 jobs and >=2 distinct feasible cost vectors; (2): solution with >=2 tours. Distinct by case hash.",
        assumptions: vec![
            "equality clause asserted only on exact-metric data with minimize-distance (cost-bound pruning is admissible there); on non-metric data a sequential fold is itself order dependent",
            "jobs with >=3 tasks are excluded from the equality clause: the evaluator samples their task permutations randomly, which is not 'deterministic selection'; pickup+delivery pairs (one permutation) are included",
            "interleavings are sampled by repetition; rayon work stealing varies the partitioning between repetitions but partition coverage is not measured",
        ],
        props: vec![Box::new(ParProp), Box::new(LayoutProp)],
        extra: None,
        required_classes: vec!["par.nontrivial", "par.tie_on_minimum", "par.two_or_more_existing_routes", "layout.default", "layout.1x1", "layout.3x4", "layout.2x2"],
    }
}
