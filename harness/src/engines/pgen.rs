//! G_problem: generator of valid pragmatic problems (by construction) + matrices, and G_config.
#![allow(dead_code)]

use super::common::*;
use crate::fw::pick_idx;
use proptest::prelude::*;
use serde::{Deserialize, Serialize};
use serde_json::{Value, json};
use vrp_pragmatic::format::Location as ApiLocation;
use vrp_pragmatic::format::problem as api;

// ---------------------------------------------------------------------------------------------
// raw specification (what proptest generates and shrinks)
// ---------------------------------------------------------------------------------------------

#[derive(Clone, Debug, Serialize, Deserialize)]
pub struct PlaceSpec {
    pub loc: u16,
    pub duration: u8,
    /// windows as (gap before, length) pairs, laid out consecutively => disjoint and sorted
    pub windows: Vec<(u16, u16)>,
}

#[derive(Clone, Debug, Serialize, Deserialize)]
pub enum JobKind {
    Delivery,
    Pickup,
    Service,
    Replacement,
    /// one pickup + one delivery
    PickupDelivery,
    /// two pickups + one delivery (demand sums balanced)
    TwoPickupsOneDelivery,
    /// one pickup + two deliveries
    OnePickupTwoDeliveries,
    /// two static deliveries in one job
    TwoDeliveries,
}

#[derive(Clone, Debug, Serialize, Deserialize)]
pub struct JobSpec {
    pub kind: JobKind,
    /// up to 3 tasks x up to 2 places
    pub places: Vec<Vec<PlaceSpec>>,
    pub demand: Vec<u8>,
    pub skills: u8,
    pub group: u8,
    pub compat: u8,
    pub order: u8,
    pub value: u8,
    /// 0 = normal, 1 = oversize demand, 2 = impossible skill
    pub infeasible: u8,
}

#[derive(Clone, Debug, Serialize, Deserialize)]
pub struct BreakSpec {
    pub start: u16,
    pub len: u16,
    pub duration: u8,
    /// 0 = no location, else location index + 1
    pub loc: u16,
    pub offset_form: bool,
    pub policy: u8,
}

#[derive(Clone, Debug, Serialize, Deserialize)]
pub struct ReloadSpec {
    pub loc: u16,
    pub duration: u8,
    pub window: Option<(u16, u16)>,
    pub shared: bool,
}

#[derive(Clone, Debug, Serialize, Deserialize)]
pub struct ShiftSpec {
    pub start_loc: u16,
    /// 0 = open end, else loc + 1
    pub end_loc: u16,
    pub earliest: u16,
    /// 0 = absent, 1 = equal to earliest, else earliest + (latest-1)*10
    pub latest: u8,
    pub length: u16,
    pub breaks: Vec<BreakSpec>,
    pub reloads: Vec<ReloadSpec>,
}

#[derive(Clone, Debug, Serialize, Deserialize)]
pub struct VehicleSpec {
    pub ids: u8,
    pub capacity: Vec<u8>,
    pub shifts: Vec<ShiftSpec>,
    pub fixed: u8,
    pub cd: u8,
    pub ct: u8,
    pub skills: u8,
    pub scale: u8,
    pub profile: u8,
    pub max_distance: u16,
    pub max_duration: u16,
    pub tour_size: u8,
}

#[derive(Clone, Debug, Serialize, Deserialize)]
pub struct ProblemSpec {
    pub coords: Vec<(u8, u8)>,
    pub asym: Vec<u8>,
    pub non_metric: bool,
    pub unreachable: Vec<u16>,
    pub profiles: u8,
    pub dims: u8,
    pub jobs: Vec<JobSpec>,
    pub vehicles: Vec<VehicleSpec>,
    pub objectives: u8,
    pub shared_resource_capacity: u8,
    /// feature switches (bit set) decided once per problem so that rarely combined features do combine
    pub features: u16,
}

pub const F_SKILLS: u16 = 1;
pub const F_GROUPS: u16 = 2;
pub const F_COMPAT: u16 = 4;
pub const F_ORDER: u16 = 8;
pub const F_VALUE: u16 = 16;
pub const F_BREAKS: u16 = 32;
pub const F_RELOADS: u16 = 64;
pub const F_LIMITS: u16 = 128;
pub const F_WINDOWS: u16 = 256;
pub const F_MULTI: u16 = 512;
pub const F_SCALE: u16 = 1024;
pub const F_UNREACHABLE: u16 = 2048;
pub const F_TOURSIZE: u16 = 4096;
pub const F_LATEST: u16 = 8192;
/// the first place of a multi-place task carries no tag
pub const F_UNTAGGED: u16 = 16384;
/// long-tour class (set only by `long_spec`): capacities x20, shift lengths x40
pub const F_LONG: u16 = 32768;

fn place_spec(nloc: u16) -> impl Strategy<Value = PlaceSpec> {
    (0..nloc, prop_oneof![Just(0u8), Just(5), Just(10), Just(30)], prop::collection::vec((0u16..200, 10u16..300), 0..=3)).prop_map(|(loc, duration, windows)| PlaceSpec { loc, duration, windows })
}

fn job_spec(nloc: u16, dims: usize) -> impl Strategy<Value = JobSpec> {
    let kind = prop_oneof![
        8 => Just(JobKind::Delivery),
        4 => Just(JobKind::Pickup),
        2 => Just(JobKind::Service),
        1 => Just(JobKind::Replacement),
        4 => Just(JobKind::PickupDelivery),
        1 => Just(JobKind::TwoPickupsOneDelivery),
        1 => Just(JobKind::OnePickupTwoDeliveries),
        1 => Just(JobKind::TwoDeliveries),
    ];
    (
        kind,
        prop::collection::vec(prop::collection::vec(place_spec(nloc), 1..=3), 3),
        prop::collection::vec(0u8..4, dims),
        0u8..8,
        0u8..6,
        0u8..6,
        0u8..5,
        0u8..5,
        prop_oneof![20 => Just(0u8), 1 => Just(1u8), 1 => Just(2u8)],
    )
        .prop_map(|(kind, places, demand, skills, group, compat, order, value, infeasible)| JobSpec { kind, places, demand, skills, group, compat, order, value, infeasible })
}

fn shift_spec(nloc: u16) -> impl Strategy<Value = ShiftSpec> {
    let brk = (0u16..400, 20u16..300, prop_oneof![Just(10u8), Just(30)], 0..=nloc, any::<bool>(), 0u8..3).prop_map(|(start, len, duration, loc, offset_form, policy)| BreakSpec { start, len, duration, loc, offset_form, policy });
    let reload = (0..nloc, prop_oneof![Just(0u8), Just(10)], prop::option::weighted(0.3, (0u16..300, 50u16..600)), prop::bool::weighted(0.3)).prop_map(|(loc, duration, window, shared)| ReloadSpec { loc, duration, window, shared });
    (0..nloc, 0..=nloc, 0u16..100, 0u8..6, 200u16..1500, prop::collection::vec(brk, 0..=1), prop::collection::vec(reload, 0..=2))
        .prop_map(|(start_loc, end_loc, earliest, latest, length, breaks, reloads)| ShiftSpec { start_loc, end_loc, earliest, latest, length, breaks, reloads })
}

fn vehicle_spec(nloc: u16, dims: usize) -> impl Strategy<Value = VehicleSpec> {
    (
        (1u8..=3, prop::collection::vec(1u8..12, dims), prop::collection::vec(shift_spec(nloc), 1..=2)),
        (0u8..40, 0u8..4, 0u8..4, 0u8..8, 0u8..5, 0u8..2),
        (0u16..400, 0u16..1200, 0u8..8),
    )
        .prop_map(|((ids, capacity, shifts), (fixed, cd, ct, skills, scale, profile), (max_distance, max_duration, tour_size))| VehicleSpec {
            ids,
            capacity,
            shifts,
            fixed,
            cd,
            ct,
            skills,
            scale,
            profile,
            max_distance,
            max_duration,
            tour_size,
        })
}

pub fn problem_spec(max_jobs: usize) -> impl Strategy<Value = ProblemSpec> {
    problem_spec_sized(1, max_jobs)
}

/// Long-tour class: 30-45 jobs served by a single vehicle shift with ample capacity and time, so that tours reach the
/// sizes where leg sampling and similar size-dependent code paths switch on.
pub fn long_spec() -> impl Strategy<Value = ProblemSpec> {
    problem_spec_sized(30, 45).prop_map(|mut s| {
        s.features = (s.features & (F_MULTI | F_VALUE | F_UNTAGGED | F_LATEST)) | F_LONG;
        s.vehicles.truncate(1);
        s.vehicles[0].ids = 1;
        s.vehicles[0].shifts.truncate(1);
        s.unreachable.clear();
        s
    })
}

/// Mostly small problems, every 20th case one of the long-tour class.
pub fn mixed_spec(max_jobs: usize) -> impl Strategy<Value = ProblemSpec> {
    prop_oneof![19 => problem_spec(max_jobs).boxed(), 1 => long_spec().boxed()]
}

pub fn problem_spec_sized(min_jobs: usize, max_jobs: usize) -> impl Strategy<Value = ProblemSpec> {
    (3u16..=9, 1usize..=2, 1u8..=2).prop_flat_map(move |(nloc, dims, profiles)| {
        (
            prop::collection::vec((0u8..30, 0u8..30), nloc as usize),
            prop::collection::vec(0u8..6, (nloc * nloc) as usize),
            prop::bool::weighted(0.2),
            prop::collection::vec(any::<u16>(), 0..3),
            prop::collection::vec(job_spec(nloc, dims), min_jobs..=max_jobs),
            prop::collection::vec(vehicle_spec(nloc, dims), 1..=3),
            0u8..17,
            4u8..30,
            any::<u16>(),
        )
            .prop_map(move |(coords, asym, non_metric, unreachable, jobs, vehicles, objectives, shared_resource_capacity, features)| ProblemSpec {
                coords,
                asym,
                non_metric,
                unreachable,
                profiles,
                dims: dims as u8,
                jobs,
                vehicles,
                objectives,
                shared_resource_capacity,
                // each feature on with probability 1/2 (the long-tour class is a generator of its own)
                features: features & !F_LONG,
            })
    })
}

// ---------------------------------------------------------------------------------------------
// rendering into the pragmatic API model
// ---------------------------------------------------------------------------------------------

#[derive(Clone, Debug, Serialize, Deserialize)]
pub struct Rendered {
    pub problem: api::Problem,
    pub matrices: Vec<api::Matrix>,
    /// generator-side facts used for classification
    pub info: RenderInfo,
}

#[derive(Clone, Debug, Default, Serialize, Deserialize)]
pub struct RenderInfo {
    pub features: Vec<String>,
    pub integer_times: bool,
}

pub const PROFILE_NAMES: [&str; 2] = ["car", "truck"];
const SKILLS: [&str; 3] = ["s1", "s2", "s3"];

fn loc(i: usize) -> ApiLocation {
    ApiLocation::Reference { index: i }
}

fn t(v: i64) -> String {
    fmt_time(T0 + v)
}

pub fn scale_of(v: &VehicleSpec, features: u16) -> Option<f64> {
    if features & F_SCALE == 0 {
        return None;
    }
    match v.scale {
        0 | 1 => None,
        2 => Some(0.5),
        3 => Some(1.5),
        _ => Some(2.0),
    }
}

/// Builds distance/duration matrices: integer, zero diagonal, asymmetric, durations even (so that
/// .5 scales keep times integral).
pub fn build_matrices(spec: &ProblemSpec) -> Vec<api::Matrix> {
    let n = spec.coords.len();
    (0..spec.profiles as usize)
        .map(|p| {
            let mut distances = vec![0i64; n * n];
            let mut times = vec![0i64; n * n];
            for i in 0..n {
                for j in 0..n {
                    if i == j {
                        continue;
                    }
                    let (a, b) = (spec.coords[i], spec.coords[j]);
                    let manhattan = (a.0 as i64 - b.0 as i64).abs() + (a.1 as i64 - b.1 as i64).abs();
                    let asym = spec.asym[i * n + j] as i64;
                    // metric class: asymmetry comes from node potentials (d + pi(j) - pi(i) keeps the triangle inequality
                    // exactly, also on collinear points); non-metric class: free per-pair offsets
                    let (pi_i, pi_j) = ((spec.asym[i * n + i] % 3) as i64, (spec.asym[j * n + j] % 3) as i64);
                    let (rho_i, rho_j) = ((spec.asym[i * n + i] / 3 % 2) as i64, (spec.asym[j * n + j] / 3 % 2) as i64);
                    let mut d = if spec.non_metric { manhattan * 2 + asym * 7 + 1 } else { manhattan * 2 + 3 + pi_j - pi_i };
                    if p == 1 {
                        d += 3;
                    }
                    distances[i * n + j] = d;
                    // duration: even numbers, differs from distance
                    times[i * n + j] = if spec.non_metric { 2 * (d + (asym % 3) + p as i64) } else { 2 * (d + 1 + rho_j - rho_i + p as i64) };
                }
            }
            let error_codes = if spec.features & F_UNREACHABLE != 0 && !spec.unreachable.is_empty() {
                let mut codes = vec![0i64; n * n];
                for u in spec.unreachable.iter() {
                    let k = pick_idx(*u, n * n);
                    if k / n != k % n {
                        codes[k] = 1;
                    }
                }
                codes.iter().any(|c| *c > 0).then_some(codes)
            } else {
                None
            };
            api::Matrix { profile: Some(PROFILE_NAMES[p].to_string()), timestamp: None, travel_times: times, distances, error_codes }
        })
        .collect()
}

fn windows_of(p: &PlaceSpec, enabled: bool) -> Option<Vec<Vec<String>>> {
    if !enabled || p.windows.is_empty() {
        return None;
    }
    let mut cur = 0i64;
    let mut out = vec![];
    for (gap, len) in p.windows.iter() {
        let start = cur + *gap as i64;
        let end = start + *len as i64;
        out.push(vec![t(start), t(end)]);
        cur = end + 1;
    }
    Some(out)
}

pub fn render(spec: &ProblemSpec) -> Rendered {
    let n = spec.coords.len();
    let f = spec.features;
    let dims = spec.dims as usize;
    let mut info = RenderInfo { features: vec![], integer_times: true };
    let mut feat = |name: &str| {
        if !info.features.iter().any(|x| x == name) {
            info.features.push(name.to_string());
        }
    };

    let long = f & F_LONG != 0;
    let cap_mul = if long { 20 } else { 1 };
    if long {
        feat("long_tour_class");
    }
    let max_cap: Vec<i32> = (0..dims).map(|d| spec.vehicles.iter().map(|v| v.capacity[d] as i32 * cap_mul).max().unwrap_or(1)).collect();

    // ---- jobs
    let mut jobs = vec![];
    let mut any_value = false;
    let mut any_order = false;
    for (ji, j) in spec.jobs.iter().enumerate() {
        let id = format!("job{ji}");
        let mut demand: Vec<i32> = j.demand.iter().map(|d| *d as i32).collect();
        if demand.iter().all(|d| *d == 0) {
            demand[0] = 1;
        }
        if j.infeasible == 1 {
            demand[0] = max_cap[0] + 3;
            feat("infeasible_oversize");
        }
        let task = |ti: usize, places: &Vec<PlaceSpec>, demand: Option<Vec<i32>>, order: Option<i32>, multi_places: bool| -> api::JobTask {
            let count = if multi_places { places.len() } else { 1 };
            api::JobTask {
                places: places
                    .iter()
                    .take(count)
                    .enumerate()
                    .map(|(pi, p)| api::JobPlace {
                        location: loc(p.loc as usize % n),
                        duration: p.duration as f64,
                        times: windows_of(p, f & F_WINDOWS != 0),
                        // the documentation asks for tags only where places have to be told apart: leave the first of several untagged
                        // (even jobs: the first place, odd jobs: the last place, so that an untagged place follows tagged ones too)
                        tag: (!(f & F_UNTAGGED != 0 && count > 1 && pi == if ji % 2 == 0 { 0 } else { count - 1 })).then(|| format!("{id}_t{ti}_p{pi}")),
                    })
                    .collect(),
                demand,
                order,
            }
        };
        let multi_places = f & F_MULTI != 0;
        if multi_places && f & F_UNTAGGED != 0 && j.places.iter().any(|p| p.len() > 1) {
            feat("untagged_first_place");
        }
        let order = (f & F_ORDER != 0 && j.order > 0 && j.order <= 3).then_some(j.order as i32);
        if order.is_some() && matches!(j.kind, JobKind::Delivery | JobKind::Pickup | JobKind::Service | JobKind::Replacement | JobKind::PickupDelivery) || (order.is_some() && f & F_MULTI == 0) {
            any_order = true;
        }
        let half = |d: &Vec<i32>| -> (Vec<i32>, Vec<i32>) {
            // split demand into two non-negative parts with the same sum
            let a: Vec<i32> = d.iter().map(|x| x / 2).collect();
            let b: Vec<i32> = d.iter().zip(a.iter()).map(|(x, y)| x - y).collect();
            (a, b)
        };
        let nz = |d: Vec<i32>| -> Vec<i32> {
            // a task demand must be non-zero in at least one dimension? (E1101 only requires presence) keep as is
            d
        };
        let (mut pickups, mut deliveries, mut replacements, mut services) = (None, None, None, None);
        let kind = if f & F_MULTI == 0 {
            match j.kind {
                JobKind::TwoPickupsOneDelivery | JobKind::OnePickupTwoDeliveries => JobKind::PickupDelivery,
                JobKind::TwoDeliveries => JobKind::Delivery,
                ref k => k.clone(),
            }
        } else {
            j.kind.clone()
        };
        match kind {
            JobKind::Delivery => deliveries = Some(vec![task(0, &j.places[0], Some(demand.clone()), order, multi_places)]),
            JobKind::Pickup => pickups = Some(vec![task(0, &j.places[0], Some(demand.clone()), order, multi_places)]),
            JobKind::Service => services = Some(vec![task(0, &j.places[0], None, order, multi_places)]),
            JobKind::Replacement => replacements = Some(vec![task(0, &j.places[0], Some(demand.clone()), order, multi_places)]),
            JobKind::PickupDelivery => {
                pickups = Some(vec![task(0, &j.places[0], Some(demand.clone()), order, false)]);
                deliveries = Some(vec![task(1, &j.places[1], Some(demand.clone()), order, false)]);
                feat("pickup_delivery");
            }
            JobKind::TwoPickupsOneDelivery => {
                let (a, b) = half(&demand);
                pickups = Some(vec![task(0, &j.places[0], Some(nz(a)), None, false), task(1, &j.places[1], Some(nz(b)), None, false)]);
                deliveries = Some(vec![task(2, &j.places[2], Some(demand.clone()), None, false)]);
                feat("multi_task_job");
            }
            JobKind::OnePickupTwoDeliveries => {
                let (a, b) = half(&demand);
                pickups = Some(vec![task(0, &j.places[0], Some(demand.clone()), None, false)]);
                deliveries = Some(vec![task(1, &j.places[1], Some(nz(a)), None, false), task(2, &j.places[2], Some(nz(b)), None, false)]);
                feat("multi_task_job");
            }
            JobKind::TwoDeliveries => {
                let (a, b) = half(&demand);
                deliveries = Some(vec![task(0, &j.places[0], Some(nz(a)), None, false), task(1, &j.places[1], Some(nz(b)), None, false)]);
                feat("multi_task_job");
            }
        }
        let skills = if f & F_SKILLS != 0 && (j.skills >= 5 || j.infeasible == 2) {
            feat("skills");
            Some(if j.infeasible == 2 {
                feat("infeasible_skill");
                api::JobSkills { all_of: Some(vec!["unobtainium".to_string()]), one_of: None, none_of: None }
            } else {
                match j.skills {
                    5 => api::JobSkills { all_of: Some(vec![SKILLS[0].to_string()]), one_of: None, none_of: None },
                    6 => api::JobSkills { all_of: None, one_of: Some(vec![SKILLS[0].to_string(), SKILLS[1].to_string()]), none_of: None },
                    _ => api::JobSkills { all_of: None, one_of: None, none_of: Some(vec![SKILLS[2].to_string()]) },
                }
            })
        } else {
            None
        };
        let value = (f & F_VALUE != 0 && j.value >= 3).then_some((j.value as f64 - 1.) * 10.);
        if value.is_some() {
            any_value = true;
        }
        let group = (f & F_GROUPS != 0 && j.group >= 4).then(|| format!("g{}", j.group));
        let compatibility = (f & F_COMPAT != 0 && j.compat >= 3).then(|| format!("c{}", j.compat % 2));
        if group.is_some() {
            feat("group");
        }
        if compatibility.is_some() {
            feat("compatibility");
        }
        if multi_places && j.places[0].len() > 1 && matches!(kind, JobKind::Delivery | JobKind::Pickup | JobKind::Service | JobKind::Replacement) {
            feat("multi_place");
        }
        jobs.push(api::Job { id, pickups, deliveries, replacements, services, skills, value, group, compatibility });
    }
    if f & F_WINDOWS != 0 {
        feat("time_windows");
    }
    if any_order {
        feat("order");
    }
    if any_value {
        feat("value");
    }

    // ---- vehicles
    let mut vehicles = vec![];
    let mut resources: Vec<api::VehicleResource> = vec![];
    let mut any_shared = false;
    let mut used_profiles: Vec<usize> = vec![];
    for (vi, v) in spec.vehicles.iter().enumerate() {
        let type_id = format!("type{vi}");
        let profile = (v.profile as usize) % spec.profiles as usize;
        if !used_profiles.contains(&profile) {
            used_profiles.push(profile);
        }
        let scale = scale_of(v, f);
        if scale.is_some() {
            feat("profile_scale");
        }
        let mut shifts = vec![];
        let mut day_start = 0i64;
        for (si, s) in v.shifts.iter().enumerate() {
            let earliest = day_start + s.earliest as i64;
            let end_latest = earliest + s.length as i64 * if long { 40 } else { 1 };
            let latest = match (f & F_LATEST != 0, s.latest) {
                (false, _) | (_, 0) => None,
                (_, 1) => Some(earliest),
                (_, k) => Some((earliest + (k as i64 - 1) * 10).min(end_latest - 1)),
            };
            if latest.is_some() {
                feat("start_latest");
            }
            let end = (s.end_loc > 0).then(|| api::ShiftEnd { earliest: None, latest: t(end_latest), location: loc((s.end_loc as usize - 1) % n) });
            if end.is_none() {
                feat("open_end");
            }
            // offset breaks require departure rescheduling to be disabled: latest == earliest (E1307)
            let breaks = if f & F_BREAKS != 0 && !s.breaks.is_empty() {
                feat("break");
                Some(
                    s.breaks
                        .iter()
                        .enumerate()
                        .map(|(bi, b)| {
                            let offset_ok = b.offset_form && latest == Some(earliest);
                            let bstart = (b.start % (s.length - 20)) as i64;
                            let time = if offset_ok {
                                feat("break_offset");
                                api::VehicleOptionalBreakTime::TimeOffset(vec![bstart as f64, (bstart + b.len as i64) as f64])
                            } else {
                                api::VehicleOptionalBreakTime::TimeWindow(vec![t(earliest + bstart), t(earliest + bstart + b.len as i64)])
                            };
                            api::VehicleBreak::Optional {
                                time,
                                places: vec![api::VehicleOptionalBreakPlace { duration: b.duration as f64, location: (b.loc > 0).then(|| loc((b.loc as usize - 1) % n)), tag: Some(format!("{type_id}_s{si}_b{bi}")) }],
                                policy: match b.policy {
                                    0 => None,
                                    1 => Some(api::VehicleOptionalBreakPolicy::SkipIfNoIntersection),
                                    _ => Some(api::VehicleOptionalBreakPolicy::SkipIfArrivalBeforeEnd),
                                },
                            }
                        })
                        .collect(),
                )
            } else {
                None
            };
            let reloads = if f & F_RELOADS != 0 && !s.reloads.is_empty() {
                feat("reload");
                Some(
                    s.reloads
                        .iter()
                        .enumerate()
                        .map(|(ri, r)| {
                            if r.shared {
                                any_shared = true;
                            }
                            api::VehicleReload {
                                location: loc(r.loc as usize % n),
                                duration: r.duration as f64,
                                times: r.window.map(|(a, l)| {
                                    let a = (a % (s.length - 20)) as i64;
                                    vec![vec![t(earliest + a), t(earliest + a + l as i64)]]
                                }),
                                tag: Some(format!("{type_id}_s{si}_r{ri}")),
                                resource_id: r.shared.then(|| "res1".to_string()),
                            }
                        })
                        .collect(),
                )
            } else {
                None
            };
            shifts.push(api::VehicleShift { start: api::ShiftStart { earliest: t(earliest), latest: latest.map(t), location: loc(s.start_loc as usize % n) }, end, breaks, reloads, recharges: None });
            day_start = end_latest + 100;
        }
        if shifts.len() > 1 {
            feat("multi_shift");
        }
        let limits = {
            let max_distance = (f & F_LIMITS != 0 && v.max_distance >= 60).then_some(v.max_distance as f64);
            let max_duration = (f & F_LIMITS != 0 && v.max_duration >= 150 && v.max_duration % 2 == 0).then_some(v.max_duration as f64);
            let tour_size = (f & F_TOURSIZE != 0 && v.tour_size >= 2 && v.tour_size <= 5).then_some(v.tour_size as usize);
            if max_distance.is_some() {
                feat("max_distance");
            }
            if max_duration.is_some() {
                feat("max_duration");
            }
            if tour_size.is_some() {
                feat("tour_size");
            }
            (max_distance.is_some() || max_duration.is_some() || tour_size.is_some()).then_some(api::VehicleLimits { max_distance, max_duration, tour_size })
        };
        let (cd, ct) = match (v.cd, v.ct) {
            (0, 0) => (1., 0.),
            (a, b) => (a as f64, b as f64 * 0.5),
        };
        let skills = (f & F_SKILLS != 0 && v.skills >= 2).then(|| {
            let mut s = vec![];
            for (k, name) in SKILLS.iter().enumerate() {
                if v.skills & (1 << k) != 0 {
                    s.push(name.to_string());
                }
            }
            s
        });
        vehicles.push(api::VehicleType {
            vehicle_ids: (0..v.ids.clamp(1, 3)).map(|k| format!("{type_id}_v{k}")).collect(),
            type_id,
            profile: api::VehicleProfile { matrix: PROFILE_NAMES[profile].to_string(), scale },
            costs: api::VehicleCosts { fixed: (v.fixed > 0).then_some(v.fixed as f64), distance: cd, time: ct },
            shifts,
            capacity: v.capacity.iter().map(|c| *c as i32 * cap_mul).collect(),
            skills,
            limits,
        });
    }
    if any_shared {
        feat("shared_reload_resource");
        resources.push(api::VehicleResource::Reload { id: "res1".to_string(), capacity: (0..dims).map(|_| spec.shared_resource_capacity as i32).collect() });
    }
    if dims > 1 {
        feat("multi_dim_capacity");
    }

    // compact location indices: the reader requires the matrix size to equal the number of distinct
    // locations used, so unused indices are dropped and the rest renumbered (order preserving)
    let mut plan = api::Plan { jobs, relations: None, clustering: None };
    let mut used: Vec<usize> = vec![];
    for_each_location(&mut plan, &mut vehicles, &mut |l| {
        if let ApiLocation::Reference { index } = l {
            if !used.contains(index) {
                used.push(*index);
            }
        }
    });
    used.sort();
    for_each_location(&mut plan, &mut vehicles, &mut |l| {
        if let ApiLocation::Reference { index } = l {
            *index = used.iter().position(|u| u == index).unwrap();
        }
    });
    let jobs = plan.jobs;

    // profiles: only those used by vehicles (every fleet profile needs a matrix); keep order by index
    used_profiles.sort();
    let all_matrices = build_matrices(spec);
    let matrices = used_profiles
        .iter()
        .map(|p| {
            let m = &all_matrices[*p];
            let pickm = |v: &Vec<i64>| -> Vec<i64> { used.iter().flat_map(|i| used.iter().map(move |j| v[i * n + j])).collect() };
            api::Matrix {
                profile: m.profile.clone(),
                timestamp: None,
                travel_times: pickm(&m.travel_times),
                distances: pickm(&m.distances),
                error_codes: m.error_codes.as_ref().map(pickm).filter(|c| c.iter().any(|x| *x > 0)),
            }
        })
        .collect::<Vec<_>>();
    if matrices.iter().any(|m| m.error_codes.is_some()) {
        feat("unreachable_pairs");
    }
    if used_profiles.len() > 1 {
        feat("multi_profile");
    }
    if spec.non_metric {
        feat("non_metric");
    }
    let fleet_profiles = used_profiles.iter().map(|p| api::MatrixProfile { name: PROFILE_NAMES[*p].to_string(), speed: None }).collect();

    // objectives
    let objectives = {
        use api::Objective::*;
        let mut base = vec![MinimizeUnassigned { breaks: None }, MinimizeTours, MinimizeCost];
        match spec.objectives {
            0..=3 => None,
            4 => Some({
                base[2] = MinimizeDistance;
                base
            }),
            5 => Some({
                if any_order {
                    base.insert(1, TourOrder);
                }
                base
            }),
            6 => Some({
                if any_value {
                    base.insert(0, MaximizeValue { breaks: None });
                }
                base.remove(if any_value { 2 } else { 1 });
                base
            }),
            7 => Some(vec![MinimizeUnassigned { breaks: Some(2.) }, MinimizeDuration]),
            8 => Some(vec![MinimizeUnassigned { breaks: None }, MinimizeTours, BalanceMaxLoad, MinimizeCost]),
            9 => Some(vec![MinimizeUnassigned { breaks: None }, BalanceActivities, MinimizeCost]),
            10 => Some(vec![MinimizeUnassigned { breaks: None }, MinimizeTours, BalanceDistance, MinimizeDistance]),
            11 => Some(vec![MinimizeUnassigned { breaks: None }, BalanceDuration, MinimizeDuration]),
            12 => Some(vec![MinimizeUnassigned { breaks: None }, MinimizeArrivalTime, MinimizeCost]),
            13 => Some(vec![MinimizeUnassigned { breaks: None }, MultiObjective { strategy: api::MultiStrategy::WeightedSum { weights: vec![100., 1.] }, objectives: vec![MinimizeTours, MinimizeCost] }]),
            14 => Some(vec![MinimizeUnassigned { breaks: None }, MaximizeTours, MinimizeCost]),
            15 => Some(vec![MinimizeUnassigned { breaks: None }, FastService, MinimizeCost]),
            _ => Some(vec![MinimizeUnassigned { breaks: None }, CompactTour { job_radius: 2 }, MinimizeCost]),
        }
    };
    // E1607: jobs with value require a maximize-value objective in an explicit list
    let objectives = objectives.map(|mut o| {
        if any_value && !o.iter().any(|x| matches!(x, api::Objective::MaximizeValue { .. })) {
            o.insert(0, api::Objective::MaximizeValue { breaks: None });
        }
        o
    });
    if let Some(o) = objectives.as_ref() {
        feat("explicit_objectives");
        if o.iter().any(|o| matches!(o, api::Objective::TourOrder)) {
            feat("soft_order");
        }
        if o.iter().any(|o| matches!(o, api::Objective::BalanceMaxLoad | api::Objective::BalanceActivities | api::Objective::BalanceDistance | api::Objective::BalanceDuration)) {
            feat("balance_objective");
        }
        if o.iter().any(|o| matches!(o, api::Objective::MinimizeArrivalTime | api::Objective::MultiObjective { .. } | api::Objective::MaximizeTours | api::Objective::FastService | api::Objective::CompactTour { .. })) {
            feat("rare_objective");
        }
    }

    Rendered {
        problem: api::Problem { plan: api::Plan { jobs, relations: None, clustering: None }, fleet: api::Fleet { vehicles, profiles: fleet_profiles, resources: (!resources.is_empty()).then_some(resources) }, objectives },
        matrices,
        info,
    }
}

pub fn for_each_location(plan: &mut api::Plan, vehicles: &mut [api::VehicleType], f: &mut dyn FnMut(&mut ApiLocation)) {
    for job in plan.jobs.iter_mut() {
        for tasks in [&mut job.pickups, &mut job.deliveries, &mut job.replacements, &mut job.services] {
            for task in tasks.iter_mut().flatten() {
                for place in task.places.iter_mut() {
                    f(&mut place.location);
                }
            }
        }
    }
    for v in vehicles.iter_mut() {
        for s in v.shifts.iter_mut() {
            f(&mut s.start.location);
            if let Some(e) = s.end.as_mut() {
                f(&mut e.location);
            }
            for b in s.breaks.iter_mut().flatten() {
                if let api::VehicleBreak::Optional { places, .. } = b {
                    for p in places.iter_mut() {
                        if let Some(l) = p.location.as_mut() {
                            f(l);
                        }
                    }
                }
            }
            for r in s.reloads.iter_mut().flatten() {
                f(&mut r.location);
            }
        }
    }
}

// ---------------------------------------------------------------------------------------------
// G_config
// ---------------------------------------------------------------------------------------------

#[derive(Clone, Debug, Serialize, Deserialize)]
pub struct ConfigSpec {
    pub population: u8,
    pub pop_a: u8,
    pub pop_b: u8,
    pub hyper: u8,
    pub ruins: Vec<u8>,
    pub recreates: Vec<u8>,
    pub locals: Vec<u8>,
    pub decomposition: bool,
    pub initial: u8,
    pub max_generations: u16,
    pub pools: u8,
    pub threads: u8,
    pub variation: bool,
}

pub fn config_spec(max_gen: u16) -> impl Strategy<Value = ConfigSpec> {
    (
        (0u8..4, 1u8..7, 1u8..5, 0u8..4),
        (prop::collection::vec(0u8..8, 1..4), prop::collection::vec(0u8..10, 1..4), prop::collection::vec(0u8..5, 1..3), prop::bool::weighted(0.3)),
        (0u8..11, 1u16..=max_gen, 1u8..=3, 1u8..=4, prop::bool::weighted(0.2)),
    )
        .prop_map(|((population, pop_a, pop_b, hyper), (ruins, recreates, locals, decomposition), (initial, max_generations, pools, threads, variation))| ConfigSpec {
            population,
            pop_a,
            pop_b,
            hyper,
            ruins,
            recreates,
            locals,
            decomposition,
            initial,
            max_generations,
            pools,
            threads,
            variation,
        })
}

fn recreate_json(k: u8) -> Value {
    match k % 10 {
        0 => json!({"type": "cheapest", "weight": 1}),
        1 => json!({"type": "skip-best", "weight": 1, "start": 1, "end": 2}),
        2 => json!({"type": "blinks", "weight": 1}),
        3 => json!({"type": "gaps", "weight": 1, "min": 2, "max": 20}),
        4 => json!({"type": "nearest", "weight": 1}),
        5 => json!({"type": "skip-random", "weight": 1}),
        6 => json!({"type": "slice", "weight": 1}),
        7 => json!({"type": "farthest", "weight": 1}),
        8 => json!({"type": "perturbation", "weight": 1, "probability": 0.33, "min": -0.2, "max": 0.2}),
        _ => json!({"type": "regret", "weight": 1, "start": 2, "end": 3}),
    }
}

fn ruin_json(k: u8) -> Value {
    match k % 8 {
        0 => json!({"type": "adjusted-string", "probability": 1.0, "lmax": 10, "cavg": 10, "alpha": 0.01}),
        1 => json!({"type": "neighbour", "probability": 1.0, "min": 1, "max": 6}),
        2 => json!({"type": "random-job", "probability": 1.0, "min": 1, "max": 6}),
        3 => json!({"type": "random-route", "probability": 1.0, "min": 1, "max": 3}),
        4 => json!({"type": "close-route", "probability": 1.0}),
        5 => json!({"type": "worst-route", "probability": 1.0}),
        6 => json!({"type": "worst-job", "probability": 1.0, "min": 1, "max": 6, "skip": 2}),
        _ => json!({"type": "cluster", "probability": 1.0, "min": 1, "max": 6}),
    }
}

fn local_json(k: u8) -> Value {
    let noise = json!({"probability": 0.1, "min": -0.1, "max": 0.1});
    match k % 5 {
        0 => json!({"type": "swap-star", "weight": 1}),
        1 => json!({"type": "inter-route-best", "weight": 1, "noise": noise}),
        2 => json!({"type": "inter-route-random", "weight": 1, "noise": noise}),
        3 => json!({"type": "intra-route-random", "weight": 1, "noise": noise}),
        _ => json!({"type": "sequence", "weight": 1}),
    }
}

/// Renders a config JSON document of vrp_cli's Config type.
pub fn render_config(c: &ConfigSpec) -> Value {
    let population = match c.population {
        0 => Value::Null,
        1 => json!({"type": "greedy", "selectionSize": c.pop_b.max(1)}),
        2 => json!({"type": "elitism", "maxSize": c.pop_a.max(1), "selectionSize": c.pop_b.max(1)}),
        _ => json!({"type": "rosomaxa", "selectionSize": (c.pop_b as usize + 1).max(2), "maxEliteSize": c.pop_a.clamp(1, 4), "maxNodeSize": (c.pop_b % 3) + 1,
                    "spreadFactor": 0.25 + (c.pop_a % 3) as f64 * 0.25, "distributionFactor": 0.25 + (c.pop_b % 3) as f64 * 0.3, "rebalanceMemory": 10 + c.pop_a as usize * 10, "explorationRatio": 0.5 + (c.pop_a % 5) as f64 * 0.1}),
    };
    let hyper = match c.hyper {
        0 => Value::Null,
        1 => json!({"type": "dynamic-selective"}),
        2 => json!({"type": "static-selective"}),
        _ => {
            let mut operators = vec![
                json!({"type": "ruin-recreate", "probability": {"scalar": 1.0},
                       "ruins": c.ruins.iter().map(|r| json!({"weight": 1, "methods": [ruin_json(*r)]})).collect::<Vec<_>>(),
                       "recreates": c.recreates.iter().map(|r| recreate_json(*r)).collect::<Vec<_>>()}),
                json!({"type": "local-search", "probability": {"scalar": 0.5}, "times": {"min": 1, "max": 2},
                       "operators": c.locals.iter().map(|l| local_json(*l)).collect::<Vec<_>>()}),
            ];
            if c.decomposition {
                operators.push(json!({"type": "decomposition", "routes": {"min": 2, "max": 4}, "repeat": 2, "probability": {"scalar": 0.5}}));
            }
            json!({"type": "static-selective", "operators": operators})
        }
    };
    let mut evolution = serde_json::Map::new();
    if c.initial > 0 {
        evolution.insert(
            "initial".into(),
            json!({"method": recreate_json(c.initial - 1), "alternatives": {"methods": [recreate_json(c.initial), recreate_json(c.initial + 3)], "maxSize": 2 + (c.initial % 3) as usize, "quota": 0.05}}),
        );
    }
    if !population.is_null() {
        evolution.insert("population".into(), population);
    }
    let mut termination = json!({"maxGenerations": c.max_generations});
    if c.variation {
        termination["variation"] = json!({"intervalType": "sample", "value": 20, "cv": 0.1, "isGlobal": true});
    }
    let mut cfg = json!({
        "termination": termination,
        "environment": {"parallelism": {"numThreadPools": c.pools.max(1), "threadsPerPool": c.threads.max(1)}, "logging": {"enabled": false}},
        "telemetry": {"metrics": {"enabled": true, "trackPopulation": 1000}},
    });
    if !evolution.is_empty() {
        cfg["evolution"] = Value::Object(evolution);
    }
    if !hyper.is_null() {
        cfg["hyper"] = hyper;
    }
    cfg
}
