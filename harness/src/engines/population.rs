//! C08: a population never loses its best-known solution (stateful histories against a best-so-far model).

use super::common::*;
use crate::fw::*;
use proptest::prelude::*;
use rosomaxa::algorithms::gsom::Input;
use rosomaxa::population::*;
use rosomaxa::prelude::*;
use rosomaxa::utils::{Parallelism, Timer};
use rosomaxa::{HeuristicSpeed, HeuristicStatistics};
use serde::{Deserialize, Serialize};
use serde_json::json;
use std::cmp::Ordering;
use std::collections::HashSet;
use std::sync::Arc;

#[derive(Clone, Debug)]
pub struct Ind {
    pub id: u32,
    pub fitness: Vec<f64>,
    pub weights: Vec<f64>,
}

impl HeuristicSolution for Ind {
    fn fitness(&self) -> impl Iterator<Item = Float> {
        self.fitness.iter().copied()
    }
    fn deep_copy(&self) -> Self {
        self.clone()
    }
}

impl Input for Ind {
    fn weights(&self) -> &[Float] {
        &self.weights
    }
}

pub struct Ctx;

impl RosomaxaContext for Ctx {
    type Solution = Ind;
    fn on_change(&mut self, _: &[Ind]) {}
}

impl RosomaxaSolution for Ind {
    type Context = Ctx;
    fn on_init(&mut self, _: &Ctx) {}
    fn on_update(&mut self, _: &Ctx) {}
}

#[derive(Clone)]
pub struct LexObjective;

impl HeuristicObjective for LexObjective {
    type Solution = Ind;
    fn total_order(&self, a: &Ind, b: &Ind) -> Ordering {
        for (x, y) in a.fitness.iter().zip(b.fitness.iter()) {
            match x.total_cmp(y) {
                Ordering::Equal => continue,
                o => return o,
            }
        }
        Ordering::Equal
    }
}

impl Alternative for LexObjective {
    fn maybe_new(&self, _: &(dyn Random)) -> Self {
        self.clone()
    }
}

#[derive(Clone, Debug, Serialize, Deserialize)]
pub struct IndSpec {
    /// fitness components as small integers scaled per class
    pub f: Vec<i16>,
    pub w: Vec<i16>,
}

#[derive(Clone, Debug, Serialize, Deserialize)]
pub enum PopOp {
    Add(IndSpec),
    AddAll(Vec<IndSpec>),
    /// (termination estimate in percent, generation step, speed class)
    OnGeneration(u8, u8, u8),
    Select,
    Ranked,
}

#[derive(Clone, Debug, Serialize, Deserialize)]
pub enum PopKind {
    Greedy { selection: u8 },
    Elitism { max: u8, selection: u8 },
    Rosomaxa { initial: u8, selection: u8, elite: u8, node: u8, spread: u8, distribution: u8, rebalance: u8, exploration: u8 },
}

#[derive(Clone, Debug, Serialize, Deserialize)]
pub struct PopCase {
    pub kind: PopKind,
    pub dims: u8,
    pub wdims: u8,
    /// fitness scale class: 0 = integers, 1 = near-equal (relative differences below dedup thresholds), 2 = mixed
    pub scale: u8,
    pub seed: u64,
    pub ops: Vec<PopOp>,
}

pub struct PopProp {
    pub which: u8,
}

fn ind_spec(dims: usize, wdims: usize) -> impl Strategy<Value = IndSpec> {
    (prop::collection::vec(-6i16..12, dims), prop::collection::vec(-50i16..50, wdims)).prop_map(|(f, w)| IndSpec { f, w })
}

fn pop_op(dims: usize, wdims: usize, rosomaxa: bool) -> impl Strategy<Value = PopOp> {
    let gen_weight = if rosomaxa { 4 } else { 1 };
    prop_oneof![
        4 => ind_spec(dims, wdims).prop_map(PopOp::Add),
        3 => prop::collection::vec(ind_spec(dims, wdims), 0..6).prop_map(PopOp::AddAll),
        gen_weight => (0u8..=100, 0u8..4, 0u8..3).prop_map(|(a, b, c)| PopOp::OnGeneration(a, b, c)),
        2 => Just(PopOp::Select),
        1 => Just(PopOp::Ranked),
    ]
}

fn make_ind(spec: &IndSpec, id: u32, scale: u8) -> Ind {
    let fitness = spec
        .f
        .iter()
        .enumerate()
        .map(|(i, v)| match (scale, i) {
            (0, _) => *v as f64,
            // near-equal: 1000 + v*0.5 -> relative differences ~0.05%..1% (below the 2% / 5% dedup thresholds)
            (1, _) => 1000. + *v as f64 * 0.5,
            (_, 0) => (*v as f64 / 3.).floor(),
            (_, _) => 1000. + *v as f64 * 0.5,
        })
        .collect();
    Ind { id, fitness, weights: spec.w.iter().map(|w| *w as f64 * 0.37).collect() }
}

fn stats_for(generation: usize, estimate: f64, speed: u8) -> HeuristicStatistics {
    HeuristicStatistics {
        generation,
        time: Timer::start(),
        speed: match speed {
            0 => HeuristicSpeed::Unknown,
            1 => HeuristicSpeed::Moderate { average: 100., median: Some(10) },
            // slow speed with different ratios (small ratios shrink the selection size)
            k => HeuristicSpeed::Slow { ratio: [0.5, 0.1, 0.25, 1.0][(k as usize + generation) % 4], average: 1., median: Some(1000) },
        },
        improvement_all_ratio: 0.1,
        improvement_1000_ratio: 0.05 + (generation % 7) as f64 * 0.05,
        termination_estimate: estimate,
    }
}

impl Prop for PopProp {
    type Case = PopCase;
    fn name(&self) -> &'static str {
        match self.which {
            0 => "population_greedy",
            1 => "population_elitism",
            _ => "population_rosomaxa",
        }
    }
    fn strategy(&self, _tier: Tier) -> BoxedStrategy<PopCase> {
        let which = self.which;
        let kind: BoxedStrategy<PopKind> = match which {
            0 => (1u8..4).prop_map(|selection| PopKind::Greedy { selection }).boxed(),
            1 => (1u8..=8, 1u8..6).prop_map(|(max, selection)| PopKind::Elitism { max, selection }).boxed(),
            _ => (4u8..=8, 2u8..=8, 1u8..=4, 1u8..=3, 1u8..=9, 1u8..=9, 1u8..=40, 0u8..=10)
                .prop_map(|(initial, selection, elite, node, spread, distribution, rebalance, exploration)| PopKind::Rosomaxa { initial, selection, elite, node, spread, distribution, rebalance, exploration })
                .boxed(),
        };
        let max_ops = if which == 2 { 60 } else { 80 };
        (kind, 1usize..=3, 2usize..=4, 0u8..3, any::<u64>())
            .prop_flat_map(move |(kind, dims, wdims, scale, seed)| {
                prop::collection::vec(pop_op(dims, wdims, which == 2), 1..max_ops).prop_map(move |ops| PopCase { kind: kind.clone(), dims: dims as u8, wdims: wdims as u8, scale, seed, ops })
            })
            .boxed()
    }
    fn cases(&self, tier: Tier) -> u32 {
        match self.which {
            2 => tier.pick(1_200, 40_000),
            _ => tier.pick(6_000, 150_000),
        }
    }
    fn shards(&self, _tier: Tier) -> u32 {
        if self.which == 2 { 16 } else { 8 }
    }
    fn check(&self, c: &PopCase, stats: &Stats) -> Check {
        let objective = Arc::new(LexObjective);
        let env = quiet_env(c.seed, Parallelism::new(1, 1), None);
        let (mut pop, bound): (Box<dyn HeuristicPopulation<Objective = LexObjective, Individual = Ind>>, usize) = match &c.kind {
            PopKind::Greedy { selection } => (Box::new(Greedy::new(objective.clone(), *selection as usize, None)), 1),
            PopKind::Elitism { max, selection } => (Box::new(Elitism::new(objective.clone(), env.random.clone(), *max as usize, *selection as usize)), *max as usize),
            PopKind::Rosomaxa { initial, selection, elite, node, spread, distribution, rebalance, exploration } => {
                let config = RosomaxaConfig {
                    initial_size: *initial as usize,
                    selection_size: *selection as usize,
                    elite_size: *elite as usize,
                    node_size: *node as usize,
                    spread_factor: *spread as f64 / 10.,
                    distribution_factor: *distribution as f64 / 10.,
                    rebalance_memory: *rebalance as usize,
                    exploration_ratio: *exploration as f64 / 10.,
                };
                let pop = Rosomaxa::new(Ctx, objective.clone(), env.clone(), config).map_err(|e| Failure::new("population:rosomaxa-new", format!("valid config rejected: {e}")))?;
                (Box::new(pop), *elite as usize)
            }
        };
        let mut next_id = 0u32;
        let mut offered: HashSet<u32> = HashSet::new();
        let mut best: Option<Ind> = None;
        let mut generation = 0usize;
        let mut phases: Vec<SelectionPhase> = vec![];
        let (mut better_after_full, mut twin_of_best, mut batch_with_late_best) = (false, false, false);

        for (step, op) in c.ops.iter().enumerate() {
            let offer = |specs: &[IndSpec], next_id: &mut u32| -> Vec<Ind> {
                specs
                    .iter()
                    .map(|s| {
                        *next_id += 1;
                        make_ind(s, *next_id, c.scale)
                    })
                    .collect::<Vec<_>>()
            };
            match op {
                PopOp::Add(_) | PopOp::AddAll(_) => {
                    let inds = match op {
                        PopOp::Add(s) => offer(std::slice::from_ref(s), &mut next_id),
                        PopOp::AddAll(s) => offer(s, &mut next_id),
                        _ => unreachable!(),
                    };
                    let size_before = pop.size();
                    let prev_best = best.clone();
                    for i in inds.iter() {
                        offered.insert(i.id);
                        if let Some(b) = best.as_ref() {
                            if i.fitness == b.fitness {
                                twin_of_best = true;
                            }
                        }
                        if best.as_ref().is_none_or(|b| objective.total_order(i, b) == Ordering::Less) {
                            best = Some(i.clone());
                        }
                    }
                    // batch whose best member is not the first improving one
                    if inds.len() >= 2 {
                        if let Some(pb) = prev_best.as_ref() {
                            let improving = inds.iter().filter(|i| objective.total_order(i, pb) == Ordering::Less).collect::<Vec<_>>();
                            if improving.len() >= 2 && objective.total_order(improving[0], best.as_ref().unwrap()) == Ordering::Greater {
                                batch_with_late_best = true;
                            }
                        }
                    }
                    let strictly_improved = match (prev_best.as_ref(), best.as_ref()) {
                        (None, Some(_)) => true,
                        (Some(p), Some(b)) => objective.total_order(b, p) == Ordering::Less,
                        _ => false,
                    };
                    if strictly_improved && size_before >= bound {
                        better_after_full = true;
                    }
                    let flag = match op {
                        PopOp::Add(_) => pop.add(inds.into_iter().next().unwrap()),
                        _ => pop.add_all(inds),
                    };
                    if strictly_improved {
                        ensure!(flag, "population:improved-flag", "step {step}: best strictly improved to {:?} but add returned false", best.as_ref().map(|b| &b.fitness));
                    }
                }
                PopOp::OnGeneration(estimate, step_by, speed) => {
                    generation += *step_by as usize;
                    pop.on_generation(&stats_for(generation, *estimate as f64 / 100., *speed));
                }
                PopOp::Select => {
                    let selected = pop.select().map(|i| i.id).collect::<Vec<_>>();
                    ensure!(selected.iter().all(|id| offered.contains(id)), "population:select-foreign", "step {step}: select returned ids {selected:?} not all offered");
                    if pop.size() > 0 {
                        ensure!(!selected.is_empty(), "population:select-empty", "step {step}: population of size {} selected nothing", pop.size());
                    }
                }
                PopOp::Ranked => {}
            }
            // invariants after every step
            let ranked = pop.ranked().cloned().collect::<Vec<_>>();
            ensure!(ranked.iter().all(|i| offered.contains(&i.id)), "population:ranked-foreign", "step {step}: ranked contains an individual never offered");
            ensure!(ranked.windows(2).all(|w| objective.total_order(&w[0], &w[1]) != Ordering::Greater), "population:ranked-unsorted", "step {step}: ranked not sorted: {:?}", ranked.iter().map(|i| &i.fitness).collect::<Vec<_>>());
            ensure!(pop.size() <= bound, "population:size-bound", "step {step}: size {} exceeds bound {bound}", pop.size());
            ensure!(ranked.len() == pop.size(), "population:size-vs-ranked", "step {step}: size() {} != ranked length {}", pop.size(), ranked.len());
            if let Some(b) = best.as_ref() {
                let first = ranked.first();
                ensure!(first.is_some(), "population:lost-everything", "step {step} {op:?}: individuals were offered but ranked is empty");
                let first = first.unwrap();
                ensure!(
                    objective.total_order(first, b) != Ordering::Greater,
                    "population:lost-best",
                    "step {step} {op:?}: first ranked {:?} is worse than the best ever offered {:?}",
                    first.fitness,
                    b.fitness
                );
                ensure!(pop.all().all(|i| offered.contains(&i.id)), "population:all-foreign", "step {step}: all() contains an individual never offered");
            }
            let phase = pop.selection_phase();
            if phases.last() != Some(&phase) {
                phases.push(phase);
            }
        }
        // phases only forward
        let rank = |p: &SelectionPhase| match p {
            SelectionPhase::Initial => 0,
            SelectionPhase::Exploration => 1,
            SelectionPhase::Exploitation => 2,
        };
        ensure!(phases.windows(2).all(|w| rank(&w[0]) < rank(&w[1])), "population:phase-backwards", "phases went {phases:?}");

        stats.eval();
        let phase_switch = phases.len() >= 2;
        if better_after_full || twin_of_best || phase_switch || batch_with_late_best {
            stats.nontrivial(hash_of(&format!("{c:?}")));
        }
        let n = Prop::name(self);
        if better_after_full {
            stats.class(&format!("{n}.better_after_bound_reached"));
        }
        if twin_of_best {
            stats.class(&format!("{n}.twin_of_best"));
        }
        if batch_with_late_best {
            stats.class(&format!("{n}.batch_with_later_better_member"));
        }
        if phase_switch {
            stats.class(&format!("{n}.phase_switch"));
        }
        if phases.len() >= 3 {
            stats.class(&format!("{n}.all_three_phases"));
        }
        stats.sample(1, || json!({"kind": n, "config": format!("{:?}", c.kind), "dims": c.dims, "ops": c.ops.len(), "first_ops": format!("{:?}", &c.ops[..c.ops.len().min(4)])}));
        Ok(())
    }
}

pub fn property(_tier: Tier) -> PropertyDef {
    PropertyDef {
        id: "C08",
        level: "exploration",
        rule: "proptest stateful histories (<=80 ops; rosomaxa <=60) over {add, add_all(batch 0-5), on_generation(stats with termination estimate / speed), select, ranked} for Greedy, Elitism(max 1-8) and Rosomaxa(generated node/elite/initial sizes, spread, distribution, rebalance memory, exploration ratio) with harness individuals {id, fitness vector of 1-3 components, weights} under a lexicographic objective; fitness classes: small integers (many ties), near-equal values below the dedup thresholds, mixed. After every op: ranked[0] not worse than the best ever offered (reference model), ranked sorted, size within bound, every ranked/selected/all id was offered, select non-empty when size>0, add flag true when the best strictly improved, phases only forward. Plus: solving a generated problem seeded with a feasible initial solution never returns a worse one. Non-trivial: history with a better-than-best offer after the bound was reached, or an equal-fitness twin of the best, or a batch whose best member comes after an earlier improving member, or a phase switch. Distinct by case hash.",
        assumptions: vec!["rosomaxa initial_size >= 4 (the network constructor needs four initial samples)", "objective is a total preorder on the generated finite fitness values (C09)"],
        props: vec![Box::new(PopProp { which: 0 }), Box::new(PopProp { which: 1 }), Box::new(PopProp { which: 2 }), Box::new(super::seeded::SeededProp)],
        extra: None,
        required_classes: vec![
            "population_greedy.batch_with_later_better_member",
            "population_elitism.better_after_bound_reached",
            "population_elitism.twin_of_best",
            "population_elitism.batch_with_later_better_member",
            "population_rosomaxa.better_after_bound_reached",
            "population_rosomaxa.phase_switch",
            "population_rosomaxa.all_three_phases",
        ],
    }
}
