//! Reference model R: an independent interpreter of the documented pragmatic semantics.
//! It never calls feature/constraint/checker code of the repository; it only uses the plain
//! (serde) data model types of the problem, matrix and solution documents.
#![allow(dead_code)]

use super::common::parse_time;
use std::collections::{BTreeMap, BTreeSet, HashMap};
use vrp_pragmatic::format::Location as ApiLocation;
use vrp_pragmatic::format::problem as api;
use vrp_pragmatic::format::solution as sol;

#[derive(Clone, Debug, PartialEq, Eq, PartialOrd, Ord)]
pub enum Prop {
    /// hard constraints (C01)
    Feasibility,
    /// conservation (C02)
    Conservation,
    /// reported numbers (C03)
    Reporting,
}

#[derive(Clone, Debug)]
pub struct Finding {
    pub prop: Prop,
    pub rule: String,
    pub detail: String,
}

#[derive(Clone, Debug, Default)]
pub struct Verdict {
    pub findings: Vec<Finding>,
    /// rules that could not be decided (restricted semantics) - counted, never reported
    pub unspecified: BTreeMap<String, u64>,
    /// facts for non-triviality classification
    pub facts: BTreeSet<String>,
    pub full_semantics: bool,
    pub tours: usize,
    pub legs: usize,
}

impl Verdict {
    fn add(&mut self, prop: Prop, rule: &str, detail: String) {
        self.findings.push(Finding { prop, rule: rule.to_string(), detail });
    }
    fn unspec(&mut self, rule: &str) {
        *self.unspecified.entry(rule.to_string()).or_insert(0) += 1;
    }
    fn fact(&mut self, f: &str) {
        self.facts.insert(f.to_string());
    }
    pub fn of(&self, prop: Prop) -> Vec<&Finding> {
        self.findings.iter().filter(|f| f.prop == prop).collect()
    }
}

pub fn loc_index(l: &ApiLocation) -> Option<usize> {
    match l {
        ApiLocation::Reference { index } => Some(*index),
        _ => None,
    }
}

pub struct Routing<'a> {
    /// profile name -> matrix
    by_profile: HashMap<String, &'a api::Matrix>,
    pub n: usize,
}

impl<'a> Routing<'a> {
    pub fn new(problem: &api::Problem, matrices: &'a [api::Matrix]) -> Self {
        let mut by_profile = HashMap::new();
        // named matrices by name; unnamed by position in fleet.profiles
        for (i, m) in matrices.iter().enumerate() {
            let name = m.profile.clone().or_else(|| problem.fleet.profiles.get(i).map(|p| p.name.clone())).unwrap_or_default();
            by_profile.insert(name, m);
        }
        let n = matrices.first().map(|m| (m.distances.len() as f64).sqrt().round() as usize).unwrap_or(0);
        Self { by_profile, n }
    }
    /// (distance, duration, reachable)
    pub fn leg(&self, profile: &str, from: usize, to: usize) -> Option<(f64, f64, bool)> {
        let m = self.by_profile.get(profile)?;
        let k = from * self.n + to;
        let unreachable = m.error_codes.as_ref().is_some_and(|c| c.get(k).copied().unwrap_or(0) > 0);
        Some((*m.distances.get(k)? as f64, *m.travel_times.get(k)? as f64, !unreachable))
    }
}

#[derive(Clone, Debug)]
pub struct FlatAct {
    pub stop: usize,
    pub job_id: String,
    pub kind: String,
    pub loc: Option<usize>,
    pub tag: Option<String>,
    /// reported service start / end (activity time or the stop's schedule)
    pub start: i64,
    pub end: i64,
    pub explicit_time: bool,
}

/// Like `flatten`, but transit stops (required breaks taken on the road) are kept: their activities have no location.
/// Used by the bookkeeping rules only (restricted semantics); the second value says whether a transit stop was seen.
pub fn flatten_any(tour: &sol::Tour) -> Option<(Vec<FlatAct>, bool)> {
    let mut out = vec![];
    let mut transit = false;
    for (si, stop) in tour.stops.iter().enumerate() {
        let (location, time, activities) = match stop {
            sol::Stop::Point(p) => (Some(&p.location), &p.time, &p.activities),
            sol::Stop::Transit(t) => {
                transit = true;
                (None, &t.time, &t.activities)
            }
        };
        for a in activities.iter() {
            let (start, end, explicit_time) = match a.time.as_ref() {
                Some(t) => (parse_time(&t.start)?, parse_time(&t.end)?, true),
                None => (parse_time(&time.arrival)?, parse_time(&time.departure)?, false),
            };
            out.push(FlatAct { stop: si, job_id: a.job_id.clone(), kind: a.activity_type.clone(), loc: a.location.as_ref().or(location).and_then(loc_index), tag: a.job_tag.clone(), start, end, explicit_time });
        }
    }
    Some((out, transit))
}

pub fn flatten(tour: &sol::Tour) -> Option<Vec<FlatAct>> {
    let mut out = vec![];
    for (si, stop) in tour.stops.iter().enumerate() {
        let point = stop.as_point()?;
        for a in point.activities.iter() {
            let (start, end, explicit_time) = match a.time.as_ref() {
                Some(t) => (parse_time(&t.start)?, parse_time(&t.end)?, true),
                None => (parse_time(&point.time.arrival)?, parse_time(&point.time.departure)?, false),
            };
            out.push(FlatAct {
                stop: si,
                job_id: a.job_id.clone(),
                kind: a.activity_type.clone(),
                loc: a.location.as_ref().or(Some(&point.location)).and_then(loc_index),
                tag: a.job_tag.clone(),
                start,
                end,
                explicit_time,
            });
        }
    }
    Some(out)
}

struct TaskRef<'a> {
    kind: &'static str,
    task: &'a api::JobTask,
    /// true when demand is static (job has only pickups or only deliveries), replacement is static both ways
    is_static: bool,
}

fn tasks_of(job: &api::Job) -> Vec<TaskRef<'_>> {
    let np = job.pickups.as_ref().map_or(0, |p| p.len());
    let nd = job.deliveries.as_ref().map_or(0, |p| p.len());
    let is_static = np == 0 || nd == 0;
    let mut out = vec![];
    for t in job.pickups.iter().flatten() {
        out.push(TaskRef { kind: "pickup", task: t, is_static });
    }
    for t in job.deliveries.iter().flatten() {
        out.push(TaskRef { kind: "delivery", task: t, is_static });
    }
    for t in job.replacements.iter().flatten() {
        out.push(TaskRef { kind: "replacement", task: t, is_static: true });
    }
    for t in job.services.iter().flatten() {
        out.push(TaskRef { kind: "service", task: t, is_static: true });
    }
    out
}

fn windows_abs(times: &Option<Vec<Vec<String>>>) -> Vec<(i64, i64)> {
    times.iter().flatten().filter_map(|w| Some((parse_time(w.first()?)?, parse_time(w.last()?)?))).collect()
}

pub fn has_restricted_features(problem: &api::Problem, matrices: &[api::Matrix]) -> bool {
    problem.plan.clustering.is_some()
        || matrices.iter().any(|m| m.timestamp.is_some())
        || problem.fleet.vehicles.iter().any(|v| v.shifts.iter().any(|s| s.recharges.is_some() || s.breaks.iter().flatten().any(|b| matches!(b, api::VehicleBreak::Required { .. }))))
}

fn vadd(a: &mut [i64], b: &[i32], sign: i64) {
    for (i, x) in b.iter().enumerate() {
        if i < a.len() {
            a[i] += sign * *x as i64;
        }
    }
}

/// Evaluates a solution document against the problem. `tol` is the time/distance tolerance in
/// output units (1 for integer data, larger when profile scales make times fractional).
pub fn evaluate(problem: &api::Problem, matrices: &[api::Matrix], solution: &sol::Solution, tol: i64) -> Verdict {
    let mut v = Verdict { full_semantics: !has_restricted_features(problem, matrices), ..Default::default() };
    let routing = Routing::new(problem, matrices);
    let jobs: HashMap<&str, &api::Job> = problem.plan.jobs.iter().map(|j| (j.id.as_str(), j)).collect();
    let dims = problem.fleet.vehicles.iter().map(|x| x.capacity.len()).max().unwrap_or(1);
    let has_order = problem.plan.jobs.iter().any(|j| tasks_of(j).iter().any(|t| t.task.order.is_some()));
    let order_is_hard = has_order && !problem.objectives.iter().flatten().any(|o| contains_tour_order(o));

    // ---------------- conservation bookkeeping over ids (C02)
    let mut assigned_tour: HashMap<String, usize> = HashMap::new();
    let mut used_shift: BTreeSet<(String, usize)> = BTreeSet::new();
    let mut resource_used: HashMap<String, Vec<i64>> = HashMap::new();
    let mut groups: HashMap<String, usize> = HashMap::new();

    let mut total = StatAcc::default();

    for (ti, tour) in solution.tours.iter().enumerate() {
        v.tours += 1;
        let ctx = format!("tour {ti} ({} shift {})", tour.vehicle_id, tour.shift_index);
        let Some(vt) = problem.fleet.vehicles.iter().find(|t| t.type_id == tour.type_id) else {
            v.add(Prop::Conservation, "unknown-vehicle-type", format!("{ctx}: typeId {} not in fleet", tour.type_id));
            continue;
        };
        if !vt.vehicle_ids.contains(&tour.vehicle_id) {
            v.add(Prop::Conservation, "unknown-vehicle", format!("{ctx}: vehicleId not defined for type {}", tour.type_id));
            continue;
        }
        let Some(shift) = vt.shifts.get(tour.shift_index) else {
            v.add(Prop::Conservation, "unknown-shift", format!("{ctx}: shift index out of range"));
            continue;
        };
        if !used_shift.insert((tour.vehicle_id.clone(), tour.shift_index)) {
            v.add(Prop::Conservation, "vehicle-shift-used-twice", format!("{ctx}: vehicle shift drives two tours"));
        }
        let Some((acts, has_transit)) = flatten_any(tour) else {
            v.unspec("unparsable-time");
            v.full_semantics = false;
            continue;
        };
        if has_transit {
            v.unspec("transit-stop");
            v.fact("transit_stop");
            v.full_semantics = false;
        }
        if acts.len() < 2 || acts[0].kind != "departure" {
            v.add(Prop::Conservation, "no-departure", format!("{ctx}: first activity is not a departure"));
            continue;
        }
        let has_end = shift.end.is_some();
        // a required break that falls onto the arrival time is reported after the arrival activity in the last stop; the
        // documentation does not say where it goes, so trailing untagged breaks of a shift with required breaks are skipped
        let has_required = shift.breaks.iter().flatten().any(|b| matches!(b, api::VehicleBreak::Required { .. }));
        let last_idx = acts.iter().rposition(|a| !(has_required && a.kind == "break" && a.tag.is_none())).unwrap_or(acts.len() - 1);
        let mut last_is_arrival = acts.get(last_idx).is_some_and(|a| a.kind == "arrival");
        // With required breaks the writer re-times and re-sorts the activities of a stop (observed: the arrival activity in
        // front of a job of the same last stop, job8 10:25-10:30, arrival 10:28, job6 10:29). Where the arrival activity sits
        // inside the last stop is a matter of reported times, which R does not model for required breaks: not judged here.
        let mut arrival_position_unspecified = false;
        if has_required && !last_is_arrival {
            let last_stop = acts.last().map(|a| a.stop);
            if acts.iter().any(|a| a.kind == "arrival" && Some(a.stop) == last_stop) {
                last_is_arrival = true;
                arrival_position_unspecified = true;
                v.unspec("required-break-arrival-position-in-last-stop");
            }
        }
        if has_end != last_is_arrival {
            v.add(Prop::Conservation, "arrival-mismatch", format!("{ctx}: shift end defined = {has_end}, tour ends with arrival = {last_is_arrival}"));
        }
        let scale = vt.profile.scale.unwrap_or(1.);
        let earliest = parse_time(&shift.start.earliest).unwrap_or(0);
        let latest = shift.start.latest.as_ref().and_then(|s| parse_time(s));
        let start_loc = loc_index(&shift.start.location);
        let end_loc = shift.end.as_ref().and_then(|e| loc_index(&e.location));
        let end_latest = shift.end.as_ref().and_then(|e| parse_time(&e.latest));

        // marker inventory of this vehicle shift
        let mut breaks_left: Vec<(usize, &api::VehicleBreak)> = shift.breaks.iter().flatten().enumerate().collect();
        let mut reloads_left: Vec<(usize, &api::VehicleReload)> = shift.reloads.iter().flatten().enumerate().collect();

        // ---- identify job places and static demand per reload interval
        // interval index per activity position
        let mut interval_of = vec![0usize; acts.len()];
        let mut cur = 0;
        for (i, a) in acts.iter().enumerate() {
            if a.kind == "reload" {
                cur += 1;
            }
            interval_of[i] = cur;
        }
        let intervals = cur + 1;
        let mut static_delivery = vec![vec![0i64; dims]; intervals];
        // per activity: (delivery part, pickup part, is_static)
        struct Resolved<'a> {
            duration: f64,
            windows: Vec<(i64, i64)>,
            demand: Option<&'a Vec<i32>>,
            kind: &'static str,
            is_static: bool,
            order: Option<i32>,
            offset_window: Option<(f64, f64)>,
            no_location: bool,
            /// other places of the same task: (location, duration, windows, tag)
            alternatives: Vec<(Option<usize>, f64, Vec<(i64, i64)>, Option<String>)>,
        }
        let mut resolved: Vec<Option<Resolved>> = vec![];
        let mut job_tasks_seen: HashMap<String, Vec<usize>> = HashMap::new();
        let mut customer_jobs_in_tour: BTreeSet<String> = BTreeSet::new();
        let mut tour_ok = true;
        for (i, a) in acts.iter().enumerate() {
            match a.kind.as_str() {
                "departure" | "arrival" => {
                    if (a.kind == "departure") != (i == 0) || (a.kind == "arrival" && i != last_idx && !arrival_position_unspecified) {
                        v.add(Prop::Conservation, "depot-activity-misplaced", format!("{ctx}: {} at position {i}", a.kind));
                    }
                    resolved.push(None);
                }
                "break" => {
                    // match injectively by tag (tags are unique in generated problems), fall back to first
                    let pos = breaks_left.iter().position(|(_, b)| match b {
                        api::VehicleBreak::Optional { places, .. } => places.iter().any(|p| p.tag == a.tag),
                        _ => false,
                    });
                    match pos {
                        Some(p) => {
                            let (_, b) = breaks_left.remove(p);
                            if let api::VehicleBreak::Optional { time, places, .. } = b {
                                let place = places.iter().find(|p| p.tag == a.tag).unwrap();
                                let (windows, offset_window) = match time {
                                    api::VehicleOptionalBreakTime::TimeWindow(w) => (windows_abs(&Some(vec![w.clone()])), None),
                                    api::VehicleOptionalBreakTime::TimeOffset(o) => (vec![], Some((o[0], o[1]))),
                                };
                                if let Some(l) = place.location.as_ref().and_then(loc_index) {
                                    if Some(l) != a.loc {
                                        v.add(Prop::Conservation, "break-location", format!("{ctx}: break reported at {:?}, defined at {l}", a.loc));
                                    }
                                }
                                resolved.push(Some(Resolved { duration: place.duration, windows, demand: None, kind: "break", is_static: true, order: None, offset_window, no_location: place.location.is_none(), alternatives: vec![] }));
                                v.fact("break_assigned");
                            }
                        }
                        None => {
                            // a required break carries no tag and no place of its own
                            let req = if a.tag.is_none() { breaks_left.iter().position(|(_, b)| matches!(b, api::VehicleBreak::Required { .. })) } else { None };
                            match req {
                                Some(p) => {
                                    breaks_left.remove(p);
                                    v.fact("required_break_assigned");
                                }
                                // more untagged break activities than required breaks defined: its own rule name, so that the
                                // recorded finding about the writer (one reserved time reported in two stops) stays specific
                                None if a.tag.is_none() && has_required => v.add(Prop::Conservation, "required-break-reported-twice", format!("{ctx}: more break activities than the required breaks defined for this vehicle shift (activity at stop {}, {}..{})", a.stop, a.start, a.end)),
                                None => v.add(Prop::Conservation, "break-not-defined", format!("{ctx}: break activity (tag {:?}) does not correspond to a distinct break of this vehicle shift", a.tag)),
                            }
                            resolved.push(None);
                            tour_ok = false;
                        }
                    }
                }
                "reload" => {
                    let pos = reloads_left.iter().position(|(_, r)| r.tag == a.tag && loc_index(&r.location) == a.loc);
                    match pos {
                        Some(p) => {
                            let (_, r) = reloads_left.remove(p);
                            resolved.push(Some(Resolved { duration: r.duration, windows: windows_abs(&r.times), demand: None, kind: "reload", is_static: true, order: None, offset_window: None, no_location: false, alternatives: vec![] }));
                            v.fact("reload_assigned");
                            if let Some(res) = r.resource_id.as_ref() {
                                // deliveries loaded at this reload = static deliveries of the next interval (filled below)
                                resource_used.entry(res.clone()).or_insert_with(|| vec![0; dims]);
                            }
                        }
                        None => {
                            v.add(Prop::Conservation, "reload-not-defined", format!("{ctx}: reload activity (tag {:?}, loc {:?}) does not correspond to a distinct reload of this vehicle shift", a.tag, a.loc));
                            resolved.push(None);
                            tour_ok = false;
                        }
                    }
                }
                "recharge" => {
                    v.unspec("recharge");
                    v.full_semantics = false;
                    resolved.push(None);
                    tour_ok = false;
                }
                kind => {
                    let Some(job) = jobs.get(a.job_id.as_str()) else {
                        v.add(Prop::Conservation, "unknown-job", format!("{ctx}: activity for job id '{}' which is not in the plan", a.job_id));
                        resolved.push(None);
                        tour_ok = false;
                        continue;
                    };
                    customer_jobs_in_tour.insert(a.job_id.clone());
                    let tasks = tasks_of(job);
                    // find the task: same kind, a place with this tag (tags unique) or location
                    let seen = job_tasks_seen.entry(a.job_id.clone()).or_default();
                    let cand = tasks.iter().enumerate().find(|(k, t)| {
                        t.kind == kind && !seen.contains(k) && t.task.places.iter().any(|p| (a.tag.is_some() && p.tag == a.tag) || (a.tag.is_none() && p.tag.is_none() && loc_index(&p.location) == a.loc))
                    });
                    match cand {
                        Some((k, t)) => {
                            seen.push(k);
                            // an activity without tag belongs to an untagged place (at that location) when the task has one
                            let place = t
                                .task
                                .places
                                .iter()
                                .find(|p| p.tag == a.tag && (a.tag.is_some() || loc_index(&p.location) == a.loc))
                                .or_else(|| t.task.places.iter().find(|p| (a.tag.is_some() && p.tag == a.tag) || (a.tag.is_none() && loc_index(&p.location) == a.loc)))
                                .unwrap();
                            if t.task.places.len() > 1 {
                                v.fact("multi_place_assigned");
                            }
                            if let (true, Some(d)) = (t.is_static && (t.kind == "delivery" || t.kind == "replacement"), t.task.demand.as_ref()) {
                                vadd(&mut static_delivery[interval_of[i]], d, 1);
                            }
                            resolved.push(Some(Resolved {
                                duration: place.duration,
                                windows: windows_abs(&place.times),
                                demand: t.task.demand.as_ref(),
                                kind: t.kind,
                                is_static: t.is_static,
                                order: t.task.order,
                                offset_window: None,
                                no_location: false,
                                alternatives: t.task.places.iter().map(|p| (loc_index(&p.location), p.duration, windows_abs(&p.times), p.tag.clone())).collect(),
                            }));
                        }
                        None => {
                            v.add(Prop::Conservation, "activity-matches-no-task", format!("{ctx}: activity {kind} of job {} (tag {:?}) matches no remaining task of that job (duplicate or foreign activity)", a.job_id, a.tag));
                            resolved.push(None);
                            tour_ok = false;
                        }
                    }
                }
            }
        }
        // job wholeness within this tour + one tour per job
        for id in customer_jobs_in_tour.iter() {
            let job = jobs[id.as_str()];
            let tasks = tasks_of(job);
            let seen = job_tasks_seen.get(id).map(|s| s.len()).unwrap_or(0);
            if seen != tasks.len() {
                v.add(Prop::Conservation, "job-incomplete", format!("{ctx}: job {id} has {seen} of {} tasks in this tour", tasks.len()));
            }
            if tasks.len() > 1 {
                v.fact("multi_task_assigned");
                // pickups before deliveries
                let last_pickup = acts.iter().enumerate().filter(|(_, a)| &a.job_id == id && a.kind == "pickup").map(|(i, _)| i).max();
                let first_other = acts.iter().enumerate().filter(|(_, a)| &a.job_id == id && a.kind != "pickup").map(|(i, _)| i).min();
                if let (Some(p), Some(d)) = (last_pickup, first_other) {
                    if p > d {
                        v.add(Prop::Conservation, "pickup-after-delivery", format!("{ctx}: job {id} has a pickup at position {p} after another task at {d}"));
                    }
                }
            }
            if let Some(prev) = assigned_tour.insert(id.clone(), ti) {
                if prev != ti {
                    v.add(Prop::Conservation, "job-in-two-tours", format!("job {id} appears in tours {prev} and {ti}"));
                }
            }
        }
        if customer_jobs_in_tour.is_empty() {
            v.add(Prop::Conservation, "tour-without-jobs", format!("{ctx}: tour serves no customer job"));
        }

        // ---- skills / group / compatibility / order / tour size
        let vskills: BTreeSet<&str> = vt.skills.iter().flatten().map(|s| s.as_str()).collect();
        let mut compat: Option<&str> = None;
        for id in customer_jobs_in_tour.iter() {
            let job = jobs[id.as_str()];
            if let Some(s) = job.skills.as_ref() {
                v.fact("skills_assigned");
                if let Some(all) = s.all_of.as_ref() {
                    if !all.iter().all(|x| vskills.contains(x.as_str())) {
                        v.add(Prop::Feasibility, "skills-all-of", format!("{ctx}: job {id} requires allOf {all:?}, vehicle has {vskills:?}"));
                    }
                }
                if let Some(one) = s.one_of.as_ref() {
                    if !one.is_empty() && !one.iter().any(|x| vskills.contains(x.as_str())) {
                        v.add(Prop::Feasibility, "skills-one-of", format!("{ctx}: job {id} requires oneOf {one:?}, vehicle has {vskills:?}"));
                    }
                }
                if let Some(none) = s.none_of.as_ref() {
                    if none.iter().any(|x| vskills.contains(x.as_str())) {
                        v.add(Prop::Feasibility, "skills-none-of", format!("{ctx}: job {id} forbids {none:?}, vehicle has {vskills:?}"));
                    }
                }
            }
            if let Some(g) = job.group.as_ref() {
                v.fact("group_assigned");
                if let Some(prev) = groups.insert(g.clone(), ti) {
                    if prev != ti {
                        v.add(Prop::Feasibility, "group-split", format!("group {g} is served by tours {prev} and {ti}"));
                    }
                }
            }
            if let Some(c) = job.compatibility.as_deref() {
                v.fact("compatibility_assigned");
                match compat {
                    None => compat = Some(c),
                    Some(prev) if prev != c => v.add(Prop::Feasibility, "compatibility-mixed", format!("{ctx}: compatibility classes {prev} and {c} in one tour")),
                    _ => {}
                }
            }
        }
        if let Some(limit) = vt.limits.as_ref().and_then(|l| l.tour_size) {
            let count = acts.iter().filter(|a| a.kind != "departure" && a.kind != "arrival").count();
            if count > limit {
                v.add(Prop::Feasibility, "tour-size", format!("{ctx}: {count} activities exceed tourSize {limit}"));
            }
            if count == limit {
                v.fact("binding_tour_size");
            }
        }
        if has_order {
            let seq: Vec<f64> = resolved.iter().flatten().filter(|r| r.kind != "break" && r.kind != "reload").map(|r| r.order.map(|o| o as f64).unwrap_or(f64::INFINITY)).collect();
            let sorted = seq.windows(2).all(|w| w[0] <= w[1]);
            if seq.iter().any(|o| o.is_finite()) {
                v.fact("order_assigned");
            }
            if !sorted {
                if order_is_hard {
                    v.add(Prop::Feasibility, "tour-order", format!("{ctx}: task orders along the tour are {seq:?}"));
                } else {
                    v.unspec("soft-order-violated");
                }
            }
        }

        if !tour_ok || !v.full_semantics {
            // cannot replay a tour with unresolved activities
            continue;
        }

        // ---- replay of schedule, distance, load (C01 + C03)
        let Some(profile) = Some(vt.profile.matrix.as_str()) else { continue };
        // the departure activity carries its own interval when the first stop has more activities
        let departure = acts[0].end;
        if departure < earliest {
            v.add(Prop::Feasibility, "departure-before-earliest", format!("{ctx}: departs at {departure}, earliest {earliest}"));
        }
        if let Some(l) = latest {
            if departure > l {
                v.add(Prop::Feasibility, "departure-after-latest", format!("{ctx}: departs at {departure}, latest allowed {l}"));
            }
            if departure == l && l > earliest {
                v.fact("binding_start_latest");
            }
        }
        if acts[0].loc != start_loc {
            v.add(Prop::Reporting, "start-location", format!("{ctx}: departure at {:?}, shift start is {:?}", acts[0].loc, start_loc));
        }
        let cap: Vec<i64> = (0..dims).map(|d| vt.capacity.get(d).copied().unwrap_or(0) as i64).collect();
        let mut load = static_delivery[0].clone();
        let mut time = departure as f64;
        let mut here = start_loc.unwrap_or(0);
        let mut dist = 0f64;
        let mut st = StatAcc::default();
        let mut stop_dist: HashMap<usize, f64> = HashMap::new();
        let mut stop_arrival: HashMap<usize, f64> = HashMap::new();
        let mut stop_departure: HashMap<usize, f64> = HashMap::new();
        let mut stop_load: HashMap<usize, Vec<i64>> = HashMap::new();
        stop_dist.insert(0, 0.);
        // the first stop's arrival is the start of the departure activity (the vehicle is already there)
        stop_arrival.insert(0, acts[0].start as f64);
        stop_departure.insert(0, time);
        stop_load.insert(0, load.clone());
        let check_cap = |v: &mut Verdict, load: &Vec<i64>, at: usize| {
            for d in 0..dims {
                if load[d] > cap[d] {
                    v.add(Prop::Feasibility, "capacity", format!("{ctx}: load {load:?} exceeds capacity {cap:?} after activity {at}"));
                    return;
                }
                if load[d] < 0 {
                    v.add(Prop::Feasibility, "capacity-negative", format!("{ctx}: negative load {load:?} after activity {at}"));
                    return;
                }
            }
            if (0..dims).any(|d| cap[d] > 0 && load[d] * 5 >= cap[d] * 4) {
                v.fact("binding_capacity");
            }
        };
        check_cap(&mut v, &load, 0);
        let mut replay_ok = true;
        for i in 1..acts.len() {
            let a = &acts[i];
            v.legs += 1;
            let r = resolved[i].as_ref();
            let target = if a.kind == "arrival" { end_loc } else if r.is_some_and(|r| r.no_location) { Some(here) } else { a.loc };
            let Some(target) = target else {
                v.unspec("activity-without-index-location");
                break;
            };
            if a.kind == "arrival" && a.loc != end_loc {
                v.add(Prop::Reporting, "end-location", format!("{ctx}: arrival at {:?}, shift end is {:?}", a.loc, end_loc));
            }
            let Some((d, t, reachable)) = routing.leg(profile, here, target) else {
                v.unspec("no-routing-data");
                break;
            };
            if !reachable {
                v.add(Prop::Feasibility, "reachability", format!("{ctx}: leg {here}->{target} is flagged unreachable"));
                // distance and time of an unreachable leg are undefined: the rest of this tour cannot be replayed
                v.unspec("tour-with-unreachable-leg");
                replay_ok = false;
                break;
            }
            let travel = t * scale;
            dist += d;
            let arrival = time + travel;
            st.driving += travel;
            let (mut duration, mut windows, offset) = match r {
                Some(r) => (r.duration, r.windows.clone(), r.offset_window),
                None => (0., vec![], None),
            };
            // Which place of the task was actually used? The one consistent with the reported
            // location, service interval and windows. The tagged place is preferred; if it is not
            // consistent but another place of the task is, the tag is misreported (C03).
            if let Some(r) = r {
                if r.alternatives.len() > 1 {
                    let consistent = |p: &(Option<usize>, f64, Vec<(i64, i64)>, Option<String>)| -> bool {
                        p.0 == a.loc
                            && ((a.end - a.start) as f64 - p.1).abs() <= tol as f64
                            && (p.2.is_empty() || p.2.iter().any(|(s, e)| arrival <= *e as f64 + 1e-6 && (arrival.max(*s as f64) - a.start as f64).abs() <= tol as f64))
                            && (!p.2.is_empty() || (arrival - a.start as f64).abs() <= tol as f64)
                    };
                    let tagged = r.alternatives.iter().find(|p| p.3 == a.tag);
                    if !tagged.is_some_and(consistent) {
                        if let Some(other) = r.alternatives.iter().find(|p| consistent(p)) {
                            v.add(Prop::Reporting, "tag-of-another-place", format!("{ctx}: {} {} is reported with tag {:?}, but location/interval ({:?}, {}..{}) match the place tagged {:?} (duration {}, windows {:?})", a.kind, a.job_id, a.tag, a.loc, a.start, a.end, other.3, other.1, other.2));
                            duration = other.1;
                            windows = other.2.clone();
                        }
                    }
                }
            }
            let mut windows: Vec<(f64, f64)> = windows.iter().map(|(s, e)| (*s as f64, *e as f64)).collect();
            if let Some((s, e)) = offset {
                windows = vec![(departure as f64 + s, departure as f64 + e)];
            }
            if a.kind == "arrival" {
                if let Some(l) = end_latest {
                    if arrival > l as f64 + 1e-6 {
                        v.add(Prop::Feasibility, "shift-end", format!("{ctx}: arrives at {arrival}, shift end latest {l}"));
                    }
                    if (l as f64 - arrival) * 20. <= (l - earliest) as f64 {
                        v.fact("binding_shift_end");
                    }
                }
            }
            // choose the window the report says was used
            let start = if windows.is_empty() {
                arrival
            } else {
                let rep = a.start as f64;
                // exact containment first, then within the output tolerance
                let cand = windows
                    .iter()
                    .copied()
                    .find(|(s, e)| rep >= *s && rep <= *e && arrival <= *e + 1e-6)
                    .or_else(|| windows.iter().copied().find(|(s, e)| rep >= *s - tol as f64 && rep <= *e + tol as f64));
                match cand {
                    Some((s, e)) => {
                        if arrival > e + 1e-6 {
                            v.add(Prop::Feasibility, "time-window", format!("{ctx}: {} {} arrives at {arrival} after its window end {e}", a.kind, a.job_id));
                        }
                        if (e - arrival) * 20. <= (e - s) && arrival <= e {
                            v.fact("binding_time_window");
                        }
                        if windows.len() > 1 {
                            v.fact("multi_window_assigned");
                        }
                        arrival.max(s)
                    }
                    None => {
                        // reported start is in no window of that place
                        if windows.iter().all(|(_, e)| arrival > *e + 1e-6) {
                            v.add(Prop::Feasibility, "time-window", format!("{ctx}: {} {} arrives at {arrival}, all windows {windows:?} are over", a.kind, a.job_id));
                        } else {
                            v.add(Prop::Feasibility, "time-window-start", format!("{ctx}: {} {} reported start {rep} lies in none of its windows {windows:?}", a.kind, a.job_id));
                        }
                        arrival
                    }
                }
            };
            let waiting = start - arrival;
            if waiting > 0. {
                v.fact("waiting");
            }
            st.waiting += waiting;
            if a.kind == "break" {
                st.break_time += duration;
            } else {
                st.serving += duration;
            }
            let end = start + duration;
            // reported activity interval (service start .. departure)
            if (a.explicit_time || a.kind != "arrival") && a.kind != "arrival" {
                if a.explicit_time && (a.start as f64 - start).abs() > tol as f64 {
                    v.add(Prop::Reporting, "activity-start", format!("{ctx}: activity {i} ({} {}) reported start {} but replay gives {start}", a.kind, a.job_id, a.start));
                }
                if (a.end as f64 - end).abs() > tol as f64 {
                    v.add(Prop::Reporting, "activity-end", format!("{ctx}: activity {i} ({} {}) reported end {} but replay gives {end}", a.kind, a.job_id, a.end));
                }
            }
            // load
            if a.kind == "reload" {
                // unload static pickups (everything static), keep dynamic load: recompute from scratch
                let mut dynamic = vec![0i64; dims];
                for k in 1..i {
                    if let Some(rk) = resolved[k].as_ref() {
                        if !rk.is_static {
                            if let Some(dm) = rk.demand {
                                vadd(&mut dynamic, dm, if rk.kind == "pickup" { 1 } else { -1 });
                            }
                        }
                    }
                }
                load = dynamic;
                let loaded = &static_delivery[interval_of[i]];
                for d in 0..dims {
                    load[d] += loaded[d];
                }
                // shared resource accounting
                if let Some(res) = shift.reloads.iter().flatten().find(|r| r.tag == a.tag && loc_index(&r.location) == a.loc).and_then(|r| r.resource_id.clone()) {
                    let e = resource_used.entry(res).or_insert_with(|| vec![0; dims]);
                    for d in 0..dims {
                        e[d] += loaded[d];
                    }
                    v.fact("shared_resource_used");
                }
            } else if let Some(r) = r {
                if let Some(dm) = r.demand {
                    match r.kind {
                        "pickup" => vadd(&mut load, dm, 1),
                        "delivery" => vadd(&mut load, dm, -1),
                        _ => {} // replacement: delivered and picked up at once
                    }
                }
            }
            if a.kind != "arrival" {
                check_cap(&mut v, &load, i);
            }
            stop_dist.entry(a.stop).or_insert(dist);
            stop_arrival.entry(a.stop).or_insert(arrival);
            stop_departure.insert(a.stop, end);
            stop_load.insert(a.stop, load.clone());
            time = end;
            here = target;
        }
        if !replay_ok {
            continue;
        }
        // ---- compare with reported stops
        for (si, stop) in tour.stops.iter().enumerate() {
            let p = stop.as_point().unwrap();
            // the writer reports zero load for the arrival activity; a stop that ends with it shows that value
            let is_arrival_stop = p.activities.last().is_some_and(|a| a.activity_type == "arrival");
            if let (Some(arr), Some(rep)) = (stop_arrival.get(&si), parse_time(&p.time.arrival)) {
                if (rep as f64 - arr).abs() > tol as f64 {
                    v.add(Prop::Reporting, "stop-arrival", format!("{ctx}: stop {si} reported arrival {rep}, replay {arr}"));
                }
            }
            if let (Some(dep), Some(rep)) = (stop_departure.get(&si), parse_time(&p.time.departure)) {
                if (rep as f64 - dep).abs() > tol as f64 {
                    v.add(Prop::Reporting, "stop-departure", format!("{ctx}: stop {si} reported departure {rep}, replay {dep}"));
                }
            }
            if let Some(d) = stop_dist.get(&si) {
                if (p.distance as f64 - d).abs() > tol as f64 {
                    v.add(Prop::Reporting, "stop-distance", format!("{ctx}: stop {si} reported cumulative distance {}, replay {d}", p.distance));
                }
            }
            if let Some(l) = stop_load.get(&si) {
                if !is_arrival_stop {
                    let rep: Vec<i64> = (0..dims).map(|d| p.load.get(d).copied().unwrap_or(0) as i64).collect();
                    if &rep != l {
                        v.add(Prop::Reporting, "stop-load", format!("{ctx}: stop {si} reported load {:?}, replay {l:?}", p.load));
                    }
                } else {
                    v.unspec("arrival-stop-load");
                }
            }
            if p.activities.len() >= 2 {
                v.fact("multi_activity_stop");
            }
        }
        let duration = time - departure as f64;
        // limits
        if let Some(l) = vt.limits.as_ref() {
            if let Some(md) = l.max_distance {
                if dist > md + 1e-6 {
                    v.add(Prop::Feasibility, "max-distance", format!("{ctx}: distance {dist} exceeds maxDistance {md}"));
                }
                if dist * 10. >= md * 9. {
                    v.fact("binding_max_distance");
                }
            }
            if let Some(md) = l.max_duration {
                if duration > md + 1e-6 {
                    v.add(Prop::Feasibility, "max-duration", format!("{ctx}: duration {duration} exceeds maxDuration {md}"));
                }
                if duration * 10. >= md * 9. {
                    v.fact("binding_max_duration");
                }
            }
        }
        // statistic of the tour
        st.distance = dist;
        st.duration = duration;
        st.cost = vt.costs.fixed.unwrap_or(0.) + dist * vt.costs.distance + duration * vt.costs.time;
        let legs = (acts.len() - 1) as f64;
        let rs = &tour.statistic;
        let cmp = |v: &mut Verdict, name: &str, rep: f64, exp: f64, tol: f64| {
            if (rep - exp).abs() > tol {
                v.add(Prop::Reporting, &format!("statistic-{name}"), format!("{ctx}: reported {name} {rep}, replay {exp}"));
            }
        };
        let t = tol as f64 * legs.max(1.);
        cmp(&mut v, "distance", rs.distance as f64, st.distance, t);
        cmp(&mut v, "duration", rs.duration as f64, st.duration, t);
        cmp(&mut v, "driving", rs.times.driving as f64, st.driving, t);
        cmp(&mut v, "serving", rs.times.serving as f64, st.serving, t);
        cmp(&mut v, "waiting", rs.times.waiting as f64, st.waiting, t);
        cmp(&mut v, "break", rs.times.break_time as f64, st.break_time, t);
        let split = (rs.times.driving + rs.times.serving + rs.times.waiting + rs.times.break_time + rs.times.commuting + rs.times.parking) as f64;
        cmp(&mut v, "split-sum", split, rs.duration as f64, t);
        let cost_tol = 1e-6 * st.cost.abs().max(1.) + (tol as f64 - 1.).max(0.) * legs * (vt.costs.time.abs() + vt.costs.distance.abs());
        cmp(&mut v, "cost", rs.cost, st.cost, cost_tol);
        if vt.costs.fixed.unwrap_or(0.) > 0. {
            v.fact("fixed_cost");
        }
        if scale != 1. {
            v.fact("scaled_profile");
        }
        if !has_end {
            v.fact("open_end_tour");
        }
        total.add(&st);
    }
    for tour in solution.tours.iter() {
        let rs = &tour.statistic;
        total.reported_cost += rs.cost;
        total.reported_distance += rs.distance;
        total.reported_duration += rs.duration;
        total.reported_times = [
            total.reported_times[0] + rs.times.driving,
            total.reported_times[1] + rs.times.serving,
            total.reported_times[2] + rs.times.waiting,
            total.reported_times[3] + rs.times.break_time,
        ];
    }

    check_relations(problem, solution, &mut v);

    // shared resource capacity
    for res in problem.fleet.resources.iter().flatten() {
        let api::VehicleResource::Reload { id, capacity } = res;
        if let Some(used) = resource_used.get(id) {
            for d in 0..dims.min(capacity.len()) {
                if used[d] > capacity[d] as i64 {
                    v.add(Prop::Feasibility, "shared-resource", format!("resource {id}: {used:?} loaded in total, capacity {capacity:?}"));
                    break;
                }
            }
        }
    }

    // overall statistic == sum of tours (exact for integers, relative for cost)
    let s = &solution.statistic;
    if s.distance != total.reported_distance || s.duration != total.reported_duration {
        v.add(Prop::Reporting, "overall-sum", format!("overall distance/duration {}/{} != sum of tours {}/{}", s.distance, s.duration, total.reported_distance, total.reported_duration));
    }
    if [s.times.driving, s.times.serving, s.times.waiting, s.times.break_time] != total.reported_times {
        v.add(Prop::Reporting, "overall-times-sum", format!("overall times {:?} != sum of tours {:?}", s.times, total.reported_times));
    }
    if (s.cost - total.reported_cost).abs() > 1e-6 * s.cost.abs().max(1.) {
        v.add(Prop::Reporting, "overall-cost-sum", format!("overall cost {} != sum of tours {}", s.cost, total.reported_cost));
    }

    // ---------------- unassigned list (C02)
    let mut unassigned_ids: BTreeSet<String> = BTreeSet::new();
    for u in solution.unassigned.iter().flatten() {
        if !unassigned_ids.insert(u.job_id.clone()) {
            v.add(Prop::Conservation, "unassigned-duplicate", format!("job {} listed twice as unassigned", u.job_id));
        }
        if !jobs.contains_key(u.job_id.as_str()) {
            v.add(Prop::Conservation, "unassigned-unknown", format!("unassigned job id {} is not in the plan", u.job_id));
        }
        if u.reasons.is_empty() {
            v.add(Prop::Conservation, "unassigned-no-reason", format!("unassigned job {} has no reason", u.job_id));
        }
        if assigned_tour.contains_key(&u.job_id) {
            v.add(Prop::Conservation, "assigned-and-unassigned", format!("job {} is both in a tour and unassigned", u.job_id));
        }
    }
    for j in problem.plan.jobs.iter() {
        if !assigned_tour.contains_key(&j.id) && !unassigned_ids.contains(&j.id) {
            v.add(Prop::Conservation, "job-lost", format!("job {} is neither assigned nor unassigned", j.id));
        }
    }
    if !unassigned_ids.is_empty() {
        v.fact("has_unassigned");
    }
    if solution.tours.len() >= 2 {
        v.fact("multi_tour");
    }
    v
}

fn contains_tour_order(o: &api::Objective) -> bool {
    match o {
        api::Objective::TourOrder => true,
        api::Objective::MultiObjective { objectives, .. } => objectives.iter().any(contains_tour_order),
        _ => false,
    }
}

#[derive(Clone, Debug, Default)]
struct StatAcc {
    cost: f64,
    distance: f64,
    duration: f64,
    driving: f64,
    serving: f64,
    waiting: f64,
    break_time: f64,
    reported_cost: f64,
    reported_distance: i64,
    reported_duration: i64,
    reported_times: [i64; 4],
}

impl StatAcc {
    fn add(&mut self, o: &StatAcc) {
        self.cost += o.cost;
        self.distance += o.distance;
        self.duration += o.duration;
        self.driving += o.driving;
        self.serving += o.serving;
        self.waiting += o.waiting;
        self.break_time += o.break_time;
    }
}


// ---------------------------------------------------------------------------------------------
// relation pinning (documentation: concepts/pragmatic/problem/relations.md)
// ---------------------------------------------------------------------------------------------

fn is_reserved(id: &str) -> bool {
    matches!(id, "departure" | "arrival" | "break" | "reload" | "recharge")
}

/// vehicle: every customer job of a relation is served by the named vehicle shift;
/// order (sequence, strict): the jobs are visited in the listed order;
/// contiguity (strict): no other customer job in between; departure / arrival anchors of a strict relation.
/// A break/reload between two jobs of a strict relation is not decided by the documentation (counted as unspecified).
fn check_relations(problem: &api::Problem, solution: &sol::Solution, v: &mut Verdict) {
    let Some(relations) = problem.plan.relations.as_ref() else { return };
    let flats: Vec<Option<Vec<FlatAct>>> = solution.tours.iter().map(flatten).collect();
    for (ri, rel) in relations.iter().enumerate() {
        let shift = rel.shift_index.unwrap_or(0);
        let ctx = format!("relation {ri} ({:?} on {} shift {shift})", rel.type_field, rel.vehicle_id);
        v.fact("relation_present");
        let own = solution.tours.iter().position(|t| t.vehicle_id == rel.vehicle_id && t.shift_index == shift);
        let mut ids: Vec<&String> = vec![];
        for id in rel.jobs.iter().filter(|id| !is_reserved(id)) {
            if !ids.contains(&id) {
                ids.push(id);
            }
        }
        // vehicle pinning
        for id in ids.iter() {
            let served: Vec<usize> = flats.iter().enumerate().filter(|(_, f)| f.as_ref().is_some_and(|f| f.iter().any(|a| &&a.job_id == id))).map(|(ti, _)| ti).collect();
            if served.iter().any(|ti| Some(*ti) != own) {
                v.add(Prop::Feasibility, "relation-vehicle", format!("{ctx}: job {id} is served by tour(s) {served:?}, the relation names tour {own:?}"));
            }
            if served.is_empty() {
                // `any` only reserves the job for the vehicle (it may be ruined and stay unassigned when it does not fit again);
                // sequence / strict jobs are never taken out of their tour
                if matches!(rel.type_field, api::RelationType::Any) {
                    v.unspec("relation-any-job-unassigned");
                } else {
                    v.add(Prop::Feasibility, "relation-job-unassigned", format!("{ctx}: job {id} is not served at all"));
                }
            }
        }
        let Some(acts) = own.and_then(|ti| flats[ti].as_ref()) else { continue };
        if matches!(rel.type_field, api::RelationType::Any) {
            v.fact("relation_any");
            continue;
        }
        // position of the (first) activity of every listed customer job
        let pos: Vec<Option<usize>> = rel.jobs.iter().map(|id| if is_reserved(id) { None } else { acts.iter().position(|a| &a.job_id == id) }).collect();
        let listed: Vec<usize> = pos.iter().flatten().copied().collect();
        if listed.windows(2).any(|w| w[0] >= w[1]) {
            v.add(Prop::Feasibility, "relation-order", format!("{ctx}: jobs {:?} are visited at activity positions {listed:?}", rel.jobs));
            continue;
        }
        if matches!(rel.type_field, api::RelationType::Sequence) {
            v.fact("relation_sequence");
            continue;
        }
        v.fact("relation_strict");
        // strict: anchors and contiguity
        let is_customer = |a: &FlatAct| !is_reserved(&a.job_id) && matches!(a.kind.as_str(), "pickup" | "delivery" | "service" | "replacement");
        let check_gap = |v: &mut Verdict, from: usize, to: usize, what: String| {
            // activities strictly between positions `from` and `to`
            let between = &acts[from + 1..to];
            if between.iter().any(|a| is_customer(a)) {
                v.add(Prop::Feasibility, "relation-contiguity", format!("{ctx}: {what}: other jobs {:?} in between", between.iter().filter(|a| is_customer(a)).map(|a| a.job_id.clone()).collect::<Vec<_>>()));
            } else if !between.is_empty() {
                v.unspec("relation-strict-marker-in-between");
            }
        };
        for w in listed.windows(2) {
            check_gap(v, w[0], w[1], format!("between activity positions {} and {}", w[0], w[1]));
        }
        if rel.jobs.first().is_some_and(|j| j == "departure") {
            if let Some(first) = listed.first() {
                v.fact("relation_strict_departure_anchor");
                check_gap(v, 0, *first, "after departure".to_string());
            }
        }
        if rel.jobs.last().is_some_and(|j| j == "arrival") && acts.last().is_some_and(|a| a.kind == "arrival") {
            if let Some(last) = listed.last() {
                v.fact("relation_strict_arrival_anchor");
                check_gap(v, *last, acts.len() - 1, "before arrival".to_string());
            }
        }
    }
}
