//! Relations derived from a witness solution (documentation: "jobs specified in relations are not checked for
//! constraint violations" - so user relations have to be consistent with the constraints themselves; a relation read
//! off a feasible solution of the same problem is consistent by construction: that solution is its witness).

use super::refmodel::{FlatAct, flatten};
use crate::fw::pick_idx;
use vrp_pragmatic::format::problem as api;
use vrp_pragmatic::format::solution as sol;

fn tasks(j: &api::Job) -> Vec<&api::JobTask> {
    [&j.pickups, &j.deliveries, &j.replacements, &j.services].into_iter().flatten().flatten().collect()
}

/// E1203: no job of a relation may have a task with several places or several time windows.
fn simple_places(j: &api::Job) -> bool {
    tasks(j).iter().all(|t| t.places.len() == 1 && t.places[0].times.as_ref().is_none_or(|w| w.len() <= 1))
}

fn is_customer(a: &FlatAct) -> bool {
    matches!(a.kind.as_str(), "pickup" | "delivery" | "service" | "replacement")
}

/// Derives 0-2 relations per tour which the given solution satisfies. `picks` drives every choice.
pub fn derive_relations(problem: &api::Problem, solution: &sol::Solution, picks: &[u16]) -> Vec<api::Relation> {
    let pick = |k: usize| picks.get(k % picks.len().max(1)).copied().unwrap_or(0);
    let job = |id: &str| problem.plan.jobs.iter().find(|j| j.id == id);
    let mut out = vec![];
    for (ti, tour) in solution.tours.iter().enumerate() {
        let Some(acts) = flatten(tour) else { continue };
        // a tour that needs a reload is not feasible as a sub-sequence without it, and the reserved id `reload` names reload
        // definitions by position, not the one the witness used: such tours are left unlocked
        if acts.iter().any(|a| a.kind == "reload") {
            continue;
        }
        // a witness tour whose departure was moved off the shift's earliest start is feasible only together with that
        // departure time; the reader builds the initial tour of a relation departing at the earliest start: left unlocked
        let earliest = problem.fleet.vehicles.iter().find(|v| v.vehicle_ids.contains(&tour.vehicle_id)).and_then(|v| v.shifts.get(tour.shift_index)).and_then(|sh| super::common::parse_time(&sh.start.earliest));
        if acts.first().is_none_or(|a| Some(a.end) != earliest) {
            continue;
        }
        let closed = acts.last().is_some_and(|a| a.kind == "arrival");
        // single-task eligible jobs in visiting order: (activity position, id)
        let singles: Vec<(usize, String)> = acts.iter().enumerate().filter(|(_, a)| is_customer(a) && job(&a.job_id).is_some_and(|j| tasks(j).len() == 1 && simple_places(j))).map(|(p, a)| (p, a.job_id.clone())).collect();
        // multi-task eligible jobs (for `any` only; E1207: the id is listed once per task)
        let mut multis: Vec<(String, usize)> = vec![];
        for a in acts.iter().filter(|a| is_customer(a)) {
            if let Some(j) = job(&a.job_id) {
                if tasks(j).len() > 1 && simple_places(j) && !multis.iter().any(|(id, _)| id == &a.job_id) {
                    multis.push((a.job_id.clone(), tasks(j).len()));
                }
            }
        }
        let base = ti * 6;
        let mode = pick(base) % 6;
        let shift_index = if tour.shift_index == 0 && pick(base + 1) % 2 == 0 { None } else { Some(tour.shift_index) };
        let relation = |kind: api::RelationType, jobs: Vec<String>| api::Relation { type_field: kind, jobs, vehicle_id: tour.vehicle_id.clone(), shift_index };
        // a window [a, a+len) over the single-task jobs
        let window = |k: usize, items: usize| -> (usize, usize) {
            if items == 0 {
                return (0, 0);
            }
            let a = pick_idx(pick(k), items);
            let len = 1 + pick_idx(pick(k + 1), items - a);
            (a, a + len)
        };
        let mut used: Vec<String> = vec![];
        match mode {
            0 => {}
            1 | 5 => {
                // any: a window of single-task jobs (+ one multi-task job when mode 5), listed in visiting order: the reader
                // builds the initial tour in the listed order without checking any constraint (documented), and maps the k-th
                // occurrence of a multi-task job id to its k-th task, so only a listing that is itself a feasible visiting order
                // (a sub-sequence of the witness tour, tasks of a job in definition order) is "consistent with the constraints"
                let (a, b) = window(base + 2, singles.len());
                let mut selected: Vec<String> = singles[a..b].iter().map(|(_, id)| id.clone()).collect();
                if mode == 5 {
                    let in_definition_order = |id: &str| {
                        let tags: Vec<&str> = acts.iter().filter(|x| x.job_id == id).filter_map(|x| x.tag.as_deref()).collect();
                        let task_no = |t: &str| t.split("_t").nth(1).and_then(|r| r.split('_').next()).and_then(|n| n.parse::<usize>().ok());
                        let nos: Vec<Option<usize>> = tags.iter().map(|t| task_no(t)).collect();
                        nos.iter().all(|n| n.is_some()) && nos.windows(2).all(|w| w[0] < w[1]) && nos.first() == Some(&Some(0))
                    };
                    let candidates: Vec<&(String, usize)> = multis.iter().filter(|(id, n)| acts.iter().filter(|x| &x.job_id == id).count() == *n && in_definition_order(id)).collect();
                    if !candidates.is_empty() {
                        selected.push(candidates[pick_idx(pick(base + 4), candidates.len())].0.clone());
                    }
                }
                let jobs: Vec<String> = acts.iter().filter(|x| is_customer(x) && selected.contains(&x.job_id)).map(|x| x.job_id.clone()).collect();
                if !jobs.is_empty() {
                    used.extend(jobs.iter().cloned());
                    out.push(relation(api::RelationType::Any, jobs));
                }
            }
            2 => {
                // sequence: every second job of a window, in visiting order
                let (a, b) = window(base + 2, singles.len());
                let step = 1 + (pick(base + 4) % 2) as usize;
                let jobs: Vec<String> = singles[a..b].iter().step_by(step).map(|(_, id)| id.clone()).collect();
                if !jobs.is_empty() {
                    used.extend(jobs.iter().cloned());
                    out.push(relation(api::RelationType::Sequence, jobs));
                }
            }
            _ => {
                // strict: a run of single-task jobs that are neighbours in the tour (nothing at all in between)
                let mut runs: Vec<Vec<(usize, String)>> = vec![];
                for (p, id) in singles.iter() {
                    match runs.last_mut() {
                        Some(run) if run.last().is_some_and(|(q, _)| q + 1 == *p) => run.push((*p, id.clone())),
                        _ => runs.push(vec![(*p, id.clone())]),
                    }
                }
                if !runs.is_empty() {
                    let run = &runs[pick_idx(pick(base + 2), runs.len())];
                    let a = pick_idx(pick(base + 3), run.len());
                    let b = a + 1 + pick_idx(pick(base + 4), run.len() - a);
                    let part = &run[a..b];
                    let mut jobs: Vec<String> = part.iter().map(|(_, id)| id.clone()).collect();
                    used.extend(jobs.iter().cloned());
                    if part.first().is_some_and(|(p, _)| *p == 1) && acts.first().is_some_and(|a| a.kind == "departure") && pick(base + 5) % 2 == 0 {
                        jobs.insert(0, "departure".to_string());
                    }
                    if closed && part.last().is_some_and(|(p, _)| *p + 2 == acts.len()) && pick(base + 5) % 3 == 0 {
                        jobs.push("arrival".to_string());
                    }
                    out.push(relation(api::RelationType::Strict, jobs));
                    // second relation on the same vehicle shift: `any` over later single-task jobs
                    if mode == 4 {
                        let rest: Vec<String> = singles.iter().filter(|(p, id)| *p > part.last().map_or(0, |x| x.0) && !used.contains(id)).map(|(_, id)| id.clone()).collect();
                        if !rest.is_empty() {
                            out.push(relation(api::RelationType::Any, rest));
                        }
                    }
                }
            }
        }
    }
    out
}
