//! C11: problem / matrix / solution documents survive round trips; a written solution is read back as
//! the same initial solution; CSV import carries the tables' data.

use super::common::*;
use super::e2e::{read_core, solve_to_solution};
use super::pgen::*;
use crate::fw::*;
use proptest::prelude::*;
use rosomaxa::prelude::Random;
use serde::{Deserialize, Serialize};
use serde_json::{Map, Value, json};
use std::collections::{BTreeMap, BTreeSet};
use std::io::{BufReader, BufWriter};
use std::sync::Arc;
use vrp_cli::extensions::import::import_problem;
use vrp_core::models::Problem as CoreProblem;
use vrp_core::models::problem::{JobIdDimension, Multi, VehicleIdDimension};
use vrp_pragmatic::format::problem as api;
use vrp_pragmatic::format::problem::PragmaticProblem;
use vrp_pragmatic::format::solution as sol;
use vrp_pragmatic::format::{CoordIndexExtraProperty, JobTypeDimension, Location as ApiLocation, PlaceTagsDimension, ShiftIndexDimension};

const P: &str = "C11";
type Obj = Map<String, Value>;

// ---------------------------------------------------------------------------------------------
// JSON comparison (numbers as numbers, equal up to 1 ULP) and the round-trip law
// ---------------------------------------------------------------------------------------------

fn ulp_key(x: f64) -> i128 { let b = x.to_bits() as i64; (if b < 0 { i64::MIN.wrapping_sub(b) } else { b }) as i128 }

fn num_eq(a: &serde_json::Number, b: &serde_json::Number, ulps: i128) -> bool {
    if !a.is_f64() && !b.is_f64() { return a == b; }
    matches!((a.as_f64(), b.as_f64()), (Some(x), Some(y)) if (ulp_key(x) - ulp_key(y)).abs() <= ulps)
}

/// First difference of two JSON trees (numbers equal up to `ulps`). `lenient`: an object member with
/// value null equals an absent one.
fn diff(a: &Value, b: &Value, lenient: bool, ulps: i128, path: &str) -> Option<String> {
    match (a, b) {
        (Value::Number(x), Value::Number(y)) => (!num_eq(x, y, ulps)).then(|| format!("{path}: number {x} vs {y}")),
        (Value::Array(x), Value::Array(y)) => {
            if x.len() != y.len() { return Some(format!("{path}: array length {} vs {}", x.len(), y.len())); }
            x.iter().zip(y).enumerate().find_map(|(i, (p, q))| diff(p, q, lenient, ulps, &format!("{path}/{i}")))
        }
        (Value::Object(x), Value::Object(y)) => {
            let keys: BTreeSet<&String> = x.keys().chain(y.keys()).collect();
            keys.into_iter().find_map(|k| match (x.get(k), y.get(k)) {
                (Some(p), Some(q)) => diff(p, q, lenient, ulps, &format!("{path}/{k}")),
                (Some(Value::Null), None) | (None, Some(Value::Null)) if lenient => None,
                (p, q) => Some(format!("{path}/{k}: {} vs {}", p.map_or("<absent>".to_string(), |v| v.to_string()), q.map_or("<absent>".to_string(), |v| v.to_string()))),
            })
        }
        _ => (a != b).then(|| format!("{path}: {a} vs {b}")),
    }
}

/// Signature of "a number came back more than 1 ULP away" (kept apart from structural differences).
const DRIFT: &str = "doc:number-beyond-1ulp";

/// Asserts equality of two trees with the 1 ULP rule; differences that are only numeric (within 16 ULP)
/// get the DRIFT signature, which is excluded and counted while it is an open known finding.
fn same(sig: String, what: &str, a: &Value, b: &Value, lenient: bool, stats: &Stats, ctx: &str) -> Check {
    let Some(d) = diff(a, b, lenient, 1, "") else { return Ok(()) };
    if diff(a, b, lenient, 16, "").is_none() {
        if known_open(P, DRIFT) { stats.known_hit(DRIFT); return Ok(()); }
        return Err(Failure::new(DRIFT, format!("{what}: a number is not reproduced to the last but one bit at {d}\n{ctx}")));
    }
    Err(Failure::new(sig, format!("{what} at {d}\n{ctx}")))
}

fn has_null_member(v: &Value) -> bool { match v { Value::Object(o) => o.values().any(|x| x.is_null() || has_null_member(x)), Value::Array(a) => a.iter().any(has_null_member), _ => false, } }

fn into_text(w: BufWriter<Vec<u8>>) -> Result<String, String> { String::from_utf8(w.into_inner().map_err(|e| e.to_string())?).map_err(|e| e.to_string()) }

fn ser_problem(p: &api::Problem) -> Result<String, String> { let mut w = BufWriter::new(Vec::new()); api::serialize_problem(p, &mut w).map_err(|e| e.to_string())?; into_text(w) }

fn de_problem(t: &str) -> Result<api::Problem, String> { api::deserialize_problem(BufReader::new(t.as_bytes())).map_err(|e| e.to_string()) }

fn ser_matrix(m: &api::Matrix) -> Result<String, String> { serde_json::to_string_pretty(m).map_err(|e| e.to_string()) }

fn de_matrix(t: &str) -> Result<api::Matrix, String> { api::deserialize_matrix(BufReader::new(t.as_bytes())).map_err(|e| e.to_string()) }

fn ser_solution(s: &sol::Solution) -> Result<String, String> { let mut w = BufWriter::new(Vec::new()); sol::serialize_solution(s, &mut w).map_err(|e| e.to_string())?; into_text(w) }

fn de_solution(t: &str) -> Result<sol::Solution, String> { sol::deserialize_solution(BufReader::new(t.as_bytes())).map_err(|e| e.to_string()) }

fn parse_guarded<T>(kind: &str, what: &str, text: &str, de: &dyn Fn(&str) -> Result<T, String>) -> Result<Result<T, String>, Failure> {
    guard(|| de(text)).map_err(|p| Failure::new(format!("{kind}:parse-panic:{}", panic_site(&p)), format!("parsing {what} panicked: {p}\n{text}")))
}

/// ser(parse(ser(d))) == ser(d) as JSON trees, and parse(ser(d)) == d field by field (through
/// serde_json::to_value of both model values, i.e. without text in between). Returns (ser(d), its tree).
fn law<T: Serialize>(kind: &str, d: &T, ser: &dyn Fn(&T) -> Result<String, String>, de: &dyn Fn(&str) -> Result<T, String>, stats: &Stats) -> Result<(String, Value), Failure> {
    let t1 = ser(d).map_err(|e| Failure::new(format!("{kind}:serialize-failed"), e))?;
    let v1: Value = serde_json::from_str(&t1).map_err(|e| Failure::new(format!("{kind}:written-text-not-json"), format!("{e}\n{t1}")))?;
    let p = parse_guarded(kind, "a written document", &t1, de)?.map_err(|e| Failure::new(format!("{kind}:reparse-rejected"), format!("the parser rejected a document written by the serializer: {e}\n{t1}")))?;
    let t2 = ser(&p).map_err(|e| Failure::new(format!("{kind}:serialize-failed"), e))?;
    let v2: Value = serde_json::from_str(&t2).map_err(|e| Failure::new(format!("{kind}:written-text-not-json"), format!("{e}\n{t2}")))?;
    same(format!("{kind}:not-idempotent"), "ser(d) (left) differs from ser(parse(ser(d))) (right)", &v1, &v2, false, stats, &t1)?;
    let (m1, m2) = (serde_json::to_value(d).unwrap_or(Value::Null), serde_json::to_value(&p).unwrap_or(Value::Null));
    same(format!("{kind}:field-changed"), "d (left) differs from parse(ser(d)) (right)", &m1, &m2, false, stats, &t1)?;
    Ok((t1, v1))
}

/// Every field the generator set must appear in the written text under its documented name with its value.
fn expect_tree(kind: &str, expected: &Value, written: &Value, text: &str, stats: &Stats) -> Check {
    let mut written = written.clone();
    for (code, docs) in [("job_radius", "jobRadius"), ("vehicle_id", "vehicleId"), ("shift_index", "shiftIndex")] {
        // docs: compact-tour `jobRadius`, break violation `vehicleId`/`shiftIndex`; the model writes snake_case
        // (enum-level rename_all does not reach variant fields) - docs and code disagree: counted, not asserted
        if rename_key(&mut written, code, docs) > 0 { stats.class(&format!("{kind}.unspecified.spelling_differs_from_docs.{code}")); }
    }
    if has_null_member(&written) { stats.class(&format!("{kind}.unspecified.none_written_as_null")); }
    same(format!("{kind}:field-lost-or-renamed"), "generator-side expectation (left) differs from the written document (right)", expected, &written, true, stats, text)
}

fn rename_key(v: &mut Value, from: &str, to: &str) -> usize {
    match v {
        Value::Object(o) => { let mut n = 0; if let Some(x) = o.remove(from) { o.insert(to.to_string(), x); n += 1; } n + o.values_mut().map(|x| rename_key(x, from, to)).sum::<usize>() }
        Value::Array(a) => a.iter_mut().map(|x| rename_key(x, from, to)).sum(),
        _ => 0,
    }
}

/// Documented input aliases: the document with the alias spelling must parse to the same model value.
fn alias_check<T: Serialize>(kind: &str, d: &T, from: &str, to: &str, de: &dyn Fn(&str) -> Result<T, String>, stats: &Stats) -> Check {
    let model = serde_json::to_value(d).unwrap_or(Value::Null);
    let mut aliased = model.clone();
    if rename_key(&mut aliased, from, to) == 0 { return Ok(()); }
    stats.class(&format!("{kind}.alias.{to}"));
    let text = aliased.to_string();
    let p = parse_guarded(kind, "an aliased document", &text, de)?.map_err(|e| Failure::new(format!("{kind}:alias-rejected:{to}"), format!("alias '{to}' for '{from}' rejected: {e}\n{text}")))?;
    same(format!("{kind}:alias-changed:{to}"), &format!("d (left) differs from the parse of d spelled with alias '{to}' (right)"), &model, &serde_json::to_value(&p).unwrap_or(Value::Null), false, stats, &text)
}

// ---------------------------------------------------------------------------------------------
// choice stream: every Option / variant / value of the "every optional field" generators is drawn from it
// ---------------------------------------------------------------------------------------------

#[derive(Clone, Debug, Serialize, Deserialize)]
pub enum Fl { Pool(u8), Bits(u64), Dec(i32, u8), }

#[derive(Clone, Debug, Serialize, Deserialize)]
pub struct Stream { pub bits: Vec<u16>, pub floats: Vec<Fl>, }

const FLOATS: [f64; 40] = [
    0.0, 1.0, -1.0, 5.0, 100.0, 3600.0, 0.5, 2.25, 0.1, 1.1, 1e-7, 1e15, 1e16, 0.30000000000000004, 1e21, 1e22, 1e23, 5e-324, 2.2250738585072014e-308, 2.225073858507201e-308,
    1.7976931348623157e308, 9007199254740992.0, 9007199254740994.0, 123456789.12345678, 0.3333333333333333, 4.35, 2.675, 1e-5, 1.5e-10, 8.41e21, 7.038531e-26, 1.0000000000000002,
    0.9999999999999999, 1577836800.0, 52.52599, 13.45413, -0.0, 0.000001, 1e300, -123.456,
];
const TEXTS: [&str; 16] = ["a", "job1", "", "with space", "quote\"inside", "back\\slash", "tab\tnew\nline", "\u{1}ctl", "ünï-cødé", "日本語", "emoji-🚚", "departure", "12", "null", "a/b~c", "\u{7f}\u{2028}"];

fn fl(f: &Fl) -> f64 {
    match f {
        Fl::Pool(i) => FLOATS[*i as usize % FLOATS.len()],
        Fl::Bits(b) => f64::from_bits(if (*b >> 52) & 0x7ff == 0x7ff { *b & !(1u64 << 52) } else { *b }),
        Fl::Dec(m, e) => *m as f64 / 10f64.powi(*e as i32),
    }
}

fn stream(max: usize) -> impl Strategy<Value = Stream> {
    let f = prop_oneof![4 => any::<u8>().prop_map(Fl::Pool), 2 => any::<u64>().prop_map(Fl::Bits), 2 => (-1_000_000i32..1_000_000, 0u8..8).prop_map(|(m, e)| Fl::Dec(m, e))];
    (prop::collection::vec(any::<u16>(), 8..max), prop::collection::vec(f, 1..24)).prop_map(|(bits, floats)| Stream { bits, floats })
}

struct Src<'a> { s: &'a Stream, i: usize, f: usize, optional: usize, untagged: usize, }

impl<'a> Src<'a> {
    fn new(s: &'a Stream) -> Self { Self { s, i: 0, f: 0, optional: 0, untagged: 0 } }
    fn next(&mut self) -> u16 { let n = self.s.bits.len(); let v = self.s.bits[self.i % n] ^ ((self.i / n) as u16).wrapping_mul(0x9E37); self.i += 1; v }
    fn flag(&mut self) -> bool { let b = self.next() & 1 == 1; self.optional += b as usize; b }
    fn pick(&mut self, n: usize) -> usize { pick_idx(self.next(), n) }
    fn float(&mut self) -> f64 { let v = fl(&self.s.floats[self.f % self.s.floats.len()]); self.f += 1; v }
    fn text(&mut self) -> String { TEXTS[self.pick(TEXTS.len())].to_string() }
    fn time(&mut self) -> String { match self.pick(8) { 0 => "2020-07-04T08:00:00+02:00".to_string(), 1 => "not-a-date".to_string(), _ => fmt_time(T0 + self.next() as i64 * 37), } }
    fn list<T>(&mut self, max: usize, mut f: impl FnMut(&mut Self) -> (T, Value)) -> (Vec<T>, Value) {
        let n = self.pick(max + 1);
        let (a, b): (Vec<T>, Vec<Value>) = (0..n).map(|_| f(self)).unzip();
        (a, Value::Array(b))
    }
    fn opt<T>(&mut self, o: &mut Obj, key: &str, f: impl FnOnce(&mut Self) -> (T, Value)) -> Option<T> { self.flag().then(|| self.req(o, key, f)) }
    fn req<T>(&mut self, o: &mut Obj, key: &str, f: impl FnOnce(&mut Self) -> (T, Value)) -> T { let (t, v) = f(self); o.insert(key.to_string(), v); t }
}

fn b_f(s: &mut Src) -> (f64, Value) { let x = s.float(); (x, json!(x)) }
fn b_text(s: &mut Src) -> (String, Value) { let x = s.text(); (x.clone(), json!(x)) }
fn b_time(s: &mut Src) -> (String, Value) { let x = s.time(); (x.clone(), json!(x)) }
fn b_int(s: &mut Src) -> (i32, Value) { let x = [0, 1, -1, 3, 100, i32::MAX, i32::MIN][s.pick(7)]; (x, json!(x)) }
fn b_long(s: &mut Src) -> (i64, Value) { let x = [0, 1, -1, 42, 86_400, i64::MAX, i64::MIN][s.pick(7)]; (x, json!(x)) }
fn b_idx(s: &mut Src) -> (usize, Value) { let x = [0, 1, 7, 1000, usize::MAX][s.pick(5)]; (x, json!(x)) }
fn b_bool(s: &mut Src) -> (bool, Value) { let x = s.pick(2) == 1; (x, json!(x)) }
fn b_texts(s: &mut Src) -> (Vec<String>, Value) { s.list(2, b_text) }
fn b_ints(s: &mut Src) -> (Vec<i32>, Value) { s.list(3, b_int) }
fn b_longs(s: &mut Src) -> (Vec<i64>, Value) { s.list(4, b_long) }
fn b_fs(s: &mut Src) -> (Vec<f64>, Value) { s.list(3, b_f) }
fn b_window(s: &mut Src) -> (Vec<String>, Value) { let v = vec![s.time(), s.time()]; (v.clone(), json!(v)) }
fn b_windows(s: &mut Src) -> (Vec<Vec<String>>, Value) { s.list(2, b_window) }
fn b_loc(s: &mut Src) -> (ApiLocation, Value) {
    s.untagged += 1;
    match s.pick(3) {
        0 => { let (lat, lng) = (s.float(), s.float()); (ApiLocation::Coordinate { lat, lng }, json!({"lat": lat, "lng": lng})) }
        1 => { let (index, v) = b_idx(s); (ApiLocation::Reference { index }, json!({"index": v})) }
        _ => (ApiLocation::new_unknown(), json!({"type": "unknown"})),
    }
}

// ---------------------------------------------------------------------------------------------
// "every optional field" problem / matrix generator: model value + independently rendered expectation
// ---------------------------------------------------------------------------------------------

fn b_place(s: &mut Src) -> (api::JobPlace, Value) {
    let mut o = Obj::new();
    let p = api::JobPlace { location: s.req(&mut o, "location", b_loc), duration: s.req(&mut o, "duration", b_f), times: s.opt(&mut o, "times", b_windows), tag: s.opt(&mut o, "tag", b_text) };
    (p, Value::Object(o))
}

fn b_tasks(s: &mut Src) -> (Vec<api::JobTask>, Value) {
    s.list(2, |s| {
        let mut o = Obj::new();
        let t = api::JobTask { places: s.req(&mut o, "places", |s| s.list(2, b_place)), demand: s.opt(&mut o, "demand", b_ints), order: s.opt(&mut o, "order", b_int) };
        (t, Value::Object(o))
    })
}

fn b_job(s: &mut Src) -> (api::Job, Value) {
    let mut o = Obj::new();
    let j = api::Job {
        id: s.req(&mut o, "id", b_text),
        pickups: s.opt(&mut o, "pickups", b_tasks),
        deliveries: s.opt(&mut o, "deliveries", b_tasks),
        replacements: s.opt(&mut o, "replacements", b_tasks),
        services: s.opt(&mut o, "services", b_tasks),
        skills: s.opt(&mut o, "skills", |s| {
            let mut k = Obj::new();
            let v = api::JobSkills { all_of: s.opt(&mut k, "allOf", b_texts), one_of: s.opt(&mut k, "oneOf", b_texts), none_of: s.opt(&mut k, "noneOf", b_texts) };
            (v, Value::Object(k))
        }),
        value: s.opt(&mut o, "value", b_f),
        group: s.opt(&mut o, "group", b_text),
        compatibility: s.opt(&mut o, "compatibility", b_text),
    };
    (j, Value::Object(o))
}

fn b_relation(s: &mut Src) -> (api::Relation, Value) {
    let mut o = Obj::new();
    let r = api::Relation {
        type_field: s.req(&mut o, "type", |s| match s.pick(3) {
            0 => (api::RelationType::Any, json!("any")),
            1 => (api::RelationType::Sequence, json!("sequence")),
            _ => (api::RelationType::Strict, json!("strict")),
        }),
        jobs: s.req(&mut o, "jobs", b_texts),
        vehicle_id: s.req(&mut o, "vehicleId", b_text),
        shift_index: s.opt(&mut o, "shiftIndex", b_idx),
    };
    (r, Value::Object(o))
}

fn b_profile(s: &mut Src) -> (api::VehicleProfile, Value) {
    let mut o = Obj::new();
    let p = api::VehicleProfile { matrix: s.req(&mut o, "matrix", b_text), scale: s.opt(&mut o, "scale", b_f) };
    (p, Value::Object(o))
}

fn b_clustering(s: &mut Src) -> (api::Clustering, Value) {
    let mut o = Obj::new();
    o.insert("type".to_string(), json!("vicinity"));
    let c = api::Clustering::Vicinity {
        profile: s.req(&mut o, "profile", b_profile),
        threshold: s.req(&mut o, "threshold", |s| {
            let mut t = Obj::new();
            let v = api::VicinityThresholdPolicy {
                duration: s.req(&mut t, "duration", b_f),
                distance: s.req(&mut t, "distance", b_f),
                min_shared_time: s.opt(&mut t, "minSharedTime", b_f),
                smallest_time_window: s.opt(&mut t, "smallestTimeWindow", b_f),
                max_jobs_per_cluster: s.opt(&mut t, "maxJobsPerCluster", b_idx),
            };
            (v, Value::Object(t))
        }),
        visiting: s.req(&mut o, "visiting", |s| if s.pick(2) == 0 { (api::VicinityVisitPolicy::Return, json!("return")) } else { (api::VicinityVisitPolicy::Continue, json!("continue")) }),
        serving: s.req(&mut o, "serving", |s| {
            let (value, parking) = (s.float(), s.float());
            match s.pick(3) {
                0 => (api::VicinityServingPolicy::Original { parking }, json!({"type": "original", "parking": parking})),
                1 => (api::VicinityServingPolicy::Multiplier { value, parking }, json!({"type": "multiplier", "value": value, "parking": parking})),
                _ => (api::VicinityServingPolicy::Fixed { value, parking }, json!({"type": "fixed", "value": value, "parking": parking})),
            }
        }),
        filtering: s.opt(&mut o, "filtering", |s| { let (ids, v) = b_texts(s); (api::VicinityFilteringPolicy { exclude_job_ids: ids }, json!({"excludeJobIds": v})) }),
    };
    (c, Value::Object(o))
}

fn b_break(s: &mut Src) -> (api::VehicleBreak, Value) {
    let mut o = Obj::new();
    s.untagged += 2;
    let b = if s.pick(2) == 0 {
        api::VehicleBreak::Optional {
            time: s.req(&mut o, "time", |s| {
                if s.pick(2) == 0 {
                    let (w, v) = if s.pick(6) == 0 { s.list(3, b_time) } else { b_window(s) };
                    (api::VehicleOptionalBreakTime::TimeWindow(w), v)
                } else { let (w, v) = b_fs(s); (api::VehicleOptionalBreakTime::TimeOffset(w), v) }
            }),
            places: s.req(&mut o, "places", |s| {
                s.list(2, |s| {
                    let mut p = Obj::new();
                    let v = api::VehicleOptionalBreakPlace { duration: s.req(&mut p, "duration", b_f), location: s.opt(&mut p, "location", b_loc), tag: s.opt(&mut p, "tag", b_text) };
                    (v, Value::Object(p))
                })
            }),
            policy: s.opt(&mut o, "policy", |s| {
                if s.pick(2) == 0 { (api::VehicleOptionalBreakPolicy::SkipIfNoIntersection, json!("skip-if-no-intersection")) } else { (api::VehicleOptionalBreakPolicy::SkipIfArrivalBeforeEnd, json!("skip-if-arrival-before-end")) }
            }),
        }
    } else {
        api::VehicleBreak::Required {
            time: s.req(&mut o, "time", |s| {
                if s.pick(2) == 0 {
                    let (earliest, latest) = (s.time(), s.time());
                    let v = json!({"earliest": earliest, "latest": latest});
                    (api::VehicleRequiredBreakTime::ExactTime { earliest, latest }, v)
                } else { let (earliest, latest) = (s.float(), s.float()); (api::VehicleRequiredBreakTime::OffsetTime { earliest, latest }, json!({"earliest": earliest, "latest": latest})) }
            }),
            duration: s.req(&mut o, "duration", b_f),
        }
    };
    (b, Value::Object(o))
}

fn b_shift(s: &mut Src) -> (api::VehicleShift, Value) {
    let mut o = Obj::new();
    let sh = api::VehicleShift {
        start: s.req(&mut o, "start", |s| {
            let mut p = Obj::new();
            let v = api::ShiftStart { earliest: s.req(&mut p, "earliest", b_time), latest: s.opt(&mut p, "latest", b_time), location: s.req(&mut p, "location", b_loc) };
            (v, Value::Object(p))
        }),
        end: s.opt(&mut o, "end", |s| {
            let mut p = Obj::new();
            let v = api::ShiftEnd { earliest: s.opt(&mut p, "earliest", b_time), latest: s.req(&mut p, "latest", b_time), location: s.req(&mut p, "location", b_loc) };
            (v, Value::Object(p))
        }),
        breaks: s.opt(&mut o, "breaks", |s| s.list(2, b_break)),
        reloads: s.opt(&mut o, "reloads", |s| {
            s.list(2, |s| {
                let mut p = Obj::new();
                let v = api::VehicleReload {
                    location: s.req(&mut p, "location", b_loc),
                    duration: s.req(&mut p, "duration", b_f),
                    times: s.opt(&mut p, "times", b_windows),
                    tag: s.opt(&mut p, "tag", b_text),
                    resource_id: s.opt(&mut p, "resourceId", b_text),
                };
                (v, Value::Object(p))
            })
        }),
        recharges: s.opt(&mut o, "recharges", |s| {
            let mut p = Obj::new();
            let v = api::VehicleRecharges { max_distance: s.req(&mut p, "maxDistance", b_f), stations: s.req(&mut p, "stations", |s| s.list(2, b_place)) };
            (v, Value::Object(p))
        }),
    };
    (sh, Value::Object(o))
}

fn b_vehicle(s: &mut Src) -> (api::VehicleType, Value) {
    let mut o = Obj::new();
    let v = api::VehicleType {
        type_id: s.req(&mut o, "typeId", b_text),
        vehicle_ids: s.req(&mut o, "vehicleIds", b_texts),
        profile: s.req(&mut o, "profile", b_profile),
        costs: s.req(&mut o, "costs", |s| {
            let mut p = Obj::new();
            let v = api::VehicleCosts { fixed: s.opt(&mut p, "fixed", b_f), distance: s.req(&mut p, "distance", b_f), time: s.req(&mut p, "time", b_f) };
            (v, Value::Object(p))
        }),
        shifts: s.req(&mut o, "shifts", |s| s.list(2, b_shift)),
        capacity: s.req(&mut o, "capacity", b_ints),
        skills: s.opt(&mut o, "skills", b_texts),
        limits: s.opt(&mut o, "limits", |s| {
            let mut p = Obj::new();
            let v = api::VehicleLimits { max_distance: s.opt(&mut p, "maxDistance", b_f), max_duration: s.opt(&mut p, "maxDuration", b_f), tour_size: s.opt(&mut p, "tourSize", b_idx) };
            (v, Value::Object(p))
        }),
    };
    (v, Value::Object(o))
}

fn b_objective(s: &mut Src, nested: bool) -> (api::Objective, Value) {
    use api::Objective::*;
    let mut o = Obj::new();
    let (obj, name) = match s.pick(if nested { 16 } else { 17 }) {
        0 => (MinimizeCost, "minimize-cost"),
        1 => (MinimizeDistance, "minimize-distance"),
        2 => (MinimizeDuration, "minimize-duration"),
        3 => (MinimizeTours, "minimize-tours"),
        4 => (MaximizeTours, "maximize-tours"),
        5 => (MaximizeValue { breaks: s.opt(&mut o, "breaks", b_f) }, "maximize-value"),
        6 => (MinimizeUnassigned { breaks: s.opt(&mut o, "breaks", b_f) }, "minimize-unassigned"),
        7 => (MinimizeArrivalTime, "minimize-arrival-time"),
        8 => (BalanceMaxLoad, "balance-max-load"),
        9 => (BalanceActivities, "balance-activities"),
        10 => (BalanceDistance, "balance-distance"),
        11 => (BalanceDuration, "balance-duration"),
        12 => (CompactTour { job_radius: s.req(&mut o, "jobRadius", b_idx) }, "compact-tour"),
        13 => (TourOrder, "tour-order"),
        14 => (FastService, "fast-service"),
        15 => (HierarchicalAreas { levels: s.req(&mut o, "levels", b_idx) }, "hierarchical-areas"),
        _ => (
            MultiObjective {
                strategy: s.req(&mut o, "strategy", |s| {
                    if s.pick(2) == 0 {
                        (api::MultiStrategy::Sum, json!({"name": "sum"}))
                    } else { let (weights, v) = b_fs(s); (api::MultiStrategy::WeightedSum { weights }, json!({"name": "weighted-sum", "weights": v})) }
                }),
                objectives: s.req(&mut o, "objectives", |s| s.list(3, |s| b_objective(s, true))),
            },
            "multi-objective",
        ),
    };
    o.insert("type".to_string(), json!(name));
    (obj, Value::Object(o))
}

fn b_problem(s: &mut Src) -> (api::Problem, Value) {
    let (mut o, mut plan, mut fleet) = (Obj::new(), Obj::new(), Obj::new());
    let p = api::Problem {
        plan: api::Plan { jobs: s.req(&mut plan, "jobs", |s| s.list(2, b_job)), relations: s.opt(&mut plan, "relations", |s| s.list(2, b_relation)), clustering: s.opt(&mut plan, "clustering", b_clustering) },
        fleet: api::Fleet {
            vehicles: s.req(&mut fleet, "vehicles", |s| s.list(2, b_vehicle)),
            profiles: s.req(&mut fleet, "profiles", |s| {
                s.list(2, |s| { let mut p = Obj::new(); let v = api::MatrixProfile { name: s.req(&mut p, "name", b_text), speed: s.opt(&mut p, "speed", b_f) }; (v, Value::Object(p)) })
            }),
            resources: s.opt(&mut fleet, "resources", |s| {
                s.list(2, |s| { let ((id, idv), (capacity, cv)) = (b_text(s), b_ints(s)); (api::VehicleResource::Reload { id, capacity }, json!({"type": "reload", "id": idv, "capacity": cv})) })
            }),
        },
        objectives: s.opt(&mut o, "objectives", |s| s.list(3, |s| b_objective(s, false))),
    };
    o.insert("plan".to_string(), Value::Object(plan));
    o.insert("fleet".to_string(), Value::Object(fleet));
    (p, Value::Object(o))
}

fn b_matrix(s: &mut Src) -> (api::Matrix, Value) {
    let mut o = Obj::new();
    let m = api::Matrix {
        profile: s.opt(&mut o, "profile", b_text),
        timestamp: s.opt(&mut o, "timestamp", b_time),
        travel_times: s.req(&mut o, "travelTimes", b_longs),
        distances: s.req(&mut o, "distances", b_longs),
        error_codes: s.opt(&mut o, "errorCodes", b_longs),
    };
    (m, Value::Object(o))
}

// ---------------------------------------------------------------------------------------------
// directly generated solution documents
// ---------------------------------------------------------------------------------------------

fn b_interval(s: &mut Src) -> (sol::Interval, Value) { let (start, end) = (s.time(), s.time()); let v = json!({"start": start, "end": end}); (sol::Interval { start, end }, v) }

fn b_schedule(s: &mut Src) -> (sol::Schedule, Value) {
    let (arrival, departure) = (s.time(), s.time());
    let v = json!({"arrival": arrival, "departure": departure});
    (sol::Schedule { arrival, departure }, v)
}

fn b_commute_info(s: &mut Src) -> (sol::CommuteInfo, Value) {
    let mut o = Obj::new();
    let c = sol::CommuteInfo { location: s.req(&mut o, "location", b_loc), distance: s.req(&mut o, "distance", b_f), time: s.req(&mut o, "time", b_interval) };
    (c, Value::Object(o))
}

fn b_activity(s: &mut Src) -> (sol::Activity, Value) {
    const TYPES: [&str; 9] = ["departure", "arrival", "pickup", "delivery", "service", "replacement", "break", "reload", "recharge"];
    let mut o = Obj::new();
    let a = sol::Activity {
        job_id: s.req(&mut o, "jobId", b_text),
        activity_type: s.req(&mut o, "type", |s| { let t = TYPES[s.pick(9)]; (t.to_string(), json!(t)) }),
        location: s.opt(&mut o, "location", b_loc),
        time: s.opt(&mut o, "time", b_interval),
        job_tag: s.opt(&mut o, "jobTag", b_text),
        commute: s.opt(&mut o, "commute", |s| {
            let mut c = Obj::new();
            let v = sol::Commute { forward: s.opt(&mut c, "forward", b_commute_info), backward: s.opt(&mut c, "backward", b_commute_info) };
            (v, Value::Object(c))
        }),
    };
    (a, Value::Object(o))
}

fn b_stop(s: &mut Src) -> (sol::Stop, Value) {
    let mut o = Obj::new();
    s.untagged += 1;
    let stop = if s.pick(3) == 0 {
        sol::Stop::Transit(sol::TransitStop { time: s.req(&mut o, "time", b_schedule), load: s.req(&mut o, "load", b_ints), activities: s.req(&mut o, "activities", |s| s.list(2, b_activity)) })
    } else {
        sol::Stop::Point(sol::PointStop {
            location: s.req(&mut o, "location", b_loc),
            time: s.req(&mut o, "time", b_schedule),
            distance: s.req(&mut o, "distance", b_long),
            load: s.req(&mut o, "load", b_ints),
            parking: s.opt(&mut o, "parking", b_interval),
            activities: s.req(&mut o, "activities", |s| s.list(3, b_activity)),
        })
    };
    (stop, Value::Object(o))
}

fn b_statistic(s: &mut Src) -> (sol::Statistic, Value) {
    let (mut o, mut t) = (Obj::new(), Obj::new());
    let st = sol::Statistic {
        cost: s.req(&mut o, "cost", b_f),
        distance: s.req(&mut o, "distance", b_long),
        duration: s.req(&mut o, "duration", b_long),
        times: sol::Timing {
            driving: s.req(&mut t, "driving", b_long),
            serving: s.req(&mut t, "serving", b_long),
            waiting: s.req(&mut t, "waiting", b_long),
            break_time: s.req(&mut t, "break", b_long),
            commuting: s.req(&mut t, "commuting", b_long),
            parking: s.req(&mut t, "parking", b_long),
        },
    };
    o.insert("times".to_string(), Value::Object(t));
    (st, Value::Object(o))
}

fn b_metrics(s: &mut Src) -> (sol::Metrics, Value) {
    let mut o = Obj::new();
    let m = sol::Metrics {
        duration: s.req(&mut o, "duration", b_idx),
        generations: s.req(&mut o, "generations", b_idx),
        speed: s.req(&mut o, "speed", b_f),
        evolution: s.req(&mut o, "evolution", |s| {
            s.list(2, |s| {
                let mut g = Obj::new();
                let v = sol::Generation {
                    number: s.req(&mut g, "number", b_idx),
                    timestamp: s.req(&mut g, "timestamp", b_f),
                    i_all_ratio: s.req(&mut g, "iAllRatio", b_f),
                    i_1000_ratio: s.req(&mut g, "i1000Ratio", b_f),
                    is_improvement: s.req(&mut g, "isImprovement", b_bool),
                    population: s.req(&mut g, "population", |s| {
                        let (individuals, v) = s.list(2, |s| {
                            let ((difference, dv), (fitness, fv)) = (b_f(s), b_fs(s));
                            (sol::Individual { difference, fitness }, json!({"difference": dv, "fitness": fv}))
                        });
                        (sol::Population { individuals }, json!({"individuals": v}))
                    }),
                };
                (v, Value::Object(g))
            })
        }),
    };
    (m, Value::Object(o))
}

fn b_features(s: &mut Src) -> (sol::FeatureCollection, Value) {
    let (features, v) = s.list(2, |s| {
        let (k, val, a, b) = (s.text(), s.text(), s.float(), s.float());
        let (geometry, gv) = if s.pick(2) == 0 { (sol::Geometry::Point { coordinates: (a, b) }, json!({"type": "Point", "coordinates": [a, b]})) } else { (sol::Geometry::LineString { coordinates: vec![(a, b), (b, a)] }, json!({"type": "LineString", "coordinates": [[a, b], [b, a]]})) };
        (sol::Feature { properties: BTreeMap::from([(k.clone(), val.clone())]), geometry }, json!({"type": "Feature", "properties": {k: val}, "geometry": gv}))
    });
    (sol::FeatureCollection { features }, json!({"type": "FeatureCollection", "features": v}))
}

fn b_solution(s: &mut Src) -> (sol::Solution, Value) {
    let mut o = Obj::new();
    let solution = sol::Solution {
        statistic: s.req(&mut o, "statistic", b_statistic),
        tours: s.req(&mut o, "tours", |s| {
            s.list(2, |s| {
                let mut t = Obj::new();
                let v = sol::Tour {
                    vehicle_id: s.req(&mut t, "vehicleId", b_text),
                    type_id: s.req(&mut t, "typeId", b_text),
                    shift_index: s.req(&mut t, "shiftIndex", b_idx),
                    stops: s.req(&mut t, "stops", |s| s.list(3, b_stop)),
                    statistic: s.req(&mut t, "statistic", b_statistic),
                };
                (v, Value::Object(t))
            })
        }),
        unassigned: s.opt(&mut o, "unassigned", |s| {
            s.list(2, |s| {
                let mut u = Obj::new();
                let v = sol::UnassignedJob {
                    job_id: s.req(&mut u, "jobId", b_text),
                    reasons: s.req(&mut u, "reasons", |s| {
                        s.list(2, |s| {
                            let mut r = Obj::new();
                            let v = sol::UnassignedJobReason {
                                code: s.req(&mut r, "code", b_text),
                                description: s.req(&mut r, "description", b_text),
                                details: s.opt(&mut r, "details", |s| {
                                    s.list(2, |s| {
                                        let ((vehicle_id, a), (shift_index, b)) = (b_text(s), b_idx(s));
                                        (sol::UnassignedJobDetail { vehicle_id, shift_index }, json!({"vehicleId": a, "shiftIndex": b}))
                                    })
                                }),
                            };
                            (v, Value::Object(r))
                        })
                    }),
                };
                (v, Value::Object(u))
            })
        }),
        violations: s.opt(&mut o, "violations", |s| {
            s.list(2, |s| {
                let ((vehicle_id, a), (shift_index, b)) = (b_text(s), b_idx(s));
                (sol::Violation::Break { vehicle_id, shift_index }, json!({"type": "break", "vehicleId": a, "shiftIndex": b}))
            })
        }),
        extras: s.opt(&mut o, "extras", |s| {
            let mut e = Obj::new();
            let v = sol::Extras { metrics: s.opt(&mut e, "metrics", b_metrics), features: s.opt(&mut e, "features", b_features) };
            (v, Value::Object(e))
        }),
    };
    (solution, Value::Object(o))
}

// ---------------------------------------------------------------------------------------------
// sub-checks (a)/(b): generated documents
// ---------------------------------------------------------------------------------------------

fn count_doc(kind: &str, s: &Src, case_hash: u64, stats: &Stats) {
    stats.eval();
    stats.class_n(&format!("{kind}.optional_fields_set"), s.optional as u64);
    stats.class_n(&format!("{kind}.untagged_values"), s.untagged as u64);
    if s.optional >= 3 || s.untagged > 0 { stats.class(&format!("{kind}.nontrivial")); stats.nontrivial(case_hash); }
}

pub struct FullProblemProp;

impl Prop for FullProblemProp {
    type Case = Stream;
    fn name(&self) -> &'static str { "rt_problem_full" }
    fn strategy(&self, _tier: Tier) -> BoxedStrategy<Stream> { stream(160).boxed() }
    fn cases(&self, tier: Tier) -> u32 { tier.pick(6_000, 300_000) }
    fn shards(&self, _tier: Tier) -> u32 { 16 }
    fn check(&self, c: &Stream, stats: &Stats) -> Check {
        let mut s = Src::new(c);
        let (problem, expected) = b_problem(&mut s);
        let (text, tree) = law("problem_doc", &problem, &ser_problem, &de_problem, stats)?;
        expect_tree("problem_doc", &expected, &tree, &text, stats)?;
        alias_check("problem_doc", &problem, "maxDuration", "shiftTime", &de_problem, stats)?;
        let (matrix, expected) = b_matrix(&mut s);
        let (text, tree) = law("matrix_doc", &matrix, &ser_matrix, &de_matrix, stats)?;
        expect_tree("matrix_doc", &expected, &tree, &text, stats)?;
        alias_check("matrix_doc", &matrix, "travelTimes", "durations", &de_matrix, stats)?;
        count_doc("problem_doc", &s, hash_of(&format!("{c:?}")), stats);
        for (name, present) in [
            ("clustering", problem.plan.clustering.is_some()),
            ("relations", problem.plan.relations.is_some()),
            ("objectives", problem.objectives.is_some()),
            ("resources", problem.fleet.resources.is_some()),
            ("recharges", problem.fleet.vehicles.iter().flat_map(|v| v.shifts.iter()).any(|s| s.recharges.is_some())),
            ("break_optional", text_has_break(&problem, true)),
            ("break_required", text_has_break(&problem, false)),
            ("multi_objective", problem.objectives.iter().flatten().any(|o| matches!(o, api::Objective::MultiObjective { .. }))),
        ] { if present { stats.class(&format!("problem_doc.with.{name}")); } }
        stats.sample(1, || json!({"kind": "rt_problem_full", "optional_fields_set": s.optional, "untagged_values": s.untagged, "document": tree}));
        Ok(())
    }
}

fn text_has_break(p: &api::Problem, optional: bool) -> bool {
    p.fleet.vehicles.iter().flat_map(|v| v.shifts.iter()).flat_map(|s| s.breaks.iter().flatten()).any(|b| matches!(b, api::VehicleBreak::Optional { .. }) == optional)
}

pub struct SolutionDocProp;

impl Prop for SolutionDocProp {
    type Case = Stream;
    fn name(&self) -> &'static str { "rt_solution_doc" }
    fn strategy(&self, _tier: Tier) -> BoxedStrategy<Stream> { stream(160).boxed() }
    fn cases(&self, tier: Tier) -> u32 { tier.pick(4_000, 200_000) }
    fn shards(&self, _tier: Tier) -> u32 { 16 }
    fn check(&self, c: &Stream, stats: &Stats) -> Check {
        let mut s = Src::new(c);
        let (solution, expected) = b_solution(&mut s);
        let (text, tree) = law("solution_doc", &solution, &ser_solution, &de_solution, stats)?;
        expect_tree("solution_doc", &expected, &tree, &text, stats)?;
        count_doc("solution_doc", &s, hash_of(&format!("{c:?}")), stats);
        let stops = || solution.tours.iter().flat_map(|t| t.stops.iter());
        for (name, present) in [
            ("transit_stop", stops().any(|s| matches!(s, sol::Stop::Transit(_)))),
            ("point_stop", stops().any(|s| matches!(s, sol::Stop::Point(_)))),
            ("parking", stops().any(|s| s.as_point().is_some_and(|p| p.parking.is_some()))),
            ("commute", stops().flat_map(|s| s.activities().iter()).any(|a| a.commute.as_ref().is_some_and(|c| c.forward.is_some() || c.backward.is_some()))),
            ("violations", solution.violations.as_ref().is_some_and(|v| !v.is_empty())),
            ("unassigned_details", solution.unassigned.iter().flatten().flat_map(|u| u.reasons.iter()).any(|r| r.details.is_some())),
            ("metrics", solution.extras.as_ref().is_some_and(|e| e.metrics.is_some())),
            ("geojson_features", solution.extras.as_ref().is_some_and(|e| e.features.is_some())),
        ] { if present { stats.class(&format!("solution_doc.with.{name}")); } }
        stats.sample(1, || json!({"kind": "rt_solution_doc", "optional_fields_set": s.optional, "document": tree}));
        Ok(())
    }
}

/// pgen documents (valid problems + their matrices).
pub struct PgenProblemProp;

impl Prop for PgenProblemProp {
    type Case = ProblemSpec;
    fn name(&self) -> &'static str { "rt_problem_pgen" }
    fn strategy(&self, tier: Tier) -> BoxedStrategy<ProblemSpec> { problem_spec(tier.pick(8, 20)).boxed() }
    fn cases(&self, tier: Tier) -> u32 { tier.pick(2_000, 100_000) }
    fn shards(&self, _tier: Tier) -> u32 { 16 }
    fn check(&self, c: &ProblemSpec, stats: &Stats) -> Check {
        let r = render(c);
        law("problem_doc", &r.problem, &ser_problem, &de_problem, stats)?;
        alias_check("problem_doc", &r.problem, "maxDuration", "shiftTime", &de_problem, stats)?;
        for m in r.matrices.iter() { law("matrix_doc", m, &ser_matrix, &de_matrix, stats)?; alias_check("matrix_doc", m, "travelTimes", "durations", &de_matrix, stats)?; }
        stats.eval();
        stats.class("pgen_doc.documents");
        if r.info.features.len() >= 3 || r.info.features.iter().any(|f| f == "break") { stats.class("pgen_doc.nontrivial"); stats.nontrivial(hash_of(&format!("{c:?}"))); }
        Ok(())
    }
}

// ---------------------------------------------------------------------------------------------
// sub-checks (b)/(c): solution written by the solver; fed back as initial solution
// ---------------------------------------------------------------------------------------------

#[derive(Clone, Debug, Serialize, Deserialize)]
pub struct SolvedCase { pub spec: ProblemSpec, pub config: u8, }

pub struct SolvedProp;

fn is_customer(t: &str) -> bool { matches!(t, "pickup" | "delivery" | "replacement" | "service") }

type TourKey = (String, usize);
type Act = (String, Option<String>, usize);

/// Ok(false): the case hit an open known finding and was excluded.
fn init_round_trip(core: &Arc<CoreProblem>, solution: &sol::Solution, text: &str, seed: u64, stats: &Stats) -> Result<bool, Failure> {
    let coord = core.extras.get_coord_index().ok_or_else(|| Failure::new("harness:no-coord-index", "core problem has no coord index"))?;
    let mut expected: BTreeMap<TourKey, Vec<Act>> = BTreeMap::new();
    for tour in solution.tours.iter() {
        let acts = expected.entry((tour.vehicle_id.clone(), tour.shift_index)).or_default();
        for stop in tour.stops.iter() {
            for a in stop.activities().iter().filter(|a| is_customer(&a.activity_type)) {
                let loc = a.location.as_ref().or(stop.location()).and_then(|l| coord.get_by_loc(l));
                let loc = loc.ok_or_else(|| Failure::new("harness:solution-location", format!("activity of job {} has no resolvable location", a.job_id)))?;
                acts.push((a.job_id.clone(), a.job_tag.clone(), loc));
            }
        }
    }
    let random: Arc<dyn Random> = Arc::new(SeededRandom::new(seed));
    let back = match guard(|| sol::read_init_solution(BufReader::new(text.as_bytes()), core.clone(), random)) {
        Ok(Ok(s)) => s,
        Ok(Err(e)) => {
            let e = e.to_string();
            let sig = if e.contains("cannot match job") {
                "init:read-error:cannot-match-job"
            } else if e.contains("potential double assignment") {
                "init:read-error:double-assignment"
            } else if e.contains("cannot match '") { "init:read-error:cannot-match-break-or-reload" } else { "init:read-error:other" };
            if known_open(P, sig) { stats.known_hit(sig); return Ok(false); }
            return Err(Failure::new(sig, format!("read_init_solution rejected the solution the solver wrote for the same problem: {e}\n--- solution:\n{}", compact(text))));
        }
        Err(p) => return Err(Failure::new(format!("init:read-panic:{}", panic_site(&p)), format!("read_init_solution panicked: {p}\n--- solution:\n{}", compact(text)))),
    };
    let mut actual: BTreeMap<TourKey, Vec<Act>> = BTreeMap::new();
    for route in back.routes.iter() {
        let dimens = &route.actor.vehicle.dimens;
        let acts = actual.entry((dimens.get_vehicle_id().cloned().unwrap_or_default(), dimens.get_shift_index().copied().unwrap_or(usize::MAX))).or_default();
        for a in route.tour.all_activities() {
            let Some(single) = a.job.as_ref() else { continue };
            if !single.dimens.get_job_type().is_some_and(|t| is_customer(t)) { continue; }
            let id = single.dimens.get_job_id().cloned().or_else(|| Multi::roots(single).and_then(|m| m.dimens.get_job_id().cloned())).unwrap_or_default();
            let tag = single.dimens.get_place_tags().and_then(|tags| tags.iter().find(|(i, _)| *i == a.place.idx).map(|(_, t)| t.clone()));
            acts.push((id, tag, a.place.location));
        }
    }
    if expected != actual {
        let key = expected.keys().chain(actual.keys()).find(|k| expected.get(*k) != actual.get(*k)).cloned().unwrap_or_default();
        let same_jobs = expected.get(&key).map(|v| v.iter().map(|a| &a.0).collect::<Vec<_>>()) == actual.get(&key).map(|v| v.iter().map(|a| &a.0).collect::<Vec<_>>());
        let sig = if same_jobs { "init:place-differs" } else { "init:activities-differ" };
        if known_open(P, sig) { stats.known_hit(sig); return Ok(false); }
        return Err(Failure::new(sig, format!("vehicle {key:?}: (job, tag of place used, location) written {:?} but reconstructed {:?}\n--- solution:\n{}", expected.get(&key), actual.get(&key), compact(text))));
    }
    let exp_un: BTreeSet<String> = solution.unassigned.iter().flatten().map(|u| u.job_id.clone()).collect();
    let act_un: BTreeSet<String> = back.unassigned.iter().filter(|(j, _)| j.dimens().get_vehicle_id().is_none()).filter_map(|(j, _)| j.dimens().get_job_id().cloned()).collect();
    ensure!(exp_un == act_un, "init:unassigned-differ", "unassigned written {exp_un:?} but reconstructed {act_un:?}\n--- solution:\n{}", compact(text));
    Ok(true)
}

fn compact(text: &str) -> String { serde_json::from_str::<Value>(text).map(|v| v.to_string()).unwrap_or_else(|_| text.to_string()) }

impl Prop for SolvedProp {
    type Case = SolvedCase;
    fn name(&self) -> &'static str { "rt_solved_init" }
    fn strategy(&self, tier: Tier) -> BoxedStrategy<SolvedCase> { (problem_spec(tier.pick(10, 20)), 0u8..4).prop_map(|(mut spec, config)| { /* docs: 'use tag property on each job place if you want to use initial solution' */ spec.features &= !F_UNTAGGED; SolvedCase { spec, config } }).boxed() }
    fn cases(&self, tier: Tier) -> u32 { tier.pick(2_400, 60_000) }
    fn shards(&self, _tier: Tier) -> u32 { 16 }
    fn max_shrink_iters(&self) -> u32 { 300 }
    fn check(&self, c: &SolvedCase, stats: &Stats) -> Check {
        let r = render(&c.spec);
        let core = read_core(&r.problem, &r.matrices).map_err(|e| Failure::new("harness:generator-invalid", format!("generated problem was rejected: {e}")))?;
        let mut cfg = json!({"termination": {"maxGenerations": if c.config == 2 { 1 } else { 5 }}, "environment": {"parallelism": {"numThreadPools": 1, "threadsPerPool": 1}, "logging": {"enabled": false}}});
        if c.config % 2 == 1 { cfg["telemetry"] = json!({"metrics": {"enabled": true, "trackPopulation": 2}}); }
        if c.config == 3 { cfg["output"] = json!({"includeGeojson": true}); }
        let (solution, text) = match solve_to_solution(core.clone(), &cfg) {
            Ok(x) => x,
            // a solver error / crash on a valid problem is the subject of C01-C03/C07, not of this property: counted only
            Err(f) if f.signature == "solve:error" || f.signature.starts_with("solve:panic") => {
                stats.class("solved_doc.outside_c11.solver_failed");
                stats.sample(3, || json!({"kind": "rt_solved_init", "solver_failed": f.message, "case": c}));
                return Ok(());
            }
            Err(f) => return Err(f),
        };
        let problem_doc = || format!("--- problem+matrices:\n{}", json!({"problem": r.problem, "matrices": r.matrices}));
        let with_problem = |f: Failure| Failure::new(f.signature, format!("{}\n{}", f.message, problem_doc()));
        // (b) the document written by the solver loses nothing through parse -> serialise, and obeys the law
        let written: Value = serde_json::from_str(&text).map_err(|e| Failure::new("solved_doc:written-text-not-json", format!("{e}\n{text}")))?;
        let (_, tree) = law("solved_doc", &solution, &ser_solution, &de_solution, stats)?;
        same("solved_doc:lost-by-parse".to_string(), "solver-written document (left) differs from ser(parse(it)) (right)", &written, &tree, false, stats, &text)?;
        stats.class("solved_doc.documents");
        if solution.extras.as_ref().is_some_and(|e| e.metrics.is_some()) { stats.class("solved_doc.with.metrics"); }
        // (c) initial-solution round trip. The reader matches activities by id, tag, location and time: a solution whose
        // activities lie outside their time windows (a C01 matter, known defect families) cannot be matched and is left out
        let verdict = super::refmodel::evaluate(&r.problem, &r.matrices, &solution, super::e2e::tolerance(&r.problem));
        if verdict.findings.iter().any(|f| f.prop == super::refmodel::Prop::Feasibility && matches!(f.rule.as_str(), "time-window" | "time-window-start" | "shift-end" | "reachability")) {
            stats.class("init.skipped.solution_infeasible_in_time_for_R");
            return Ok(());
        }
        stats.eval();
        if !init_round_trip(&core, &solution, &text, hash_of(&format!("{c:?}")), stats).map_err(with_problem)? { return Ok(()); }
        let assigned: BTreeSet<&String> = solution.tours.iter().flat_map(|t| t.stops.iter()).flat_map(|s| s.activities().iter()).filter(|a| is_customer(&a.activity_type)).map(|a| &a.job_id).collect();
        let jobs = || r.problem.plan.jobs.iter().filter(|j| assigned.contains(&j.id));
        let multi_task = jobs().any(|j| j.all_tasks_iter().count() > 1);
        let multi_place = jobs().any(|j| j.all_tasks_iter().any(|t| t.places.len() > 1 || t.places.iter().any(|p| p.times.as_ref().is_some_and(|w| w.len() > 1))));
        let shared_location = jobs().any(|j| j.all_tasks_iter().any(|t| t.places.len() > 1 && format!("{:?}", t.places[0].location) == format!("{:?}", t.places[1].location)));
        let has = |t: &str| solution.tours.iter().flat_map(|x| x.stops.iter()).flat_map(|s| s.activities().iter()).any(|a| a.activity_type == t);
        for (name, present) in [
            ("multi_task_job_assigned", multi_task),
            ("multi_place_or_window_job_assigned", multi_place),
            ("places_of_a_task_share_location", shared_location),
            ("break_assigned", has("break")),
            ("reload_assigned", has("reload")),
            ("has_unassigned", solution.unassigned.as_ref().is_some_and(|u| !u.is_empty())),
            ("multi_tour", solution.tours.len() > 1),
            ("second_shift_used", solution.tours.iter().any(|t| t.shift_index > 0)),
        ] { if present { stats.class(&format!("init.{name}")); } }
        stats.class("init.round_trips");
        if multi_task || multi_place { stats.class("init.nontrivial"); stats.nontrivial(hash_of(&format!("{c:?}"))); }
        stats.sample(1, || json!({"kind": "rt_solved_init", "features": r.info.features, "jobs": r.problem.plan.jobs.len(), "tours": solution.tours.len(), "assigned": assigned.len()}));
        Ok(())
    }
}

// ---------------------------------------------------------------------------------------------
// sub-check (d): CSV import
// ---------------------------------------------------------------------------------------------

#[derive(Clone, Debug, Serialize, Deserialize)]
pub struct CsvJob {
    /// 0 delivery, 1 pickup, 2 service, 3 pickup + delivery rows sharing the id
    pub kind: u8,
    pub at: [(i32, i32); 2],
    pub demand: u8,
    pub duration: u16,
    pub window: Option<(u16, u16)>,
    /// second row of a pair is written at the end of the table instead of right after the first
    pub split: bool,
}

#[derive(Clone, Debug, Serialize, Deserialize)]
pub struct CsvVehicle { pub at: (i32, i32), pub capacity: u16, pub start: u16, pub length: u16, pub amount: u8, pub profile: u8, }

#[derive(Clone, Debug, Serialize, Deserialize)]
pub struct CsvCase { pub jobs: Vec<CsvJob>, pub vehicles: Vec<CsvVehicle>, pub leading_blank_line: bool, }

pub struct CsvProp;

struct JobRow { id: String, lat: f64, lng: f64, demand: i32, duration: usize, window: Option<(String, String)>, }

fn degrees(v: (i32, i32)) -> (f64, f64) { (v.0 as f64 / 1e5, v.1 as f64 / 1e5) }

fn same_coord(l: &ApiLocation, lat: f64, lng: f64) -> bool {
    matches!(l, ApiLocation::Coordinate { lat: a, lng: b } if (ulp_key(*a) - ulp_key(lat)).abs() <= 1 && (ulp_key(*b) - ulp_key(lng)).abs() <= 1)
}

impl Prop for CsvProp {
    type Case = CsvCase;
    fn name(&self) -> &'static str { "rt_csv_import" }
    fn strategy(&self, _tier: Tier) -> BoxedStrategy<CsvCase> {
        let at = || (-8_000_000i32..8_000_000, -17_000_000i32..17_000_000);
        let job = (0u8..4, [at(), at()], 1u8..20, prop_oneof![Just(0u16), 1u16..900], prop::option::weighted(0.5, (0u16..20_000, 0u16..20_000)), any::<bool>())
            .prop_map(|(kind, at, demand, duration, window, split)| CsvJob { kind, at, demand, duration, window, split });
        let vehicle = (at(), 1u16..200, 0u16..10_000, 0u16..40_000, 1u8..5, 0u8..3).prop_map(|(at, capacity, start, length, amount, profile)| CsvVehicle { at, capacity, start, length, amount, profile });
        (prop::collection::vec(job, 1..8), prop::collection::vec(vehicle, 1..4), any::<bool>()).prop_map(|(jobs, vehicles, leading_blank_line)| CsvCase { jobs, vehicles, leading_blank_line }).boxed()
    }
    fn cases(&self, tier: Tier) -> u32 { tier.pick(2_400, 120_000) }
    fn shards(&self, _tier: Tier) -> u32 { 16 }
    fn check(&self, c: &CsvCase, stats: &Stats) -> Check {
        const PROFILES: [&str; 3] = ["car", "truck", "bike"];
        let (mut rows, mut tail): (Vec<JobRow>, Vec<JobRow>) = (vec![], vec![]);
        for (i, j) in c.jobs.iter().enumerate() {
            let window = j.window.map(|(a, l)| (fmt_time(T0 + a as i64), fmt_time(T0 + a as i64 + l as i64)));
            let row = |k: usize, demand: i32| { let (lat, lng) = degrees(j.at[k]); JobRow { id: format!("job{i}"), lat, lng, demand, duration: j.duration as usize + k, window: window.clone() } };
            match j.kind {
                0 => rows.push(row(0, -(j.demand as i32))),
                1 => rows.push(row(0, j.demand as i32)),
                2 => rows.push(row(0, 0)),
                _ => { rows.push(row(0, j.demand as i32)); if j.split { tail.push(row(1, -(j.demand as i32))) } else { rows.push(row(1, -(j.demand as i32))) } }
            }
        }
        rows.append(&mut tail);
        let lead = if c.leading_blank_line { "\n" } else { "" };
        let jobs_csv = rows.iter().fold(format!("{lead}ID,LAT,LNG,DEMAND,DURATION,TW_START,TW_END\n"), |acc, r| {
            let (a, b) = r.window.clone().unwrap_or_default();
            format!("{acc}{},{},{},{},{},{a},{b}\n", r.id, r.lat, r.lng, r.demand, r.duration)
        });
        let shift = |v: &CsvVehicle| (fmt_time(T0 + v.start as i64), fmt_time(T0 + v.start as i64 + v.length as i64));
        let vehicles_csv = c.vehicles.iter().enumerate().fold(format!("{lead}ID,LAT,LNG,CAPACITY,TW_START,TW_END,AMOUNT,PROFILE\n"), |acc, (i, v)| {
            let ((lat, lng), (a, b)) = (degrees(v.at), shift(v));
            format!("{acc}vehicle{i},{lat},{lng},{},{a},{b},{},{}\n", v.capacity, v.amount, PROFILES[v.profile as usize % 3])
        });
        let tables = format!("--- jobs.csv:\n{jobs_csv}--- vehicles.csv:\n{vehicles_csv}");
        let problem = match guard(|| import_problem("csv", Some(vec![BufReader::new(jobs_csv.as_bytes()), BufReader::new(vehicles_csv.as_bytes())]))) {
            Ok(Ok(p)) => p,
            Ok(Err(e)) => return Err(Failure::new("csv:import-rejected", format!("documented tables rejected: {e}\n{tables}"))),
            Err(p) => return Err(Failure::new(format!("csv:import-panic:{}", panic_site(&p)), format!("csv import panicked: {p}\n{tables}"))),
        };
        let doc = || format!("{tables}--- imported:\n{}", serde_json::to_string(&problem).unwrap_or_default());
        // jobs: every row is found again as one task of the right kind
        let ids: BTreeSet<&String> = rows.iter().map(|r| &r.id).collect();
        let imported: Vec<&String> = problem.plan.jobs.iter().map(|j| &j.id).collect();
        ensure!(imported.len() == ids.len() && imported.iter().all(|i| ids.contains(i)), "csv:job-ids", "job ids {imported:?} differ from the table's {ids:?}\n{}", doc());
        for job in problem.plan.jobs.iter() {
            let none = vec![];
            for (kind, tasks, sign) in [("pickup", &job.pickups, 1), ("delivery", &job.deliveries, -1), ("service", &job.services, 0)] {
                let tasks = tasks.as_ref().unwrap_or(&none);
                let mine = rows.iter().filter(|r| r.id == job.id && r.demand.signum() == sign).collect::<Vec<_>>();
                ensure!(tasks.len() == mine.len(), "csv:task-kind-by-sign", "job {}: {} {kind} task(s) for {} row(s) with demand sign {sign}\n{}", job.id, tasks.len(), mine.len(), doc());
                let mut used = vec![false; tasks.len()];
                for r in mine {
                    let times = r.window.as_ref().map(|(a, b)| vec![vec![a.clone(), b.clone()]]);
                    let demand = (r.demand != 0).then(|| vec![r.demand.abs()]);
                    let found = tasks.iter().enumerate().position(|(k, t)| !used[k] && t.places.len() == 1 && same_coord(&t.places[0].location, r.lat, r.lng) && t.places[0].duration == r.duration as f64 && t.places[0].times == times && t.demand == demand);
                    ensure!(found.is_some(), "csv:job-row-not-found", "job {}: row (lat {}, lng {}, demand {}, duration {}, window {:?}) has no matching {kind} task\n{}", job.id, r.lat, r.lng, r.demand, r.duration, r.window, doc());
                    used[found.unwrap()] = true;
                }
            }
            ensure!(job.replacements.as_ref().is_none_or(|t| t.is_empty()), "csv:unexpected-replacement", "job {} got replacement tasks\n{}", job.id, doc());
        }
        // vehicles: every cell is found again
        ensure!(problem.fleet.vehicles.len() == c.vehicles.len(), "csv:vehicle-types", "{} vehicle types for {} rows\n{}", problem.fleet.vehicles.len(), c.vehicles.len(), doc());
        for (i, v) in c.vehicles.iter().enumerate() {
            let id = format!("vehicle{i}");
            let ((lat, lng), (a, b)) = (degrees(v.at), shift(v));
            let t = problem.fleet.vehicles.iter().find(|t| t.type_id == id);
            ensure!(t.is_some(), "csv:vehicle-type-id", "vehicle type {id} not found\n{}", doc());
            let t = t.unwrap();
            let ok = t.capacity == vec![v.capacity as i32]
                && t.profile.matrix == PROFILES[v.profile as usize % 3]
                && t.vehicle_ids.len() == v.amount as usize
                && t.shifts.len() == 1
                && t.shifts[0].start.earliest == a
                && same_coord(&t.shifts[0].start.location, lat, lng)
                && t.shifts[0].end.as_ref().is_some_and(|e| e.latest == b && same_coord(&e.location, lat, lng));
            ensure!(ok, "csv:vehicle-row-not-found", "vehicle type {id}: capacity/profile/amount/shift/depot differ from the row\n{}", doc());
        }
        let used_profiles: BTreeSet<&str> = c.vehicles.iter().map(|v| PROFILES[v.profile as usize % 3]).collect();
        let fleet_profiles: BTreeSet<&str> = problem.fleet.profiles.iter().map(|p| p.name.as_str()).collect();
        ensure!(used_profiles == fleet_profiles && problem.fleet.profiles.len() == fleet_profiles.len(), "csv:profiles", "fleet profiles {fleet_profiles:?} vs the table's {used_profiles:?}\n{}", doc());
        // amount => that many distinct vehicles; the imported problem is valid
        let shared_profile = used_profiles.len() < c.vehicles.len();
        let excluded = shared_profile && known_open(P, "csv:duplicate-vehicle-ids");
        if excluded {
            stats.known_hit("csv:duplicate-vehicle-ids");
        } else {
            let distinct: BTreeSet<&String> = problem.fleet.vehicles.iter().flat_map(|t| t.vehicle_ids.iter()).collect();
            let amount: usize = c.vehicles.iter().map(|v| v.amount as usize).sum();
            ensure!(distinct.len() == amount, "csv:duplicate-vehicle-ids", "AMOUNT columns sum to {amount} vehicles but the imported fleet has {} distinct vehicle ids\n{}", distinct.len(), doc());
            match guard(|| problem.clone().read_pragmatic()) {
                Ok(Ok(_)) => {}
                Ok(Err(e)) => {
                    let codes = e.errors.iter().map(|x| x.code.clone()).collect::<Vec<_>>().join("+");
                    return Err(Failure::new(format!("csv:imported-problem-invalid:{codes}"), format!("imported problem fails validation: {e}\n{}", doc())));
                }
                Err(p) => return Err(Failure::new(format!("csv:read-panic:{}", panic_site(&p)), format!("reading the imported problem panicked: {p}\n{}", doc()))),
            }
            stats.class("csv.validated");
        }
        stats.eval();
        let pair = c.jobs.iter().any(|j| j.kind == 3);
        for (name, present) in [
            ("pickup_delivery_pair", pair),
            ("pair_rows_not_adjacent", c.jobs.iter().any(|j| j.kind == 3 && j.split) && c.jobs.len() > 1),
            ("service_zero_demand", c.jobs.iter().any(|j| j.kind == 2)),
            ("job_without_window", c.jobs.iter().any(|j| j.window.is_none())),
            ("job_with_window", c.jobs.iter().any(|j| j.window.is_some())),
            ("types_share_profile", shared_profile),
            ("distinct_profiles", used_profiles.len() > 1),
            ("amount_above_one", c.vehicles.iter().any(|v| v.amount > 1)),
        ] { if present { stats.class(&format!("csv.{name}")); } }
        if pair && c.vehicles.len() > 1 { stats.class("csv.nontrivial"); stats.nontrivial(hash_of(&format!("{c:?}"))); }
        stats.sample(1, || json!({"kind": "rt_csv_import", "jobs_csv": jobs_csv, "vehicles_csv": vehicles_csv}));
        Ok(())
    }
}

// ---------------------------------------------------------------------------------------------
// sub-check (e): raw JSON spellings / structural mutations of problem documents
// ---------------------------------------------------------------------------------------------

#[derive(Clone, Debug, Serialize, Deserialize)]
pub struct Mutation {
    /// 0 drop member, 1 duplicate member, 2 reverse members, 3 rotate members, 4 respell number,
    /// 5 \u-escape string value, 6 \u-escape member key, 7 member value -> null, 8 extra whitespace
    pub kind: u8,
    pub target: u16,
    pub variant: u8,
}

#[derive(Clone, Debug, Serialize, Deserialize)]
pub struct RawCase { pub base: Stream, pub mutations: Vec<Mutation>, }

pub struct RawJsonProp;

/// counters: [objects, members, numbers, strings]
fn count_nodes(v: &Value, c: &mut [usize; 4]) {
    match v {
        Value::Object(o) => { c[0] += 1; c[1] += o.len(); o.values().for_each(|x| count_nodes(x, c)); }
        Value::Array(a) => a.iter().for_each(|x| count_nodes(x, c)),
        Value::Number(_) => c[2] += 1,
        Value::String(_) => c[3] += 1,
        _ => {}
    }
}

fn escape_all(s: &str) -> String { format!("\"{}\"", s.encode_utf16().map(|u| format!("\\u{u:04x}")).collect::<String>()) }

fn respell(r: &str, variant: u8) -> String {
    let has_exp = r.contains(['e', 'E']);
    let plain_int = !has_exp && !r.contains('.');
    match variant % 6 {
        0 if plain_int => format!("{r}.0"),
        1 if !has_exp => format!("{r}e0"),
        2 if !has_exp => format!("{r}E+0"),
        3 if !plain_int && !has_exp => format!("{r}000"),
        4 if plain_int && r.trim_start_matches('-') != "0" => format!("{r}0e-1"),
        5 if plain_int && r.ends_with("00") => format!("{}e2", &r[..r.len() - 2]),
        _ => r.to_string(),
    }
}

struct Emitter {
    /// (kind, resolved node index, variant)
    targets: Vec<(u8, usize, u8)>,
    c: [usize; 4],
    applied: BTreeSet<u8>,
    whitespace: bool,
}

impl Emitter {
    fn hit(&mut self, kind: u8, idx: usize) -> Option<u8> { let v = self.targets.iter().find(|t| t.0 == kind && t.1 == idx).map(|t| t.2); if v.is_some() { self.applied.insert(kind); } v }
    fn ws(&self, out: &mut String) { if self.whitespace { out.push_str(" \n\t\r "); } }
    fn emit(&mut self, v: &Value, out: &mut String) {
        match v {
            Value::Object(o) => {
                let oi = self.c[0];
                self.c[0] += 1;
                // members are numbered in document order, so number before reordering
                let mut items = o.iter().map(|(k, x)| { let mi = self.c[1]; self.c[1] += 1; let mut val = String::new(); self.emit(x, &mut val); (mi, k, val) }).collect::<Vec<_>>();
                if self.hit(2, oi).is_some() { items.reverse(); }
                if let Some(k) = self.hit(3, oi) { if !items.is_empty() { let n = items.len(); items.rotate_left((1 + k as usize) % n); } }
                out.push('{');
                let mut first = true;
                for (mi, k, val) in items {
                    if self.hit(0, mi).is_some() { continue; }
                    let copies = if self.hit(1, mi).is_some() { 2 } else { 1 };
                    let val = if self.hit(7, mi).is_some() { "null".to_string() } else { val };
                    let key = if self.hit(6, mi).is_some() { escape_all(k) } else { Value::String(k.clone()).to_string() };
                    for _ in 0..copies { if !first { out.push(','); } first = false; self.ws(out); out.push_str(&key); self.ws(out); out.push(':'); out.push_str(&val); }
                }
                out.push('}');
            }
            Value::Array(a) => { out.push('['); for (i, x) in a.iter().enumerate() { if i > 0 { out.push(','); } self.ws(out); self.emit(x, out); } out.push(']'); }
            Value::Number(n) => { let ni = self.c[2]; self.c[2] += 1; let r = n.to_string(); out.push_str(&match self.hit(4, ni) { Some(variant) => respell(&r, variant), None => r, }); }
            Value::String(s) => { let si = self.c[3]; self.c[3] += 1; out.push_str(&if self.hit(5, si).is_some() { escape_all(s) } else { v.to_string() }); }
            other => out.push_str(&other.to_string()),
        }
    }
}

impl Prop for RawJsonProp {
    type Case = RawCase;
    fn name(&self) -> &'static str { "rt_raw_json" }
    fn strategy(&self, _tier: Tier) -> BoxedStrategy<RawCase> {
        let m = (0u8..9, any::<u16>(), any::<u8>()).prop_map(|(kind, target, variant)| Mutation { kind, target, variant });
        (stream(120), prop::collection::vec(m, 1..5)).prop_map(|(base, mutations)| RawCase { base, mutations }).boxed()
    }
    fn cases(&self, tier: Tier) -> u32 { tier.pick(6_000, 300_000) }
    fn shards(&self, _tier: Tier) -> u32 { 16 }
    fn check(&self, c: &RawCase, stats: &Stats) -> Check {
        let (problem, _) = b_problem(&mut Src::new(&c.base));
        let text = ser_problem(&problem).map_err(|e| Failure::new("raw_json:serialize-failed", e))?;
        let tree: Value = serde_json::from_str(&text).map_err(|e| Failure::new("raw_json:written-text-not-json", format!("{e}\n{text}")))?;
        let mut totals = [0usize; 4];
        count_nodes(&tree, &mut totals);
        let total_of = |kind: u8| match kind { 2 | 3 => totals[0], 4 => totals[2], 5 => totals[3], _ => totals[1], };
        let targets = c.mutations.iter().map(|m| (m.kind, pick_idx(m.target, total_of(m.kind)), m.variant)).collect();
        let mut e = Emitter { targets, c: [0; 4], applied: BTreeSet::new(), whitespace: c.mutations.iter().any(|m| m.kind == 8) };
        let mut raw = String::new();
        e.emit(&tree, &mut raw);
        if e.whitespace { e.applied.insert(8); }
        let preserving = !e.applied.is_empty() && e.applied.iter().all(|k| matches!(k, 2 | 3 | 5 | 6 | 8));
        let parsed = parse_guarded("raw_json", "a raw document", &raw, &de_problem)?;
        stats.eval();
        for k in e.applied.iter() {
            stats.class(&format!("raw_json.mutation.{}", ["drop_member", "duplicate_member", "reverse_members", "rotate_members", "number_spelling", "escaped_string", "escaped_key", "null_member", "whitespace"][*k as usize]));
        }
        match parsed {
            Err(_) => {
                stats.class("raw_json.rejected");
                if preserving { stats.class("raw_json.unspecified.meaning_preserving_spelling_rejected"); }
                if e.applied.iter().all(|k| *k == 4) && !e.applied.is_empty() { stats.class("raw_json.number_spelling_only.rejected"); }
            }
            Ok(p) => {
                // anything accepted must obey the law from there on
                law("raw_json", &p, &ser_problem, &de_problem, stats).map_err(|f| Failure::new(f.signature, format!("{}\n--- raw input:\n{raw}", f.message)))?;
                stats.class("raw_json.accepted");
                let same = diff(&serde_json::to_value(&problem).unwrap_or(Value::Null), &serde_json::to_value(&p).unwrap_or(Value::Null), false, 16, "").is_none();
                if preserving { stats.class(if same { "raw_json.meaning_preserving_spelling.same_value" } else { "raw_json.unspecified.meaning_preserving_spelling_changed_value" }); }
                if e.applied.iter().all(|k| *k == 4) && !e.applied.is_empty() {
                    stats.class(if same { "raw_json.number_spelling_only.accepted_same_value" } else { "raw_json.number_spelling_only.accepted_other_value" });
                }
                if !e.applied.is_empty() { stats.class("raw_json.nontrivial"); stats.nontrivial(hash_of(&raw)); }
                stats.sample(1, || json!({"kind": "rt_raw_json", "mutations": e.applied, "raw": raw.chars().take(600).collect::<String>()}));
            }
        }
        Ok(())
    }
}

pub fn property(_tier: Tier) -> PropertyDef {
    PropertyDef {
        id: "C11",
        level: "exploration",
        rule: "proptest, six sub-checks. rt_problem_full: 'every optional field' generator builds vrp_pragmatic Problem and Matrix model values from a choice stream (each Option toggled independently; every variant of Location coordinate/reference/custom, VehicleBreak optional/required, optional break time window/offset incl. empty and 3-element lists, required break time exact/offset, clustering serving/visiting, all 17 objective types incl. multi-objective sum/weighted-sum, relations, resources, recharges; floats from a pool {integers, decimals, 1e-7, 1e15, 1e16, 1e21-1e23, 0.1+0.2, subnormal/min/max, 2^53 neighbours, -0.0} or arbitrary finite bit patterns or decimal m/10^e; strings incl. empty, quotes, backslash, control, non-BMP; integers incl. MIN/MAX) - documents need not be valid. Oracle: ser(parse(ser(d))) == ser(d) as JSON trees with numbers equal up to 1 ULP, parse(ser(d)) == d field by field (serde_json::to_value of both), every field the generator set is present in ser(d) under its documented name with its value (independently rendered expectation tree; null member == absent member), input aliases shiftTime/durations parse to the same value. rt_problem_pgen: the same law on valid pgen problems and their matrices. rt_solution_doc: directly generated Solution values (point and transit stops, parking, commute forward/backward, violations, unassigned details, extras.metrics, extras.features) under the same law + expectation tree. rt_solved_init: pgen problem solved (1-5 generations, optional telemetry/geojson extras); the written text equals ser(parse(text)), obeys the law, and read_init_solution(text, same core problem) returns Ok with, per (vehicle id, shift index), the same sequence of customer activities (job id, tag of the place index used, location) and the same unassigned customer id set; breaks/reloads/times not compared. rt_csv_import: jobs table (delivery/pickup/service by demand sign, pickup+delivery rows sharing an id, adjacent or not) and vehicles table (1-3 types, shared or distinct profiles, amount 1-4) through import_problem(\"csv\"): every cell found again, sum of AMOUNT == number of distinct vehicle ids, imported problem passes read_pragmatic. rt_raw_json: serialised full-generator problems re-emitted with 1-4 mutations (drop/duplicate/null member, reverse/rotate members, number respelling 5 -> 5.0/5e0/5E+0/50e-1/1e2, \\u-escaped strings/keys, whitespace); whatever deserialize_problem accepts must obey the law. Non-trivial: document with >=3 optional fields set or an untagged-enum value; init round trip with an assigned multi-task job or an assigned job with >=2 places/windows; CSV case with a pickup+delivery pair and >=2 vehicle types; accepted mutated raw document. Distinct by case hash.",
        assumptions: vec![
            "1 ULP number tolerance ('to the last but one bit'): serde_json is built without float_roundtrip",
            "an object member written as null is treated as equal to an absent member (the docs show neither); counted in *.unspecified.none_written_as_null",
            "compact-tour's field spelling (docs: options.jobRadius, model: job_radius) and whether meaning-preserving JSON respellings are accepted are counted, not asserted",
            "field names of extras.metrics are taken from the baseline model (undocumented block)",
            "init round trip is restricted to what the reader documents as supported: pgen generates no required breaks and no clustering; every place has a unique tag",
            "CSV tables follow docs/src/getting-started/import.md: unique type ids, AMOUNT >= 1, both or none of TW_START/TW_END, pickup+delivery rows of one id with equal |DEMAND|",
        ],
        props: vec![Box::new(FullProblemProp), Box::new(PgenProblemProp), Box::new(SolutionDocProp), Box::new(SolvedProp), Box::new(CsvProp), Box::new(RawJsonProp)],
        extra: None,
        required_classes: vec![
            "problem_doc.nontrivial",
            "problem_doc.with.clustering",
            "problem_doc.with.break_optional",
            "problem_doc.with.break_required",
            "problem_doc.with.recharges",
            "problem_doc.with.multi_objective",
            "problem_doc.alias.shiftTime",
            "matrix_doc.alias.durations",
            "pgen_doc.nontrivial",
            "solution_doc.with.transit_stop",
            "solution_doc.with.commute",
            "solution_doc.with.parking",
            "solution_doc.with.violations",
            "solution_doc.with.metrics",
            "solved_doc.with.metrics",
            "init.nontrivial",
            "init.multi_task_job_assigned",
            "init.multi_place_or_window_job_assigned",
            "init.break_assigned",
            "init.reload_assigned",
            "init.has_unassigned",
            "csv.nontrivial",
            "csv.pair_rows_not_adjacent",
            "csv.service_zero_demand",
            "csv.distinct_profiles",
            "raw_json.accepted",
            "raw_json.rejected",
            "raw_json.meaning_preserving_spelling.same_value",
            "raw_json.number_spelling_only.accepted_same_value",
        ],
    }
}
