//! C16: routing-cost providers return exactly the supplied data.

use super::common::*;
use crate::fw::*;
use proptest::prelude::*;
use serde::{Deserialize, Serialize};
use serde_json::json;
use std::sync::Arc;
use vrp_core::models::common::*;
use vrp_core::models::problem::*;
use vrp_core::models::solution::{Route, Tour};
use vrp_pragmatic::format::Location as ApiLocation;
use vrp_pragmatic::format::problem as api;
use vrp_pragmatic::format::problem::PragmaticProblem;

// ---------------------------------------------------------------------------------------------
// core-level: create_matrix_transport_cost
// ---------------------------------------------------------------------------------------------

#[derive(Clone, Debug, Serialize, Deserialize)]
pub struct MatrixSpec {
    pub profile: u8,
    /// None for time-agnostic
    pub timestamp: Option<u32>,
    /// salt making every matrix distinct
    pub salt: u16,
}

#[derive(Clone, Debug, Serialize, Deserialize)]
pub struct Query {
    pub profile: u16,
    pub from: u16,
    pub to: u16,
    /// time as (base timestamp selector, offset in quarter units, can be negative)
    pub t_sel: u16,
    pub t_off: i32,
    pub arrival: bool,
    pub scale_sel: u8,
}

#[derive(Clone, Debug, Serialize, Deserialize)]
pub struct CoreCase {
    pub size: u8,
    pub matrices: Vec<MatrixSpec>,
    /// permutation seed for the order in which matrices are passed
    pub order: Vec<u16>,
    pub queries: Vec<Query>,
}

pub struct CoreProp {
    pub time_aware: bool,
}

const SCALES: [f64; 4] = [1.0, 0.5, 1.7, 2.0];

/// value encoding (matrix salt, from, to, kind) so that any index mix-up is visible
fn dur_value(salt: u16, from: usize, to: usize) -> f64 {
    (10_000 + salt as usize * 257 + from * 17 + to * 3) as f64
}
fn dist_value(salt: u16, from: usize, to: usize) -> f64 {
    (500_000 + salt as usize * 131 + from * 29 + to * 7) as f64
}

fn make_route(profile: usize, scale: f64) -> Route {
    let mut v = (*simple_vehicle("v", profile, 0, None)).clone();
    v.profile = Profile::new(profile, Some(scale));
    let fleet = Fleet::new(vec![empty_driver()], vec![Arc::new(v)], |_| |_| 0);
    let actor = fleet.actors[0].clone();
    Route { tour: Tour::new(&actor), actor }
}

fn matrix_data(m: &MatrixSpec, n: usize) -> MatrixData {
    let mut durations = Vec::with_capacity(n * n);
    let mut distances = Vec::with_capacity(n * n);
    for from in 0..n {
        for to in 0..n {
            durations.push(dur_value(m.salt, from, to));
            distances.push(dist_value(m.salt, from, to));
        }
    }
    MatrixData::new(m.profile as usize, m.timestamp.map(|t| t as f64), durations, distances)
}

fn permute<T: Clone>(items: &[T], order: &[u16]) -> Vec<T> {
    let mut rest = items.to_vec();
    let mut out = vec![];
    let mut i = 0;
    while !rest.is_empty() {
        let k = pick_idx(order.get(i).copied().unwrap_or(0), rest.len());
        out.push(rest.remove(k));
        i += 1;
    }
    out
}

impl Prop for CoreProp {
    type Case = CoreCase;
    fn name(&self) -> &'static str {
        if self.time_aware { "matrix_time_aware" } else { "matrix_time_agnostic" }
    }
    fn strategy(&self, _tier: Tier) -> BoxedStrategy<CoreCase> {
        let time_aware = self.time_aware;
        (1u8..=7, 1u8..=3)
            .prop_flat_map(move |(size, profiles)| {
                let matrices: BoxedStrategy<Vec<MatrixSpec>> = if time_aware {
                    // 2-4 distinct integer timestamps per profile
                    prop::collection::vec(prop::collection::btree_set(0u32..2000, 2..=4), profiles as usize)
                        .prop_flat_map(|per_profile| {
                            let total: usize = per_profile.iter().map(|s| s.len()).sum();
                            (Just(per_profile), prop::collection::vec(any::<u16>(), total))
                        })
                        .prop_map(|(per_profile, salts)| {
                            let mut out = vec![];
                            let mut k = 0;
                            for (p, set) in per_profile.iter().enumerate() {
                                for t in set {
                                    out.push(MatrixSpec { profile: p as u8, timestamp: Some(*t), salt: (salts[k] % 200) + (k as u16) * 200 });
                                    k += 1;
                                }
                            }
                            out
                        })
                        .boxed()
                } else {
                    prop::collection::vec(any::<u16>(), profiles as usize)
                        .prop_map(|salts| {
                            salts.iter().enumerate().map(|(p, s)| MatrixSpec { profile: p as u8, timestamp: None, salt: (s % 200) + (p as u16) * 200 }).collect()
                        })
                        .boxed()
                };
                let query = (any::<u16>(), any::<u16>(), any::<u16>(), any::<u16>(), -12i32..=12, any::<bool>(), 0u8..4)
                    .prop_map(|(profile, from, to, t_sel, t_off, arrival, scale_sel)| Query { profile, from, to, t_sel, t_off, arrival, scale_sel });
                (Just(size), matrices, prop::collection::vec(any::<u16>(), 0..12), prop::collection::vec(query, 1..50))
            })
            .prop_map(|(size, matrices, order, queries)| CoreCase { size, matrices, order, queries })
            .boxed()
    }
    fn cases(&self, tier: Tier) -> u32 {
        tier.pick(3_000, 120_000)
    }
    fn check(&self, case: &CoreCase, stats: &Stats) -> Check {
        let n = case.size as usize;
        let passed = permute(&case.matrices, &case.order);
        let data = passed.iter().map(|m| matrix_data(m, n)).collect::<Vec<_>>();
        let transport = match create_matrix_transport_cost(data) {
            Ok(t) => t,
            Err(e) => return Err(Failure::new("matrix:valid-set-rejected", format!("consistent matrix set rejected: {e}; matrices {:?}", passed))),
        };
        ensure!(transport.size() == n, "matrix:size", "size() = {} for {n}x{n} matrices", transport.size());
        let profiles = case.matrices.iter().map(|m| m.profile as usize).max().unwrap_or(0) + 1;
        let mut nontrivial = false;
        for q in case.queries.iter() {
            let p = pick_idx(q.profile, profiles);
            let (from, to) = (pick_idx(q.from, n), pick_idx(q.to, n));
            let scale = SCALES[q.scale_sel as usize % 4];
            let route = make_route(p, scale);
            let mut own = case.matrices.iter().filter(|m| m.profile as usize == p).collect::<Vec<_>>();
            own.sort_by_key(|m| m.timestamp);
            let (exp_dur, exp_dist, t, between): (f64, f64, f64, bool) = if self.time_aware {
                let base = own[pick_idx(q.t_sel, own.len())].timestamp.unwrap() as f64;
                let t = (base + q.t_off as f64 * 0.25 * if q.t_off % 5 == 0 { 40. } else { 1. }).max(0.);
                let first = own.first().unwrap();
                let last = own.last().unwrap();
                if let Some(m) = own.iter().find(|m| m.timestamp.unwrap() as f64 == t) {
                    (dur_value(m.salt, from, to), dist_value(m.salt, from, to), t, false)
                } else if t < first.timestamp.unwrap() as f64 {
                    (dur_value(first.salt, from, to), dist_value(first.salt, from, to), t, false)
                } else if t > last.timestamp.unwrap() as f64 {
                    (dur_value(last.salt, from, to), dist_value(last.salt, from, to), t, false)
                } else {
                    let right_i = own.iter().position(|m| m.timestamp.unwrap() as f64 > t).unwrap();
                    let (l, r) = (own[right_i - 1], own[right_i]);
                    let (tl, tr) = (l.timestamp.unwrap() as f64, r.timestamp.unwrap() as f64);
                    let (dl, dr) = (dur_value(l.salt, from, to), dur_value(r.salt, from, to));
                    (dl + (t - tl) / (tr - tl) * (dr - dl), dist_value(l.salt, from, to), t, true)
                }
            } else {
                let m = own[0];
                (dur_value(m.salt, from, to), dist_value(m.salt, from, to), (q.t_off as f64).abs() * 10., false)
            };
            let tt = if q.arrival { TravelTime::Arrival(t) } else { TravelTime::Departure(t) };
            let dur = transport.duration(&route, from, to, tt);
            let dist = transport.distance(&route, from, to, tt);
            // A fractional query time that truncates onto a matrix timestamp: the statement only
            // requires a value between the bracketing matrices there.
            let truncates_onto = self.time_aware && between && own.iter().any(|m| m.timestamp.unwrap() as f64 == t.floor());
            if truncates_onto {
                let right_i = own.iter().position(|m| m.timestamp.unwrap() as f64 > t).unwrap();
                let (dl, dr) = (dur_value(own[right_i - 1].salt, from, to) * scale, dur_value(own[right_i].salt, from, to) * scale);
                let (lo, hi) = (dl.min(dr), dl.max(dr));
                ensure!(dur >= lo - 1e-6 && dur <= hi + 1e-6, "matrix:duration-hull", "duration {dur} outside bracketing hull [{lo},{hi}] at t={t}");
                stats.class("matrix.fractional_on_timestamp");
            } else {
                ensure!((dur - exp_dur * scale).abs() <= 1e-9 * exp_dur.abs().max(1.) * scale.max(1.), "matrix:duration", "duration(profile {p} scale {scale}, {from}->{to}, t={t}) = {dur}, expected {} (matrices passed {:?})", exp_dur * scale, passed);
            }
            ensure!(dist == exp_dist, "matrix:distance", "distance(profile {p} scale {scale}, {from}->{to}, t={t}) = {dist}, expected {exp_dist} unscaled (matrices passed {:?})", passed);
            if !self.time_aware {
                let profile = Profile::new(p, Some(scale));
                ensure!(transport.duration_approx(&profile, from, to) == exp_dur * scale, "matrix:duration-approx", "duration_approx mismatch");
                ensure!(transport.distance_approx(&profile, from, to) == exp_dist, "matrix:distance-approx", "distance_approx mismatch");
            }
            if from != to && (p >= 1 || between) {
                nontrivial = true;
            }
            if between {
                stats.class("matrix.between_timestamps");
            }
            if p >= 1 {
                stats.class("matrix.profile_ge_1");
            }
        }
        stats.evals(case.queries.len() as u64);
        if nontrivial {
            stats.nontrivial(hash_of(&format!("{case:?}")));
        }
        stats.class(if self.time_aware { "matrix.time_aware" } else { "matrix.time_agnostic" });
        stats.sample(1, || json!({"kind": Prop::name(self), "size": n, "matrices": format!("{:?}", passed), "queries": format!("{:?}", &case.queries[..case.queries.len().min(3)])}));
        Ok(())
    }
}

// ---------------------------------------------------------------------------------------------
// inconsistent sets must be rejected at build time
// ---------------------------------------------------------------------------------------------

#[derive(Clone, Debug, Serialize, Deserialize)]
pub enum Inconsistency {
    Empty,
    LengthMismatch,
    DifferentSizes,
    MixedTimestampPresence,
    DuplicateProfileNoTimestamp,
    GappedProfileNoTimestamp,
    SingleTimestampedMatrix,
}

#[derive(Clone, Debug, Serialize, Deserialize)]
pub struct BadCase {
    pub kind: Inconsistency,
    pub size: u8,
    pub profiles: u8,
    pub victim: u16,
    pub order: Vec<u16>,
}

pub struct BadProp;

impl Prop for BadProp {
    type Case = BadCase;
    fn name(&self) -> &'static str {
        "matrix_inconsistent"
    }
    fn strategy(&self, _tier: Tier) -> BoxedStrategy<BadCase> {
        let kind = prop_oneof![
            Just(Inconsistency::Empty),
            Just(Inconsistency::LengthMismatch),
            Just(Inconsistency::DifferentSizes),
            Just(Inconsistency::MixedTimestampPresence),
            Just(Inconsistency::DuplicateProfileNoTimestamp),
            Just(Inconsistency::GappedProfileNoTimestamp),
            Just(Inconsistency::SingleTimestampedMatrix),
        ];
        (kind, 2u8..=6, 1u8..=3, any::<u16>(), prop::collection::vec(any::<u16>(), 0..8))
            .prop_map(|(kind, size, profiles, victim, order)| BadCase { kind, size, profiles, victim, order })
            .boxed()
    }
    fn cases(&self, tier: Tier) -> u32 {
        tier.pick(2_000, 40_000)
    }
    fn check(&self, c: &BadCase, stats: &Stats) -> Check {
        let n = c.size as usize;
        let p = c.profiles as usize;
        let timed = matches!(c.kind, Inconsistency::SingleTimestampedMatrix);
        let mut specs: Vec<MatrixSpec> = if timed {
            (0..p).flat_map(|i| [MatrixSpec { profile: i as u8, timestamp: Some(10), salt: i as u16 }, MatrixSpec { profile: i as u8, timestamp: Some(20), salt: 100 + i as u16 }]).collect()
        } else {
            (0..p).map(|i| MatrixSpec { profile: i as u8, timestamp: None, salt: i as u16 }).collect()
        };
        let v = pick_idx(c.victim, specs.len());
        let mut data: Vec<MatrixData>;
        match c.kind {
            Inconsistency::Empty => {
                data = vec![];
            }
            Inconsistency::LengthMismatch => {
                data = specs.iter().map(|m| matrix_data(m, n)).collect();
                data[v].distances.truncate(n * n - n); // a different square-ish length is not required: lengths differ
            }
            Inconsistency::DifferentSizes => {
                // need >=2 matrices
                if specs.len() < 2 {
                    specs.push(MatrixSpec { profile: 1, timestamp: None, salt: 7 });
                }
                let v = pick_idx(c.victim, specs.len());
                data = specs.iter().enumerate().map(|(i, m)| matrix_data(m, if i == v { n + 1 } else { n })).collect();
            }
            Inconsistency::MixedTimestampPresence => {
                if specs.len() < 2 {
                    specs.push(MatrixSpec { profile: 1, timestamp: None, salt: 7 });
                }
                let v = pick_idx(c.victim, specs.len());
                specs[v].timestamp = Some(100);
                data = specs.iter().map(|m| matrix_data(m, n)).collect();
            }
            Inconsistency::DuplicateProfileNoTimestamp => {
                specs.push(MatrixSpec { profile: specs[v].profile, timestamp: None, salt: 55 });
                data = specs.iter().map(|m| matrix_data(m, n)).collect();
            }
            Inconsistency::GappedProfileNoTimestamp => {
                // shift profile indices from the victim upwards, leaving a gap
                for m in specs.iter_mut() {
                    if m.profile as usize >= v {
                        m.profile += 1;
                    }
                }
                data = specs.iter().map(|m| matrix_data(m, n)).collect();
            }
            Inconsistency::SingleTimestampedMatrix => {
                // remove one of the two matrices of a profile
                specs.remove(v);
                data = specs.iter().map(|m| matrix_data(m, n)).collect();
            }
        }
        let data = {
            // permute order
            let mut idx: Vec<usize> = (0..data.len()).collect();
            idx = permute(&idx, &c.order);
            let mut slots: Vec<Option<MatrixData>> = data.into_iter().map(Some).collect();
            idx.into_iter().map(|i| slots[i].take().unwrap()).collect::<Vec<_>>()
        };
        let res = create_matrix_transport_cost(data);
        ensure!(res.is_err(), format!("matrix:inconsistent-accepted:{:?}", c.kind), "inconsistent matrix set ({:?}, size {n}, profiles {p}, victim {v}) was accepted", c.kind);
        stats.eval();
        stats.nontrivial(hash_of(&format!("{c:?}")));
        stats.class(&format!("bad.{:?}", c.kind));
        Ok(())
    }
}

// ---------------------------------------------------------------------------------------------
// pragmatic level: profile order != matrix order, errorCodes, rejection classes, approximation
// ---------------------------------------------------------------------------------------------

#[derive(Clone, Debug, Serialize, Deserialize)]
pub struct PragCase {
    pub size: u8,
    /// fleet profile names order (indices into NAMES), distinct
    pub profile_names: Vec<u8>,
    /// matrices are passed in this order (permutation seed)
    pub order: Vec<u16>,
    pub with_profile_names: bool,
    pub error_codes: Vec<u16>,
    pub scales: Vec<u8>,
    /// 0 = valid, 1 = mixed profile presence, 2 = fewer matrices than profiles
    pub bad: u8,
}

pub struct PragProp;

const NAMES: [&str; 4] = ["car", "truck", "bike", "van"];

pub fn index_loc(i: usize) -> ApiLocation {
    ApiLocation::Reference { index: i }
}

pub fn simple_api_job(id: &str, loc: ApiLocation) -> api::Job {
    api::Job {
        id: id.to_string(),
        pickups: None,
        deliveries: Some(vec![api::JobTask { places: vec![api::JobPlace { location: loc, duration: 10., times: None, tag: None }], demand: Some(vec![1]), order: None }]),
        replacements: None,
        services: None,
        skills: None,
        value: None,
        group: None,
        compatibility: None,
    }
}

pub fn simple_api_vehicle(type_id: &str, profile: &str, scale: Option<f64>, start: ApiLocation) -> api::VehicleType {
    api::VehicleType {
        type_id: type_id.to_string(),
        vehicle_ids: vec![format!("{type_id}_1")],
        profile: api::VehicleProfile { matrix: profile.to_string(), scale },
        costs: api::VehicleCosts { fixed: Some(10.), distance: 1., time: 1. },
        shifts: vec![api::VehicleShift {
            start: api::ShiftStart { earliest: fmt_time(T0), latest: None, location: start.clone() },
            end: Some(api::ShiftEnd { earliest: None, latest: fmt_time(T0 + 1_000_000), location: start }),
            breaks: None,
            reloads: None,
            recharges: None,
        }],
        capacity: vec![10],
        skills: None,
        limits: None,
    }
}

impl Prop for PragProp {
    type Case = PragCase;
    fn name(&self) -> &'static str {
        "pragmatic_matrices"
    }
    fn strategy(&self, _tier: Tier) -> BoxedStrategy<PragCase> {
        (2u8..=6, Just(vec![0u8, 1, 2, 3]).prop_shuffle(), 1usize..=3, prop::collection::vec(any::<u16>(), 0..6), any::<bool>(), prop::collection::vec(any::<u16>(), 0..5), prop::collection::vec(0u8..4, 3), prop_oneof![8 => Just(0u8), 1 => Just(1u8), 1 => Just(2u8)])
            .prop_map(|(size, names, k, order, with_profile_names, error_codes, scales, bad)| PragCase { size, profile_names: names[..k].to_vec(), order, with_profile_names, error_codes, scales, bad })
            .boxed()
    }
    fn cases(&self, tier: Tier) -> u32 {
        tier.pick(1_500, 40_000)
    }
    fn check(&self, c: &PragCase, stats: &Stats) -> Check {
        let n = c.size as usize;
        let k = c.profile_names.len();
        let names = c.profile_names.iter().map(|i| NAMES[*i as usize]).collect::<Vec<_>>();
        let with_names = c.with_profile_names || c.bad == 1;
        // jobs at 1..n-1, depot 0 -> all n indices used
        let jobs = (1..n).map(|i| simple_api_job(&format!("j{i}"), index_loc(i))).collect::<Vec<_>>();
        let vehicles = names
            .iter()
            .enumerate()
            .map(|(i, name)| simple_api_vehicle(&format!("t{i}"), name, Some(SCALES[c.scales[i % 3] as usize % 4]).filter(|s| *s != 1.0), index_loc(0)))
            .collect::<Vec<_>>();
        let problem = api::Problem {
            plan: api::Plan { jobs, relations: None, clustering: None },
            fleet: api::Fleet { vehicles, profiles: names.iter().map(|n| api::MatrixProfile { name: n.to_string(), speed: None }).collect(), resources: None },
            objectives: None,
        };
        // one matrix per profile; salt = profile position
        let mut matrices = (0..k)
            .map(|p| {
                let salt = p as u16 * 200 + 3;
                let mut tt = vec![];
                let mut dd = vec![];
                for from in 0..n {
                    for to in 0..n {
                        tt.push(dur_value(salt, from, to) as i64);
                        dd.push(dist_value(salt, from, to) as i64);
                    }
                }
                let mut codes = vec![0i64; n * n];
                let mut any_code = false;
                for e in c.error_codes.iter() {
                    let i = pick_idx(*e, n * n);
                    if i / n != i % n && p == (*e as usize) % k {
                        codes[i] = 1;
                        any_code = true;
                    }
                }
                (p, api::Matrix { profile: with_names.then(|| names[p].to_string()), timestamp: None, travel_times: tt, distances: dd, error_codes: any_code.then_some(codes) })
            })
            .collect::<Vec<_>>();
        if with_names {
            matrices = permute(&matrices, &c.order);
        }
        match c.bad {
            1 if k >= 2 => {
                matrices[0].1.profile = None;
            }
            2 if k >= 2 => {
                matrices.pop();
            }
            _ => {}
        }
        let bad = (c.bad == 1 || c.bad == 2) && k >= 2;
        let api_matrices = matrices.iter().map(|(_, m)| m.clone()).collect::<Vec<_>>();
        let res = (problem.clone(), api_matrices).read_pragmatic();
        if bad {
            ensure!(res.is_err(), format!("pragmatic:inconsistent-accepted:{}", c.bad), "inconsistent matrix set (class {}) accepted by the pragmatic reader", c.bad);
            stats.eval();
            stats.class(if c.bad == 1 { "prag.mixed_profile_presence" } else { "prag.fewer_matrices" });
            stats.nontrivial(hash_of(&format!("{c:?}")));
            return Ok(());
        }
        let core = match res {
            Ok(p) => p,
            Err(e) => return Err(Failure::new("pragmatic:valid-rejected", format!("valid problem+matrices rejected: {e}"))),
        };
        let mut saw_unreachable = false;
        for actor in core.fleet.actors.iter() {
            let profile = &actor.vehicle.profile;
            // fleet profile index -> position in names -> matrix of that name
            let p = profile.index;
            ensure!(p < k, "pragmatic:profile-index", "profile index {p} out of range");
            let (mp, m) = matrices.iter().find(|(mp, _)| *mp == p).unwrap();
            let salt = *mp as u16 * 200 + 3;
            let route = Route { tour: Tour::new(actor), actor: actor.clone() };
            for from in 0..n {
                for to in 0..n {
                    let flagged = m.error_codes.as_ref().is_some_and(|codes| codes[from * n + to] > 0);
                    let dur = core.transport.duration(&route, from, to, TravelTime::Departure(0.));
                    let dist = core.transport.distance(&route, from, to, TravelTime::Departure(0.));
                    if flagged {
                        saw_unreachable = true;
                        ensure!(dur < 0. && dist < 0., "pragmatic:unreachable-not-negative", "pair {from}->{to} flagged by errorCodes gives duration {dur} distance {dist}");
                    } else {
                        let exp_dur = dur_value(salt, from, to) * profile.scale;
                        ensure!((dur - exp_dur).abs() < 1e-9 * exp_dur.max(1.), "pragmatic:duration", "duration(profile '{}' idx {p} scale {}, {from}->{to}) = {dur}, expected {exp_dur}", names[p], profile.scale);
                        ensure!(dist == dist_value(salt, from, to), "pragmatic:distance", "distance(profile '{}', {from}->{to}) = {dist}, expected {}", names[p], dist_value(salt, from, to));
                    }
                }
            }
        }
        stats.evals((k * n * n) as u64);
        if k >= 2 {
            stats.nontrivial(hash_of(&format!("{c:?}")));
            stats.class("prag.multi_profile");
        }
        if saw_unreachable {
            stats.class("prag.unreachable");
        }
        if with_names {
            stats.class("prag.named_matrices");
        }
        stats.sample(1, || json!({"kind": "pragmatic_matrices", "profiles": names, "matrix_order": matrices.iter().map(|(p, _)| *p).collect::<Vec<_>>(), "size": n}));
        Ok(())
    }
}

#[derive(Clone, Debug, Serialize, Deserialize)]
pub struct ApproxCase {
    pub coords: Vec<(i16, i16)>,
}

pub struct ApproxProp;

impl Prop for ApproxProp {
    type Case = ApproxCase;
    fn name(&self) -> &'static str {
        "approximation"
    }
    fn strategy(&self, _tier: Tier) -> BoxedStrategy<ApproxCase> {
        prop::collection::vec((-2000i16..2000, -2000i16..2000), 2..9).prop_map(|coords| ApproxCase { coords }).boxed()
    }
    fn cases(&self, tier: Tier) -> u32 {
        tier.pick(600, 20_000)
    }
    fn check(&self, c: &ApproxCase, stats: &Stats) -> Check {
        let loc = |(a, b): (i16, i16)| ApiLocation::Coordinate { lat: 52.0 + a as f64 * 1e-4, lng: 13.0 + b as f64 * 1e-4 };
        let jobs = c.coords.iter().skip(1).enumerate().map(|(i, xy)| simple_api_job(&format!("j{i}"), loc(*xy))).collect::<Vec<_>>();
        let problem = api::Problem {
            plan: api::Plan { jobs, relations: None, clustering: None },
            fleet: api::Fleet { vehicles: vec![simple_api_vehicle("t", "car", None, loc(c.coords[0]))], profiles: vec![api::MatrixProfile { name: "car".into(), speed: None }], resources: None },
            objectives: None,
        };
        let core = match problem.read_pragmatic() {
            Ok(p) => p,
            Err(e) => return Err(Failure::new("approx:valid-rejected", format!("valid coordinate problem rejected: {e}"))),
        };
        let n = core.transport.size();
        let profile = Profile::new(0, None);
        for i in 0..n {
            ensure!(core.transport.distance_approx(&profile, i, i) == 0. && core.transport.duration_approx(&profile, i, i) == 0., "approx:diagonal", "diagonal entry {i} is not zero");
            for j in 0..n {
                let (dij, dji) = (core.transport.distance_approx(&profile, i, j), core.transport.distance_approx(&profile, j, i));
                let (tij, tji) = (core.transport.duration_approx(&profile, i, j), core.transport.duration_approx(&profile, j, i));
                ensure!(dij == dji && tij == tji, "approx:symmetry", "approximation not symmetric for {i},{j}: {dij} vs {dji}, {tij} vs {tji}");
                ensure!(dij >= 0. && tij >= 0. && dij.is_finite(), "approx:negative", "negative/non-finite approximation");
            }
        }
        stats.evals((n * n) as u64);
        if n >= 3 {
            stats.nontrivial(hash_of(&format!("{c:?}")));
        }
        stats.class("approx.checked");
        Ok(())
    }
}

pub fn property(_tier: Tier) -> PropertyDef {
    PropertyDef {
        id: "C16",
        level: "exploration",
        rule: "proptest: matrix sets of size 1-7, 1-3 profiles, values encoding (matrix, from, to), matrices passed in permuted order, scales {1,0.5,1.7,2}, time-aware sets with 2-4 integer timestamps per profile and queries at/between/outside timestamps (fractional times, Departure/Arrival), checked against a direct specification of indexing, scaling, interpolation; 7 classes of inconsistent sets must give Err at build; pragmatic reader with fleet-profile order != matrix order, errorCodes => negative values, mixed profile presence / fewer matrices => Err; coordinate approximation symmetric with zero diagonal. evaluations counts queries. Non-trivial: query with from != to and (profile index >= 1 or strictly-between timestamp); every inconsistent set; multi-profile pragmatic set. Distinct by case hash.",
        assumptions: vec![
            "matrix timestamps are whole seconds (the provider truncates timestamps to u64; fractional matrix timestamps are outside the documented format, which uses RFC3339 seconds)",
            "queries only for profiles that have matrices",
            "a fractional query time whose integer part equals a matrix timestamp is only required to lie within the hull of the bracketing matrices",
        ],
        props: vec![Box::new(CoreProp { time_aware: false }), Box::new(CoreProp { time_aware: true }), Box::new(BadProp), Box::new(PragProp), Box::new(ApproxProp)],
        extra: None,
        required_classes: vec!["matrix.between_timestamps", "matrix.profile_ge_1", "matrix.time_aware", "matrix.time_agnostic", "prag.multi_profile", "prag.unreachable", "prag.named_matrices", "prag.mixed_profile_presence", "prag.fewer_matrices", "approx.checked", "bad.Empty", "bad.LengthMismatch", "bad.DifferentSizes", "bad.MixedTimestampPresence", "bad.DuplicateProfileNoTimestamp", "bad.GappedProfileNoTimestamp", "bad.SingleTimestampedMatrix"],
    }
}
