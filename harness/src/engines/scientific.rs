//! C13: scientific instance files (Solomon, Li&Lim, TSPLIB CVRP/EUC_2D) are read faithfully and the text
//! solution writer / initial solution reader round-trip routes.

use super::common::*;
use crate::fw::*;
use proptest::prelude::*;
use rosomaxa::evolution::TelemetryMode;
use rosomaxa::utils::Parallelism;
use serde::{Deserialize, Serialize};
use serde_json::json;
use std::collections::{HashMap, HashSet};
use std::io::{BufReader, BufWriter};
use std::sync::Arc;
use vrp_core::construction::features::{JobDemandDimension, VehicleCapacityDimension};
use vrp_core::models::common::*;
use vrp_core::models::problem::*;
use vrp_core::models::solution::{Activity, Place as TourPlace, Registry, Route, Tour};
use vrp_core::models::{Problem, Solution};
use vrp_core::solver::{Solver, VrpConfigBuilder};
use vrp_scientific::common::{CoordIndex, CoordIndexExtraProperty, read_init_solution};
use vrp_scientific::lilim::LilimProblem;
use vrp_scientific::solomon::{SolomonProblem, SolomonSolution};
use vrp_scientific::tsplib::{TsplibProblem, TsplibSolution};

const KIND: [&str; 3] = ["solomon", "lilim", "tsplib"];
const ASPECT: [&str; 4] = ["model", "demand", "behaviour", "roundtrip"];
const NAMES: [[&str; 4]; 3] = [
    ["solomon_model", "solomon_demand", "solomon_behaviour", "solomon_roundtrip"],
    ["lilim_model", "lilim_demand", "lilim_behaviour", "lilim_roundtrip"],
    ["tsplib_model", "tsplib_demand", "tsplib_behaviour", "tsplib_roundtrip"],
];
/// TSPLIB files carry no time data: a window is "not binding" when it contains [0, NO_BIND]
/// (any closed route over <= 26 points with |coordinate| <= 100 is shorter than 1e4).
const NO_BIND: f64 = 1e9;
const TIME_TOL: f64 = 1e-6;
const DIST_TOL: f64 = 1e-9;

// ---------------------------------------------------------------------------------------------
// instance model
// ---------------------------------------------------------------------------------------------

#[derive(Clone, Debug, Serialize, Deserialize)]
pub struct Node {
    pub id: u32,
    pub x: i32,
    pub y: i32,
    /// Solomon/TSPLIB: demand >= 0; Li&Lim: +q pickup, -q delivery
    pub demand: i32,
    pub ready: u32,
    pub due: u32,
    pub service: u32,
    /// Li&Lim: id of the sibling task (0 otherwise)
    pub sibling: u32,
    /// ordering key used to build the round trip routes
    pub key: u16,
}

#[derive(Clone, Debug, Serialize, Deserialize)]
pub struct Style {
    /// 0 right-aligned columns (as published), 1 single blank, 2 tab, 3 mixed runs of blanks and tabs
    pub sep: u8,
    pub lead: bool,
    pub trail: bool,
    /// last line terminated by a newline
    pub last_nl: bool,
    /// TSPLIB header: 0 "KEY : value", 1 "KEY: value"
    pub colon: u8,
    /// TSPLIB coordinate spellings (cycled): 0 `28`, 1 `28.0`, 2 `28.00000`, 3 `2.80000e+01`
    pub nums: Vec<u8>,
}

#[derive(Clone, Debug, Serialize, Deserialize)]
pub struct Inst {
    pub kind: u8,
    pub rounded: bool,
    /// Solomon/Li&Lim fleet size (TSPLIB has none)
    pub vehicles: u32,
    pub capacity: u32,
    pub depot: Node,
    /// customers in file order
    pub nodes: Vec<Node>,
    pub style: Style,
    pub gens: u8,
    pub seed: u64,
}

impl Inst {
    fn k(&self) -> &'static str {
        KIND[self.kind as usize]
    }
    /// Li&Lim (pickup index, delivery index) in file order of the pickups.
    fn pairs(&self) -> Vec<(usize, usize)> {
        let pos = |id: u32| self.nodes.iter().position(|n| n.id == id).unwrap();
        self.nodes.iter().enumerate().filter(|(_, n)| n.demand > 0).map(|(i, n)| (i, pos(n.sibling))).collect()
    }
    fn total_demand(&self) -> i64 {
        self.nodes.iter().map(|n| n.demand.max(0) as i64).sum()
    }
}

fn d2(a: (i32, i32), b: (i32, i32)) -> i64 {
    let (dx, dy) = ((a.0 - b.0) as i64, (a.1 - b.1) as i64);
    dx * dx + dy * dy
}

fn isqrt(v: i64) -> i64 {
    let mut r = (v as f64).sqrt() as i64;
    while r * r > v {
        r -= 1;
    }
    while (r + 1) * (r + 1) <= v {
        r += 1;
    }
    r
}

/// Oracle distance: sqrt of the exact integer squared distance; rounded = nearest integer decided in
/// integer arithmetic (sqrt(v) >= r + 0.5 <=> v > r*r + r; a tie is impossible for integer v).
fn dist(a: (i32, i32), b: (i32, i32), rounded: bool) -> f64 {
    let v = d2(a, b);
    if rounded {
        let r = isqrt(v);
        (if v > r * r + r { r + 1 } else { r }) as f64
    } else {
        (v as f64).sqrt()
    }
}

fn ceil_dist(a: (i32, i32), b: (i32, i32)) -> u32 {
    let (v, r) = (d2(a, b), isqrt(d2(a, b)));
    (if r * r < v { r + 1 } else { r }) as u32
}

// ---------------------------------------------------------------------------------------------
// generator (by construction)
// ---------------------------------------------------------------------------------------------

#[derive(Clone, Debug)]
struct RawNode {
    xy: (u16, u16),
    place: u8,
    src: u16,
    dem: u16,
    wmode: u8,
    wpos: u16,
    wwidth: u16,
    smode: u8,
    svc: u8,
    key: u16,
}

fn raw_node() -> impl Strategy<Value = RawNode> {
    (any::<(u16, u16)>(), 0u8..10, any::<u16>(), any::<u16>(), 0u8..6, any::<u16>(), any::<u16>(), 0u8..4, any::<u8>(), any::<u16>())
        .prop_map(|(xy, place, src, dem, wmode, wpos, wwidth, smode, svc, key)| RawNode { xy, place, src, dem, wmode, wpos, wwidth, smode, svc, key })
}

fn style() -> impl Strategy<Value = Style> {
    (0u8..4, any::<bool>(), any::<bool>(), prop::bool::weighted(0.7), 0u8..2, prop::collection::vec(0u8..6, 1..5))
        .prop_map(|(sep, lead, trail, last_nl, colon, nums)| Style { sep, lead, trail, last_nl, colon, nums: nums.into_iter().map(|v| v.saturating_sub(2)).collect() })
}

type GlobalA = ((u16, u16), u8, u32, u8, u16, bool, u16, u8, u8, u8, u16);
type GlobalB = (u8, u16, u8, Style, u8, u64);

fn inst_strategy(kind: u8) -> BoxedStrategy<Inst> {
    let count = if kind == 1 { 4usize..=24 } else { 3usize..=25 };
    let a = (any::<(u16, u16)>(), 0u8..4, 1u32..=200, 0u8..3, any::<u16>(), any::<bool>(), prop_oneof![Just(60u16), Just(300u16), Just(1500u16)], 0u8..4, any::<u8>(), 0u8..5, any::<u16>());
    let b = (0u8..5, any::<u16>(), 0u8..4, style(), 1u8..4, any::<u64>());
    (prop::collection::vec(raw_node(), count), a, b).prop_map(move |(nodes, a, b)| build(kind, nodes, a, b)).boxed()
}

fn build(kind: u8, mut raw: Vec<RawNode>, a: GlobalA, b: GlobalB) -> Inst {
    let ((dx, dy), gclass, capacity, tight, veh, rounded, horizon, r0mode, r0raw, due_mode, due_raw) = a;
    let (idmode, dpos, neg, style, gens, seed) = b;
    if kind == 1 && raw.len() % 2 == 1 {
        raw.pop();
    }
    let n = raw.len();
    // coordinates: small grids give duplicates and ties; TSPLIB may be shifted to negative values
    let g = [3u16, 10, 100, 100][gclass as usize];
    let off = if kind == 2 && neg == 0 { (g / 2) as i32 } else { 0 };
    // the last class spreads the same grid over large magnitudes (pairs farther apart than 46341 units,
    // where a squared distance no longer fits 32-bit integer arithmetic)
    let mul = if gclass == 3 { 700 } else { 1 };
    let coord = |xy: (u16, u16)| (((xy.0 % (g + 1)) as i32 - off) * mul, ((xy.1 % (g + 1)) as i32 - off) * mul);
    let depot_c = coord((dx, dy));
    // instance-level mix: forced coordinate copies never / rarely / often; windows all wide / mixed / all narrow
    let (dup_level, win_level) = (seed % 3, seed / 3 % 3);
    let mut coords: Vec<(i32, i32)> = vec![];
    for (i, r) in raw.iter().enumerate() {
        let place = if dup_level == 0 || (dup_level == 1 && r.src % 4 != 0) { 0 } else { r.place };
        let c = match place {
            7 => depot_c,
            8 | 9 if i > 0 => coords[pick_idx(r.src, i)],
            8 | 9 => depot_c,
            _ => coord(r.xy),
        };
        coords.push(c);
    }
    // demands: loose / medium / up to the full capacity, incl. 0 and the class maximum
    let q = capacity as i32;
    let dmax = match tight {
        0 => (q / n as i32).max(1),
        1 => (q / 3).max(1),
        _ => q,
    };
    let demand = |r: &RawNode| -> i32 {
        if r.dem % 11 == 0 {
            0
        } else if r.dem % 13 == 0 {
            dmax
        } else {
            r.dem as i32 % (dmax + 1)
        }
    };
    let service = |r: &RawNode| -> u32 {
        match r.smode {
            0 => 0,
            1 => 10,
            _ => (r.svc % 91) as u32,
        }
    };
    let r0 = if r0mode == 0 { (r0raw % 40) as u32 } else { 0 };
    let h = horizon as u32;
    // (ready, due) given the earliest possible arrival `base`; None = as wide as the depot window
    let window = |r: &RawNode, base: u32| -> (u32, Option<u32>) {
        let t = base + r.wpos as u32 % h;
        let wmode = match win_level {
            0 => 0,
            1 => r.wmode,
            _ => r.wmode.max(1),
        };
        match wmode {
            0 => (if r.wpos % 2 == 0 { 0 } else { r0 }, None),
            4 => (t, Some(t)),
            5 => (r.wpos as u32 % (r0 + 1), Some(base + r.wwidth as u32 % h)),
            _ => (t, Some(t + r.wwidth as u32 % (h / 4 + 1))),
        }
    };
    let mut win: Vec<(u32, Option<u32>)> = vec![];
    let mut need: Vec<u32> = vec![];
    for (i, r) in raw.iter().enumerate() {
        let mut base = r0 + ceil_dist(depot_c, coords[i]);
        if kind == 1 && i % 2 == 1 {
            // delivery: reachable after its pickup (previous raw node)
            let p = i - 1;
            let start_p = (r0 + ceil_dist(depot_c, coords[p])).max(win[p].0);
            base = base.max(start_p + service(&raw[p]) + ceil_dist(coords[p], coords[i]));
        }
        let w = if kind == 2 { (0, Some(0)) } else { window(r, base) };
        need.push(base.max(w.0) + service(r) + ceil_dist(coords[i], depot_c));
        win.push(w);
    }
    let (max_need, min_need) = (*need.iter().max().unwrap(), *need.iter().min().unwrap());
    let depot_due = if kind == 2 {
        0
    } else if due_mode == 0 {
        min_need + ((max_need - min_need) as u64 * (due_raw % 100) as u64 / 100) as u32
    } else {
        max_need + (due_raw % 60) as u32
    };
    // ids
    let mut ids: Vec<u32> = (1..=n as u32).collect();
    let mut depot_id = 0u32;
    match kind {
        0 if idmode == 3 => {
            let mut cur = 0;
            for (i, r) in raw.iter().enumerate() {
                cur += 1 + (r.key % 3) as u32;
                ids[i] = cur;
            }
        }
        1 if idmode != 0 => {
            // random permutation of 1..=n by key rank (a delivery may get a smaller id than its pickup)
            let mut order: Vec<usize> = (0..n).collect();
            order.sort_by_key(|&i| (raw[i].key, i));
            for (rank, &i) in order.iter().enumerate() {
                ids[i] = rank as u32 + 1;
            }
        }
        2 => {
            let p = if idmode <= 1 { 0 } else { pick_idx(dpos, n + 1) as u32 };
            depot_id = p + 1;
            for (i, id) in ids.iter_mut().enumerate() {
                *id = if (i as u32) < p { i as u32 + 1 } else { i as u32 + 2 };
            }
        }
        _ => {}
    }
    let mut nodes: Vec<Node> = raw
        .iter()
        .enumerate()
        .map(|(i, r)| {
            let (ready, due) = if kind == 2 { (0, 0) } else { (win[i].0, win[i].1.unwrap_or(depot_due.max(win[i].0))) };
            let (demand, sibling) = match kind {
                1 if i % 2 == 0 => (demand(r).max(1), ids[i + 1]),
                1 => (-demand(&raw[i - 1]).max(1), ids[i - 1]),
                _ => (demand(r), 0),
            };
            Node { id: ids[i], x: coords[i].0, y: coords[i].1, demand, ready, due, service: if kind == 2 { 0 } else { service(r) }, sibling, key: r.key }
        })
        .collect();
    // file order: by id (as published); sometimes shuffled (Solomon/Li&Lim lines carry their own id)
    if kind != 2 {
        if idmode == 4 {
            nodes.sort_by_key(|n| (n.key.rotate_left(5), n.id));
        } else {
            nodes.sort_by_key(|n| n.id);
        }
    }
    let depot = Node { id: depot_id, x: depot_c.0, y: depot_c.1, demand: 0, ready: if kind == 2 { 0 } else { r0 }, due: depot_due, service: 0, sibling: 0, key: 0 };
    Inst { kind, rounded, vehicles: 1 + veh as u32 % (n as u32 + 2), capacity, depot, nodes, style, gens, seed }
}

// ---------------------------------------------------------------------------------------------
// printers (published layouts)
// ---------------------------------------------------------------------------------------------

fn row(cols: &[String], st: &Style, width: usize) -> String {
    let mut s = String::new();
    if st.lead && st.sep != 0 {
        s.push_str(if st.sep == 2 { "\t" } else { "  " });
    }
    for (i, c) in cols.iter().enumerate() {
        match st.sep {
            0 => s.push_str(&format!(" {c:>width$}")),
            1 if i > 0 => s.push(' '),
            2 if i > 0 => s.push('\t'),
            3 if i > 0 => s.push_str(["  ", "\t ", "   \t", " "][i % 4]),
            _ => {}
        }
        if st.sep != 0 {
            s.push_str(c);
        }
    }
    if st.trail {
        s.push(' ');
    }
    s
}

fn spell(v: i32, how: u8) -> String {
    match how {
        1 => format!("{v}.0"),
        2 => format!("{v}.00000"),
        3 if v == 0 => "0.00000e+00".to_string(),
        3 => {
            let e = v.unsigned_abs().to_string().len() as i32 - 1;
            format!("{:.5}e+{e:02}", v as f64 / 10f64.powi(e))
        }
        _ => v.to_string(),
    }
}

fn print_inst(c: &Inst) -> String {
    let st = &c.style;
    let s = |v: i64| v.to_string();
    let mut lines: Vec<String> = vec![];
    match c.kind {
        0 => {
            let cust = |n: &Node| row(&[s(n.id as i64), s(n.x as i64), s(n.y as i64), s(n.demand as i64), s(n.ready as i64), s(n.due as i64), s(n.service as i64)], st, 9);
            lines.extend([format!("G{}", c.seed % 1000), String::new(), "VEHICLE".into(), "NUMBER     CAPACITY".into()]);
            lines.push(row(&[s(c.vehicles as i64), s(c.capacity as i64)], st, 9));
            lines.extend([String::new(), "CUSTOMER".into(), "CUST NO.  XCOORD.   YCOORD.    DEMAND   READY TIME  DUE DATE   SERVICE   TIME".into(), String::new()]);
            lines.push(cust(&c.depot));
            lines.extend(c.nodes.iter().map(cust));
        }
        1 => {
            let cust = |n: &Node| {
                let (p, d) = if n.demand > 0 { (0, n.sibling) } else { (n.sibling, 0) };
                row(&[s(n.id as i64), s(n.x as i64), s(n.y as i64), s(n.demand as i64), s(n.ready as i64), s(n.due as i64), s(n.service as i64), s(p as i64), s(d as i64)], st, 7)
            };
            lines.push(row(&[s(c.vehicles as i64), s(c.capacity as i64), s(1)], st, 7));
            lines.push(cust(&c.depot));
            lines.extend(c.nodes.iter().map(cust));
        }
        _ => {
            let kv = |k: &str, v: String| format!("{k}{}{v}{}", if st.colon == 0 { " : " } else { ": " }, if st.trail { " " } else { "" });
            let sec = |k: &str| format!("{k}{}", if st.trail { " " } else { "" });
            let mut all: Vec<&Node> = c.nodes.iter().chain(std::iter::once(&c.depot)).collect();
            all.sort_by_key(|n| n.id);
            lines.push(kv("NAME", format!("G-n{}-k{}", all.len(), c.seed % 10)));
            lines.push(kv("COMMENT", format!("(generated, No of trucks: {}, Optimal value: {})", c.seed % 10, c.seed % 1000)));
            lines.push(kv("TYPE", "CVRP".into()));
            lines.push(kv("DIMENSION", s(all.len() as i64)));
            lines.push(kv("EDGE_WEIGHT_TYPE", "EUC_2D".into()));
            lines.push(kv("CAPACITY", s(c.capacity as i64)));
            lines.push(sec("NODE_COORD_SECTION"));
            let how = |i: usize| st.nums[i % st.nums.len()];
            lines.extend(all.iter().enumerate().map(|(i, n)| row(&[s(n.id as i64), spell(n.x, how(2 * i)), spell(n.y, how(2 * i + 1))], st, 4)));
            lines.push(sec("DEMAND_SECTION"));
            lines.extend(all.iter().map(|n| row(&[s(n.id as i64), s(n.demand as i64)], st, 4)));
            lines.push(sec("DEPOT_SECTION"));
            lines.push(row(&[s(c.depot.id as i64)], st, 2));
            lines.push(row(&[s(-1)], st, 2));
            lines.push(sec("EOF"));
        }
    }
    let mut text = lines.join("\n");
    if st.last_nl {
        text.push('\n');
    }
    text
}

// ---------------------------------------------------------------------------------------------
// oracle: parsed problem vs. instance model
// ---------------------------------------------------------------------------------------------

type Attr = ((i32, i32), f64, f64, f64);

fn node_attr(n: &Node) -> Attr {
    ((n.x, n.y), n.ready as f64, n.due as f64, n.service as f64)
}

fn demand4(d: &Dimensions) -> Option<[i32; 4]> {
    d.get_job_demand::<SingleDimLoad>().map(|d| [d.pickup.0.value, d.pickup.1.value, d.delivery.0.value, d.delivery.1.value])
}

fn read(c: &Inst, text: &str) -> Result<Arc<Problem>, Failure> {
    let (k, owned, rounded) = (c.k(), text.to_string(), c.rounded);
    let res = guard(move || match k {
        "solomon" => owned.read_solomon(rounded),
        "lilim" => owned.read_lilim(rounded),
        _ => owned.read_tsplib(rounded),
    });
    match res {
        Err(p) => Err(Failure::new(format!("{k}:reader-panic"), format!("reader panicked on a well-formed file: {p}"))),
        Ok(Err(e)) => Err(Failure::new(format!("{k}:reader-rejected"), format!("reader rejected a well-formed file: {e}"))),
        Ok(Ok(p)) => Ok(Arc::new(p)),
    }
}

fn attrs(k: &str, s: &Single, ci: &CoordIndex, what: &str) -> Result<Attr, Failure> {
    ensure!(s.places.len() == 1, format!("{k}:places"), "{what}: {} places instead of one", s.places.len());
    let p = &s.places[0];
    let xy = p.location.and_then(|l| ci.locations.get(l).copied());
    ensure!(xy.is_some(), format!("{k}:location"), "{what}: location {:?} is not in the exported CoordIndex", p.location);
    let tw = if p.times.len() == 1 { p.times[0].as_time_window() } else { None };
    ensure!(tw.is_some(), format!("{k}:time-window"), "{what}: expected exactly one time window, got {:?}", p.times);
    let tw = tw.unwrap();
    Ok((xy.unwrap(), tw.start, tw.end, p.duration))
}

fn expect_node(c: &Inst, n: &Node, got: Attr, what: &str) -> Check {
    let (k, want) = (c.k(), node_attr(n));
    ensure!(got.0 == want.0, format!("{k}:location"), "{what}: coordinate {:?}, file says {:?}", got.0, want.0);
    if c.kind == 2 {
        ensure!(got.3 == 0., format!("{k}:service-time"), "{what}: duration {} although the file has no service times", got.3);
        ensure!(got.1 <= 0. && got.2 >= NO_BIND, format!("{k}:time-window"), "{what}: window [{}, {}] can bind although the file has no time windows", got.1, got.2);
    } else {
        ensure!(got.1 == want.1 && got.2 == want.2, format!("{k}:time-window"), "{what}: window [{}, {}], file says [{}, {}]", got.1, got.2, want.1, want.2);
        ensure!(got.3 == want.3, format!("{k}:service-time"), "{what}: duration {}, file says {}", got.3, want.3);
    }
    Ok(())
}

/// Matches every (sub-)job to its instance customer and checks location, window and duration.
/// Returns (single, node index) pairs and whether the Li&Lim matching was ambiguous w.r.t. amounts.
fn match_jobs(c: &Inst, problem: &Problem, ci: &CoordIndex, stats: &Stats, pname: &str) -> Result<(Vec<(Arc<Single>, usize)>, bool), Failure> {
    let k = c.k();
    let jobs = problem.jobs.all();
    let mut seen = HashSet::new();
    for j in jobs {
        let id = j.dimens().get_job_id();
        ensure!(id.is_some_and(|id| seen.insert(id.clone())), format!("{k}:job-id"), "job without id or with duplicate id {id:?}");
    }
    let id_of = |j: &Job| j.dimens().get_job_id().cloned().unwrap_or_default();
    let (mut out, mut ambiguous) = (vec![], false);
    if c.kind == 1 {
        let pairs = c.pairs();
        ensure!(jobs.len() == pairs.len(), format!("{k}:job-count"), "{} jobs, file has {} pickup-delivery pairs", jobs.len(), pairs.len());
        let mut free = vec![true; pairs.len()];
        for j in jobs {
            let what = format!("job {}", id_of(j));
            let perms = j.as_multi().map(|m| m.permutations()).filter(|p| !p.is_empty() && p[0].len() == 2 && j.to_multi().jobs.len() == 2);
            ensure!(perms.is_some(), format!("{k}:job-shape"), "{what}: a pickup-delivery pair must be a multi job with two sub-jobs");
            let perms = perms.unwrap();
            let (ps, ds) = (perms[0][0].clone(), perms[0][1].clone());
            ensure!(perms.iter().all(|p| p.len() == 2 && Arc::ptr_eq(&p[0], &ps) && Arc::ptr_eq(&p[1], &ds)), format!("{k}:pair-order"), "{what}: more than one visiting order allowed for a pickup-delivery pair");
            let (a, b) = (attrs(k, &ps, ci, &what)?, attrs(k, &ds, ci, &what)?);
            let cand = (0..pairs.len()).filter(|&i| free[i] && node_attr(&c.nodes[pairs[i].0]) == a && node_attr(&c.nodes[pairs[i].1]) == b).collect::<Vec<_>>();
            ensure!(!cand.is_empty(), format!("{k}:pair-mismatch"), "{what}: no unmatched pair of the file has pickup {a:?} then delivery {b:?} (coordinate, ready, due, service)");
            let amount = demand4(&ps.dimens).map(|d| d[1]);
            let pick = cand.iter().copied().find(|&i| Some(c.nodes[pairs[i].0].demand) == amount).unwrap_or(cand[0]);
            ambiguous |= cand.iter().any(|&i| c.nodes[pairs[i].0].demand != c.nodes[pairs[pick].0].demand);
            free[pick] = false;
            if ps.dimens.get_job_id().is_none() {
                stats.class(&format!("{pname}.unspecified.subjob_without_id"));
            }
            out.push((ps, pairs[pick].0));
            out.push((ds, pairs[pick].1));
        }
    } else {
        ensure!(jobs.len() == c.nodes.len(), format!("{k}:job-count"), "{} jobs, file has {} customers", jobs.len(), c.nodes.len());
        // Solomon: id == CUST NO. (the published solution files and read_init_solution rely on it);
        // TSPLIB: CVRPLIB convention node-1 when it holds, otherwise (unspecified) match by content
        let by_id: HashMap<String, usize> = c.nodes.iter().enumerate().map(|(i, n)| ((n.id - (c.kind == 2) as u32).to_string(), i)).collect();
        let conv = jobs.iter().all(|j| by_id.contains_key(&id_of(j)));
        ensure!(conv || c.kind == 2, format!("{k}:job-id"), "job ids {:?} are not the customer numbers of the file", jobs.iter().map(id_of).collect::<Vec<_>>());
        stats.class(&format!("{pname}.{}", if conv { "ids_follow_file_numbers" } else { "unspecified.ids_other_convention" }));
        let mut free = vec![true; c.nodes.len()];
        for j in jobs {
            let what = format!("job {}", id_of(j));
            ensure!(j.as_single().is_some(), format!("{k}:job-shape"), "{what}: a customer must be a single job");
            let s = j.to_single();
            let a = attrs(k, s, ci, &what)?;
            let idx = if conv {
                Some(by_id[&id_of(j)])
            } else {
                let d = demand4(&s.dimens).map(|d| d[0] + d[2]);
                let cand = (0..c.nodes.len()).filter(|&i| free[i] && (c.nodes[i].x, c.nodes[i].y) == a.0).collect::<Vec<_>>();
                cand.iter().copied().find(|&i| Some(c.nodes[i].demand) == d).or(cand.first().copied())
            };
            ensure!(idx.is_some_and(|i| free[i]), format!("{k}:location"), "{what}: no unmatched customer of the file at {:?}", a.0);
            free[idx.unwrap()] = false;
            expect_node(c, &c.nodes[idx.unwrap()], a, &what)?;
            out.push((s.clone(), idx.unwrap()));
        }
    }
    Ok((out, ambiguous))
}

fn check_fleet(c: &Inst, problem: &Problem, ci: &CoordIndex) -> Check {
    let (k, actors, depot) = (c.k(), &problem.fleet.actors, (c.depot.x, c.depot.y));
    if c.kind == 2 {
        // no fleet size in the file: unlimited, i.e. never fewer vehicles than customers
        ensure!(actors.len() >= c.nodes.len(), format!("{k}:fleet-too-small"), "{} vehicles for {} customers although the file does not limit the fleet", actors.len(), c.nodes.len());
    } else {
        ensure!(actors.len() == c.vehicles as usize, format!("{k}:fleet-size"), "{} vehicles, file says {}", actors.len(), c.vehicles);
    }
    for (i, a) in actors.iter().enumerate() {
        let cap = a.vehicle.dimens.get_vehicle_capacity::<SingleDimLoad>().map(|l| l.value);
        ensure!(cap == Some(c.capacity as i32), format!("{k}:capacity"), "vehicle {i}: capacity {cap:?}, file says {}", c.capacity);
        let loc = |p: &Option<VehiclePlace>| p.as_ref().and_then(|p| ci.locations.get(p.location).copied());
        ensure!(loc(&a.detail.start) == Some(depot) && loc(&a.detail.end) == Some(depot), format!("{k}:depot-location"), "vehicle {i}: start {:?} / end {:?}, depot of the file is at {depot:?}", loc(&a.detail.start), loc(&a.detail.end));
        let earliest = a.detail.start.as_ref().and_then(|p| p.time.earliest).unwrap_or(0.);
        let latest = a.detail.end.as_ref().and_then(|p| p.time.latest).unwrap_or(f64::MAX);
        let (s, e) = (a.detail.time.start, a.detail.time.end);
        if c.kind == 2 {
            ensure!(s <= 0. && earliest <= 0. && e >= NO_BIND && latest >= NO_BIND, format!("{k}:depot-window"), "vehicle {i}: shift [{s}, {e}] can bind although the file has no time data");
        } else {
            let (r, d) = (c.depot.ready as f64, c.depot.due as f64);
            ensure!(s == r && e == d && earliest == r && latest == d, format!("{k}:depot-window"), "vehicle {i}: shift [{s}, {e}] (start.earliest {earliest}, end.latest {latest}), depot window of the file is [{r}, {d}]");
        }
    }
    Ok(())
}

fn check_transport(c: &Inst, problem: &Problem, ci: &CoordIndex) -> Check {
    let (k, t, profile) = (c.k(), &problem.transport, Profile::default());
    let actor = problem.fleet.actors[0].clone();
    let route = Route { tour: Tour::new(&actor), actor };
    for (i, a) in ci.locations.iter().enumerate() {
        for (j, b) in ci.locations.iter().enumerate() {
            let want = dist(*a, *b, c.rounded);
            let mut got = vec![t.distance_approx(&profile, i, j), t.distance(&route, i, j, TravelTime::Departure(0.))];
            if c.kind != 2 {
                // Solomon / Li&Lim: travel time equals distance (unit speed)
                got.extend([t.duration_approx(&profile, i, j), t.duration(&route, i, j, TravelTime::Departure(0.))]);
            }
            ensure!(got.iter().all(|g| (g - want).abs() <= DIST_TOL), format!("{k}:distance"), "{a:?} -> {b:?}: transport gives {got:?}, euclidean (rounded={}) is {want}", c.rounded);
        }
    }
    Ok(())
}

fn check_demands(c: &Inst, matched: &[(Arc<Single>, usize)], stats: &Stats, pname: &str) -> Check {
    let k = c.k();
    for (s, idx) in matched {
        let (n, d) = (&c.nodes[*idx], demand4(&s.dimens));
        let what = format!("customer {} (file demand {})", n.id, n.demand);
        if c.kind == 1 {
            ensure!(d.is_some(), format!("{k}:demand-dropped"), "{what}: the sub-job has no demand dimension, so capacity cannot bind");
            let (d, q) = (d.unwrap(), n.demand.abs());
            ensure!(!(n.demand < 0 && d == [0, 0, 0, -q]), format!("{k}:delivery-demand-negative"), "{what}: dynamic delivery stored as {} - the load would grow by {q} at the delivery instead of shrinking", -q);
            let want = if n.demand > 0 { [0, q, 0, 0] } else { [0, 0, 0, q] };
            ensure!(d == want, format!("{k}:demand"), "{what}: demand (pickup static/dynamic, delivery static/dynamic) = {d:?}, expected {want:?}");
        } else if let Some(d) = d {
            // static delivery (goods loaded at the depot) or static pickup bind capacity identically
            ensure!(d == [0, 0, n.demand, 0] || d == [n.demand, 0, 0, 0], format!("{k}:demand"), "{what}: demand (pickup static/dynamic, delivery static/dynamic) = {d:?}");
        } else {
            ensure!(n.demand == 0, format!("{k}:demand-dropped"), "{what}: the job has no demand dimension");
            stats.class(&format!("{pname}.zero_demand_without_dimension"));
        }
    }
    Ok(())
}

// ---------------------------------------------------------------------------------------------
// behaviour and round trip
// ---------------------------------------------------------------------------------------------

fn solve(c: &Inst, problem: &Arc<Problem>) -> Result<Solution, Failure> {
    let (k, env) = (c.k(), quiet_env(c.seed, Parallelism::new(1, 1), None));
    let res = guard(|| {
        let config = VrpConfigBuilder::new(problem.clone()).set_environment(env).set_telemetry_mode(TelemetryMode::None).prebuild()?.with_max_generations(Some(c.gens as usize)).build()?;
        Solver::new(problem.clone(), config).solve()
    });
    match res {
        Ok(Ok(s)) => Ok(s),
        Ok(Err(e)) => Err(Failure::new(format!("{k}:solver-error"), format!("solver failed on the parsed problem: {e}"))),
        Err(p) => Err(Failure::new(format!("{k}:solver-panic"), format!("solver panicked on the parsed problem: {p}"))),
    }
}

/// Every route of a solution of the parsed problem must be feasible for the instance as written in the file.
/// Time feasibility is asserted only when the file's distances obey the triangle inequality: nint-rounded
/// matrices can violate it (1.41->1, 1.41->1, 2.83->3), and the solver's ruin step (removing a customer
/// without re-checking the rest of the route) is then not covered by the premise of this sub-check.
fn check_solution(c: &Inst, sol: &Solution, matched: &[(Arc<Single>, usize)], ambiguous: bool, stats: &Stats, pname: &str) -> Check {
    let k = c.k();
    let pts = c.nodes.iter().map(|n| (n.x, n.y)).chain([(c.depot.x, c.depot.y)]).collect::<HashSet<_>>().into_iter().collect::<Vec<_>>();
    let d = |a: &(i32, i32), b: &(i32, i32)| dist(*a, *b, true);
    let metric = !c.rounded || pts.iter().all(|a| pts.iter().all(|b| pts.iter().all(|m| d(a, b) <= d(a, m) + d(m, b))));
    if c.kind != 2 {
        stats.class(&format!("{pname}.{}", if metric { "time_checked_metric_distances" } else { "unspecified.time_not_asserted_nonmetric_rounding" }));
    }
    let node_of: HashMap<usize, usize> = matched.iter().map(|(s, i)| (Arc::as_ptr(s) as usize, *i)).collect();
    let depot = (c.depot.x, c.depot.y);
    if c.kind != 2 {
        ensure!(sol.routes.len() <= c.vehicles as usize, format!("{k}:fleet-size-not-binding"), "{} routes with {} vehicles in the file", sol.routes.len(), c.vehicles);
    }
    let mut served = HashSet::new();
    for r in sol.routes.iter() {
        let seq = r.tour.all_activities().filter_map(|a| a.job.as_ref()).map(|s| node_of.get(&(Arc::as_ptr(s) as usize)).copied()).collect::<Option<Vec<_>>>();
        ensure!(seq.is_some(), format!("{k}:foreign-job"), "route contains a job that is not a job of the problem");
        let seq = seq.unwrap();
        let ids = seq.iter().map(|&i| c.nodes[i].id).collect::<Vec<_>>();
        ensure!(seq.iter().all(|i| served.insert(*i)), format!("{k}:served-twice"), "route {ids:?}: customer served twice");
        let (mut load, mut peak) = (0i64, 0i64);
        for (pos, &i) in seq.iter().enumerate() {
            let n = &c.nodes[i];
            load += n.demand as i64;
            peak = peak.max(load);
            if c.kind == 1 {
                let sib = seq.iter().position(|&j| c.nodes[j].id == n.sibling);
                ensure!(sib.is_some_and(|s| (n.demand > 0) == (pos < s)), format!("{k}:pair-not-binding"), "route {ids:?}: customer {} is not served together with / in order with its sibling {}", n.id, n.sibling);
            }
        }
        if !(c.kind == 1 && ambiguous) {
            ensure!(peak <= c.capacity as i64, format!("{k}:capacity-not-binding"), "route {ids:?} carries {peak} with capacity {} in the file", c.capacity);
        }
        if c.kind != 2 {
            let (mut t, mut prev, mut late) = (c.depot.ready as f64, depot, false);
            for &i in seq.iter() {
                let n = &c.nodes[i];
                t = (t + dist(prev, (n.x, n.y), c.rounded)).max(n.ready as f64);
                late |= t > n.due as f64 + TIME_TOL;
                ensure!(!metric || t <= n.due as f64 + TIME_TOL, format!("{k}:time-window-not-binding"), "route {ids:?}: earliest possible service start at customer {} is {t}, due date in the file is {}", n.id, n.due);
                t += n.service as f64;
                prev = (n.x, n.y);
            }
            t += dist(prev, depot, c.rounded);
            late |= t > c.depot.due as f64 + TIME_TOL;
            ensure!(!metric || t <= c.depot.due as f64 + TIME_TOL, format!("{k}:depot-due-not-binding"), "route {ids:?}: earliest return to the depot is {t}, depot due date is {}", c.depot.due);
            if late {
                stats.class(&format!("{pname}.unspecified.late_route_on_nonmetric_rounded_distances"));
            }
        }
    }
    Ok(())
}

fn route_ids(sol: &Solution) -> Vec<Vec<String>> {
    let mut routes = sol.routes.iter().map(|r| r.tour.all_activities().filter_map(|a| a.job.as_ref()).map(|s| s.dimens.get_job_id().cloned().unwrap_or_default()).collect::<Vec<_>>()).collect::<Vec<_>>();
    routes.sort();
    routes
}

fn roundtrip(c: &Inst, problem: &Arc<Problem>, sol: &Solution) -> Check {
    let k = c.k();
    let written = guard(|| {
        let mut w = BufWriter::new(Vec::<u8>::new());
        let res = if c.kind == 0 { sol.write_solomon(&mut w) } else { sol.write_tsplib(&mut w) };
        res.map(|_| String::from_utf8_lossy(&w.into_inner().unwrap_or_default()).to_string())
    });
    let text = match written {
        Ok(Ok(t)) => t,
        Ok(Err(e)) => return Err(Failure::new(format!("{k}:roundtrip-write-failed"), format!("writer refused a complete solution: {e}"))),
        Err(p) => return Err(Failure::new(format!("{k}:roundtrip-write-panic"), format!("writer panicked: {p}"))),
    };
    let random = quiet_env(c.seed ^ 1, Parallelism::new(1, 1), None).random.clone();
    let back = match guard(|| read_init_solution(BufReader::new(text.as_bytes()), problem.clone(), random)) {
        Ok(Ok(s)) => s,
        Ok(Err(e)) => return Err(Failure::new(format!("{k}:roundtrip-read-failed"), format!("read_init_solution failed: {e}\n{text}"))),
        Err(p) => return Err(Failure::new(format!("{k}:roundtrip-read-panic"), format!("read_init_solution panicked: {p}\n{text}"))),
    };
    let (want, got) = (route_ids(sol), route_ids(&back));
    ensure!(want == got, format!("{k}:roundtrip-routes"), "routes written {want:?}, routes read back {got:?}\n{text}");
    ensure!(back.unassigned.is_empty(), format!("{k}:roundtrip-unassigned"), "{} jobs unassigned after reading back a complete solution\n{text}", back.unassigned.len());
    let actors = back.routes.iter().map(|r| Arc::as_ptr(&r.actor) as usize).collect::<HashSet<_>>();
    ensure!(actors.len() == back.routes.len(), format!("{k}:roundtrip-actor-reuse"), "{} routes share {} vehicles", back.routes.len(), actors.len());
    Ok(())
}

/// Complete solution built from the case: customers ordered by key, cut into at most `fleet` routes.
fn construct_solution(c: &Inst, problem: &Arc<Problem>, matched: &[(Arc<Single>, usize)]) -> Solution {
    let mut order = matched.iter().collect::<Vec<_>>();
    order.sort_by_key(|(_, i)| (c.nodes[*i].key, *i));
    let mut groups: Vec<Vec<Arc<Single>>> = vec![];
    for (s, i) in order {
        if groups.is_empty() || (c.nodes[*i].key % 3 == 0 && groups.len() < problem.fleet.actors.len()) {
            groups.push(vec![]);
        }
        groups.last_mut().unwrap().push(s.clone());
    }
    let mut registry = Registry::new(&problem.fleet, quiet_env(c.seed, Parallelism::new(1, 1), None).random.clone());
    let routes = groups
        .iter()
        .zip(problem.fleet.actors.iter())
        .map(|(group, actor)| {
            let mut tour = Tour::new(actor);
            for s in group {
                let p = &s.places[0];
                tour.insert_last(Activity {
                    place: TourPlace { idx: 0, location: p.location.unwrap(), duration: p.duration, time: p.times[0].as_time_window().unwrap() },
                    schedule: Schedule::new(0., 0.),
                    job: Some(s.clone()),
                    commute: None,
                });
            }
            registry.use_actor(actor);
            Route { actor: actor.clone(), tour }
        })
        .collect();
    Solution { cost: (c.seed % 1_000_000) as f64 / 7., registry, routes, unassigned: vec![], telemetry: None }
}

// ---------------------------------------------------------------------------------------------
// property
// ---------------------------------------------------------------------------------------------

pub struct SciProp {
    pub kind: u8,
    pub aspect: u8,
}

impl SciProp {
    fn classify(&self, c: &Inst, text: &str, stats: &Stats) {
        let pname = Prop::name(self);
        let depot = (c.depot.x, c.depot.y);
        let coords = c.nodes.iter().map(|n| (n.x, n.y)).collect::<Vec<_>>();
        let dup = coords.iter().collect::<HashSet<_>>().len() < coords.len();
        let at_depot = coords.contains(&depot);
        let binds = c.total_demand() > c.capacity as i64;
        let narrow = c.kind != 2 && c.nodes.iter().any(|n| n.due < c.depot.due || n.ready > c.depot.ready);
        let decimal = c.kind == 2 && c.style.nums.iter().any(|v| *v > 0);
        let mut cls = vec![("capacity_binds", binds), ("duplicate_coordinate", dup), ("customer_at_depot", at_depot), (if c.rounded { "rounded" } else { "unrounded" }, true)];
        cls.push((["sep_aligned", "sep_blank", "sep_tab", "sep_mixed"][c.style.sep as usize], true));
        cls.push(("no_final_newline", !c.style.last_nl));
        cls.push(("file_order_not_by_id", c.nodes.windows(2).any(|w| w[0].id > w[1].id)));
        if c.kind != 2 {
            cls.extend([("narrow_window", narrow), ("point_window", c.nodes.iter().any(|n| n.ready == n.due)), ("zero_service", c.nodes.iter().any(|n| n.service == 0))]);
            cls.extend([("depot_ready_nonzero", c.depot.ready > 0), ("customer_due_after_depot_due", c.nodes.iter().any(|n| n.due > c.depot.due)), ("fleet_smaller_than_customers", (c.vehicles as usize) < c.nodes.len())]);
        }
        if c.kind != 1 {
            cls.extend([("zero_demand", c.nodes.iter().any(|n| n.demand == 0)), ("demand_equals_capacity", c.nodes.iter().any(|n| n.demand == c.capacity as i32))]);
        }
        match c.kind {
            0 => cls.push(("id_gaps", c.nodes.iter().map(|n| n.id).max() > Some(c.nodes.len() as u32))),
            1 => cls.push(("delivery_listed_before_pickup", c.pairs().iter().any(|(p, d)| d < p))),
            _ => cls.extend([("depot_id_not_1", c.depot.id != 1), ("decimal_spelling", decimal), ("exponent_spelling", c.style.nums.contains(&3)), ("negative_coordinate", coords.iter().any(|p| p.0 < 0 || p.1 < 0))]),
        }
        for (name, hit) in cls {
            if hit {
                stats.class(&format!("{pname}.{name}"));
            }
        }
        if binds && (dup || at_depot || narrow || (c.kind == 2 && (decimal || c.depot.id != 1))) {
            stats.nontrivial(hash_of(&(pname, text, c.rounded, c.seed)));
        }
    }

    fn run(&self, c: &Inst, text: &str, stats: &Stats) -> Check {
        let (k, pname) = (c.k(), Prop::name(self));
        let problem = read(c, text)?;
        let ci = problem.extras.get_coord_index();
        ensure!(ci.is_some(), format!("{k}:coord-index-missing"), "extras carry no CoordIndex");
        let ci = ci.unwrap();
        let (matched, ambiguous) = match_jobs(c, &problem, &ci, stats, pname)?;
        match self.aspect {
            0 => {
                check_fleet(c, &problem, &ci)?;
                check_transport(c, &problem, &ci)?;
                stats.class_max(&format!("{pname}.max_locations"), ci.locations.len() as u64);
            }
            1 => check_demands(c, &matched, stats, pname)?,
            2 => {
                let sol = solve(c, &problem)?;
                let assigned = sol.routes.iter().map(|r| r.tour.job_activity_count()).sum::<usize>();
                stats.class(&format!("{pname}.{}", if sol.unassigned.is_empty() { "all_assigned" } else { "some_unassigned" }));
                if ambiguous {
                    stats.class(&format!("{pname}.capacity_check_skipped_ambiguous_pairs"));
                }
                if sol.routes.len() >= 2 && c.total_demand() > c.capacity as i64 {
                    stats.class(&format!("{pname}.several_routes_and_capacity_binds"));
                }
                // not asserted (heuristic solver): a customer left out although the instance allows serving everybody alone
                let depot = (c.depot.x, c.depot.y);
                let alone = |n: &Node| {
                    let t = (c.depot.ready as f64 + dist(depot, (n.x, n.y), c.rounded)).max(n.ready as f64);
                    n.demand <= c.capacity as i32 && (c.kind == 2 || (t <= n.due as f64 && t + n.service as f64 + dist((n.x, n.y), depot, c.rounded) <= c.depot.due as f64))
                };
                let pair_alone = |&(p, d): &(usize, usize)| {
                    let (p, d) = (&c.nodes[p], &c.nodes[d]);
                    let tp = (c.depot.ready as f64 + dist(depot, (p.x, p.y), c.rounded)).max(p.ready as f64);
                    let td = (tp + p.service as f64 + dist((p.x, p.y), (d.x, d.y), c.rounded)).max(d.ready as f64);
                    p.demand <= c.capacity as i32 && tp <= p.due as f64 && td <= d.due as f64 && td + d.service as f64 + dist((d.x, d.y), depot, c.rounded) <= c.depot.due as f64
                };
                let alone_ok = if c.kind == 1 { c.pairs().iter().all(pair_alone) } else { c.nodes.iter().all(alone) } && (c.kind == 2 || c.vehicles as usize >= problem.jobs.size());
                if alone_ok && !sol.unassigned.is_empty() {
                    stats.class(&format!("{pname}.unspecified.unassigned_although_singleton_routes_fit"));
                }
                stats.class_n(&format!("{pname}.assigned_activities"), assigned as u64);
                check_solution(c, &sol, &matched, ambiguous, stats, pname)?;
                if c.kind != 1 && sol.unassigned.is_empty() {
                    roundtrip(c, &problem, &sol)?;
                    stats.class(&format!("{pname}.solver_solution_round_tripped"));
                }
            }
            _ => {
                let sol = construct_solution(c, &problem, &matched);
                stats.class(&format!("{pname}.{}", if sol.routes.len() >= 2 { "several_routes" } else { "single_route" }));
                stats.class_max(&format!("{pname}.max_routes"), sol.routes.len() as u64);
                roundtrip(c, &problem, &sol)?;
            }
        }
        Ok(())
    }
}

impl Prop for SciProp {
    type Case = Inst;
    fn name(&self) -> &'static str {
        NAMES[self.kind as usize][self.aspect as usize]
    }
    fn strategy(&self, _tier: Tier) -> BoxedStrategy<Inst> {
        inst_strategy(self.kind)
    }
    fn cases(&self, tier: Tier) -> u32 {
        match self.aspect {
            2 => tier.pick(480, 24_000),
            _ => tier.pick(1_500, 75_000),
        }
    }
    fn shards(&self, _tier: Tier) -> u32 {
        16
    }
    fn max_shrink_iters(&self) -> u32 {
        if self.aspect == 2 { 120 } else { 1500 }
    }
    fn check(&self, c: &Inst, stats: &Stats) -> Check {
        let text = print_inst(c);
        // generator measurements first: they describe the generator, not the outcome
        self.classify(c, &text, stats);
        stats.eval();
        if self.aspect == 0 {
            stats.sample(self.kind as usize + 1, || json!({"grammar": c.k(), "is_rounded": c.rounded, "customers": c.nodes.len(), "file_head": text.chars().take(260).collect::<String>()}));
        }
        self.run(c, &text, stats).map_err(|f| Failure::new(f.signature, format!("[{} / {}] {}\n--- file (is_rounded={}) ---\n{}", c.k(), ASPECT[self.aspect as usize], f.message, c.rounded, text)))
    }
}

pub fn property(_tier: Tier) -> PropertyDef {
    let mut props: Vec<Box<dyn DynProp>> = vec![];
    for aspect in 0..4u8 {
        for kind in 0..3u8 {
            // Li&Lim has no initial-solution reader (property statement): no round trip
            if !(aspect == 3 && kind == 1) {
                props.push(Box::new(SciProp { kind, aspect }));
            }
        }
    }
    PropertyDef {
        id: "C13",
        level: "exploration",
        rule: "proptest instance models built by construction (Solomon / TSPLIB 3-25 customers, Li&Lim 2-12 pickup-delivery pairs; integer coordinates on grids of 4x4, 11x11 or 101x101 points incl. copies of the depot's or an earlier customer's point, TSPLIB optionally shifted negative; capacity 1-200, demands loose / third / up to full capacity incl. 0 and == capacity; windows wide, narrow, zero-width or opening before the depot, every customer individually reachable, depot due date covering all or only part of the customers; depot ready time 0 or 1-39; service 0, 10 or 0-90; fleet 1..n+2; Solomon ids sequential / with gaps / lines shuffled; Li&Lim ids permuted so deliveries may precede pickups, signed demands and sibling columns; TSPLIB depot id arbitrary, coordinates spelled 28 / 28.0 / 28.00000 / 2.80000e+01) printed in the three published layouts with aligned, blank, tab or mixed column separators, optional leading/trailing blanks and optional final newline, read with read_solomon / read_lilim / read_tsplib (is_rounded generated). Sub-checks per grammar: model = jobs <-> customers (id, coordinate via exported CoordIndex, window, duration; Li&Lim pairs as two-task multi jobs in the single order pickup, delivery), vehicles (count, capacity, start/end at the depot, shift == depot window) and transport distance/duration for all location pairs == euclidean distance (exact-integer rounding oracle, tolerance 1e-9); demand = demand dimension (static for Solomon/TSPLIB, dynamic pickup/delivery of the stated positive magnitude for Li&Lim); behaviour = a solution of the parsed problem (vrp_core solver, 1-3 generations) must be feasible for the instance as written (capacity, pairing and order, fleet size; time windows and depot due date by independent earliest-start schedule replay, tolerance 1e-6, asserted only when the instance distances obey the triangle inequality - nint rounding can break it and is then only counted), and when complete it round-trips; roundtrip = a complete solution constructed from the case (customers permuted, cut into <= fleet routes) written with write_solomon / write_tsplib and read with read_init_solution gives the same multiset of id sequences, nothing unassigned, distinct vehicles. Non-trivial: total demand > capacity and (duplicate coordinate or customer at the depot or a window narrower than the depot's; TSPLIB instead: decimal spelling or depot id != 1). Distinct by hash of (sub-check, file text, is_rounded, seed).",
        assumptions: vec![
            "files are well-formed: integer columns, ready <= due, fleet size >= 1, capacity >= 1, demands within 0..=capacity, unique customer numbers, Li&Lim siblings consistent; TSPLIB header keys in the published order with node ids 1..DIMENSION",
            "TSPLIB coordinates are integral values (only their spelling varies); TSPLIB has no fleet size: any fleet >= number of customers is accepted; a window containing [0, 1e9] counts as 'no window'",
            "job id naming is only asserted for Solomon (id == CUST NO., relied upon by the published solution files); TSPLIB ids are matched by the node-1 convention when it holds and by content otherwise; Li&Lim jobs are matched by content, sub-job ids are counted not asserted",
            "Solomon/TSPLIB demand may be stored as static delivery or static pickup (both bind capacity identically)",
            "behaviour sub-check relies on the solver returning only solutions feasible for the problem it was given (C01); a solver that leaves customers unassigned is counted, not asserted",
            "time feasibility of solver routes is not asserted on rounded instances whose distance matrix violates the triangle inequality (removing a customer can then lengthen a route by a unit; observed: return to the depot 1 after the due date) - counted as unspecified.late_route_on_nonmetric_rounded_distances",
        ],
        props,
        extra: None,
        required_classes: vec![
            "solomon_model.capacity_binds",
            "solomon_model.duplicate_coordinate",
            "solomon_model.customer_at_depot",
            "solomon_model.narrow_window",
            "solomon_model.rounded",
            "solomon_model.unrounded",
            "solomon_model.id_gaps",
            "solomon_model.file_order_not_by_id",
            "solomon_model.depot_ready_nonzero",
            "solomon_demand.zero_demand",
            "solomon_demand.demand_equals_capacity",
            "solomon_behaviour.several_routes_and_capacity_binds",
            "solomon_behaviour.solver_solution_round_tripped",
            "solomon_behaviour.time_checked_metric_distances",
            "solomon_roundtrip.several_routes",
            "lilim_model.capacity_binds",
            "lilim_model.duplicate_coordinate",
            "lilim_model.narrow_window",
            "lilim_model.delivery_listed_before_pickup",
            "lilim_model.rounded",
            "lilim_model.unrounded",
            "tsplib_model.capacity_binds",
            "tsplib_model.duplicate_coordinate",
            "tsplib_model.depot_id_not_1",
            "tsplib_model.decimal_spelling",
            "tsplib_model.exponent_spelling",
            "tsplib_model.negative_coordinate",
            "tsplib_model.rounded",
            "tsplib_model.unrounded",
            "tsplib_demand.zero_demand",
            "tsplib_behaviour.several_routes_and_capacity_binds",
            "tsplib_behaviour.solver_solution_round_tripped",
            "tsplib_roundtrip.several_routes",
        ],
    }
}
