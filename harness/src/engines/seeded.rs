//! C08, consequence clause: a solve seeded with a feasible initial solution never returns a worse one.

use super::common::*;
use super::e2e::{parse_config, read_core};
use super::pgen::*;
use crate::fw::*;
use proptest::prelude::*;
use rosomaxa::evolution::TelemetryMode;
use rosomaxa::prelude::*;
use rosomaxa::utils::{Parallelism, ThreadPool};
use serde::{Deserialize, Serialize};
use serde_json::json;
use std::cmp::Ordering;
use vrp_cli::extensions::solve::config::create_builder_from_config;
use vrp_core::construction::heuristics::InsertionContext;
use vrp_core::solver::search::{Recreate, Ruin};
use vrp_core::solver::{RefinementContext, create_elitism_population};

#[derive(Clone, Debug, Serialize, Deserialize)]
pub struct SeededCase {
    pub spec: ProblemSpec,
    pub config: ConfigSpec,
    pub seed: u64,
    /// how the initial solution is made: recreate kind, optional ruin kind (255 = none)
    pub recreate: u8,
    pub ruin: u8,
    /// number of identical / additional initial solutions offered
    pub extra: u8,
}

pub struct SeededProp;

impl Prop for SeededProp {
    type Case = SeededCase;
    fn name(&self) -> &'static str {
        "seeded_solve_not_worse"
    }
    fn strategy(&self, tier: Tier) -> BoxedStrategy<SeededCase> {
        (problem_spec(tier.pick(10, 24)), config_spec(tier.pick(25, 120)), any::<u64>(), 0u8..11, prop_oneof![Just(255u8), 0u8..9], 0u8..3)
            .prop_map(|(spec, config, seed, recreate, ruin, extra)| SeededCase { spec, config, seed, recreate, ruin, extra })
            .boxed()
    }
    fn cases(&self, tier: Tier) -> u32 {
        tier.pick(1_200, 30_000)
    }
    fn shards(&self, _tier: Tier) -> u32 {
        16
    }
    fn max_shrink_iters(&self) -> u32 {
        100
    }
    fn check(&self, c: &SeededCase, stats: &Stats) -> Check {
        let rendered = render(&c.spec);
        let core = read_core(&rendered.problem, &rendered.matrices).map_err(|e| Failure::new("harness:generator-invalid", format!("generated problem was rejected: {e}")))?;
        let env = quiet_env(c.seed, Parallelism::new(1, 1), None);
        // initial solutions: constructions of the problem (the same objects the solver itself would start from)
        let pool = ThreadPool::new(1);
        let build = |recreate: u8, ruin: u8| -> InsertionContext {
            pool.execute(|| {
                let rctx = RefinementContext::new(core.clone(), Box::new(create_elitism_population(core.goal.clone(), env.clone())), TelemetryMode::None, env.clone());
                let first = super::ops::make_recreate(recreate, env.random.clone()).run(&rctx, InsertionContext::new(core.clone(), env.clone()));
                if ruin == 255 {
                    first
                } else {
                    let ruined = super::ops::make_ruin(ruin, &core).run(&rctx, first);
                    super::ops::make_recreate(recreate.wrapping_add(5), env.random.clone()).run(&rctx, ruined)
                }
            })
        };
        let mut initial = vec![build(c.recreate, c.ruin)];
        for k in 0..c.extra {
            initial.push(build(c.recreate.wrapping_add(1 + k), 255));
        }
        let goal = core.goal.clone();
        // the best offered individual
        // (the configured size of the initial population limits how many offered solutions are taken: it is at least 2 in every
        // generated configuration, so only the first two count as offered)
        let best = initial.iter().take(2).min_by(|a, b| goal.total_order(a, b)).unwrap().deep_copy();
        let fitness_before: Vec<Vec<f64>> = initial.iter().map(|s| goal.fitness(s).collect()).collect();
        let best_before: Vec<f64> = goal.fitness(&best).collect();
        let mut cfg = render_config(&c.config);
        if std::env::var("VERIF_KEEP_STDOUT").is_ok() {
            cfg["environment"]["logging"] = json!({"enabled": true});
            cfg["telemetry"] = json!({"progress": {"enabled": true, "logBest": 1, "logPopulation": 1}});
        }
        let config = parse_config(&cfg).map_err(|e| Failure::new("harness:config-invalid", e))?;
        let offered: Vec<InsertionContext> = initial.iter().map(|s| s.deep_copy()).collect();
        // the solver's own last step (Solver::solve) is: run the evolution, take the first individual of the returned population
        let result = guard(|| {
            let builder = create_builder_from_config(core.clone(), offered, &config)?;
            let config = builder.build()?;
            rosomaxa::evolution::EvolutionSimulator::new(config)?.run()
        });
        let returned = match result {
            Ok(Ok((mut solutions, _))) => {
                if solutions.is_empty() {
                    return Err(Failure::new("seeded:error", "seeded solve returned an empty population".to_string()));
                }
                solutions.remove(0)
            }
            Ok(Err(e)) => return Err(Failure::new("seeded:error", format!("seeded solve returned an error: {e}"))),
            Err(p) => return Err(Failure::new(format!("seeded:panic:{}", panic_site(&p)), format!("seeded solve panicked: {p}"))),
        };
        stats.eval();
        // Both are compared as the solver holds them (InsertionContext) under the problem's goal. (Converting them to the
        // public Solution and back is not neutral: pending marker jobs such as breaks move from `required` to `unassigned`,
        // where the unassigned-jobs objective counts them.)
        let (fr, fo): (Vec<f64>, Vec<f64>) = (goal.fitness(&returned).collect(), goal.fitness(&best).collect());
        let order = goal.total_order(&returned, &best);
        let pending = |ctx: &InsertionContext| {
            use vrp_core::models::problem::JobIdDimension;
            let ids = |it: &mut dyn Iterator<Item = &vrp_core::models::problem::Job>| it.map(|j| j.dimens().get_job_id().cloned().unwrap_or_default()).collect::<Vec<_>>();
            format!("unassigned {:?} required {:?} ignored {:?}", ids(&mut ctx.solution.unassigned.keys()), ids(&mut ctx.solution.required.iter()), ids(&mut ctx.solution.ignored.iter()))
        };
        ensure!(order != Ordering::Greater, "seeded:returned-worse-than-initial", "the solve returned fitness {fr:?} ({}), the best offered initial solution has {fo:?} ({}) (objectives {:?}); offered before the run {fitness_before:?}, best before the run {best_before:?}; config {cfg}", pending(&returned), pending(&best), rendered.problem.objectives);
        if order == Ordering::Less {
            stats.class("seeded.improved");
        } else {
            stats.class("seeded.kept_initial_fitness");
        }
        if best.solution.routes.len() >= 2 && !best.solution.unassigned.is_empty() {
            stats.class("seeded.initial_multi_tour_with_unassigned");
        }
        stats.nontrivial(hash_of(&format!("{c:?}")));
        stats.class(&format!("seeded.population.{}", c.config.population));
        stats.class(&format!("seeded.hyper.{}", c.config.hyper));
        stats.class(&format!("seeded.initial_solutions.{}", initial.len()));
        stats.sample(1, || json!({"kind": "seeded_solve_not_worse", "objectives": rendered.problem.objectives, "initial_fitness": fo, "returned_fitness": fr, "config": cfg}));
        Ok(())
    }
}
