//! C10: problem validation is total and matches its documented rules (fault injection over valid
//! documents judged by a three-valued reference reading of docs/.../errors/index.md; broken JSON).

use super::common::{T0, fmt_time, parse_time};
use super::pgen::{ProblemSpec, for_each_location, problem_spec, render};
use crate::fw::*;
use proptest::prelude::*;
use serde::{Deserialize, Serialize};
use serde_json::json;
use std::collections::{BTreeMap, BTreeSet, HashMap, HashSet};
use vrp_pragmatic::format::problem::{self as api, Objective as Obj, PragmaticProblem};
use vrp_pragmatic::format::{CustomLocationType, Location as Loc, MultiFormatError};

const PROPERTY: &str = "C10";

#[derive(Clone, Debug, Serialize, Deserialize)]
pub struct FaultSel {
    pub kind: String,
    pub a: u16,
    pub b: u16,
    pub c: u16,
}

#[derive(Clone, Debug, Serialize, Deserialize)]
pub struct ValCase {
    pub spec: ProblemSpec,
    /// all locations as geo coordinates, read without matrices (approximated routing)
    pub geo: bool,
    pub faults: Vec<FaultSel>,
}

#[derive(Clone)]
struct Doc {
    p: api::Problem,
    m: Vec<api::Matrix>,
    approx: bool,
}

struct Applied {
    label: String,
    not_first: bool,
    /// generic codes (E0xxx) the reader may answer with for this fault
    allow: &'static [&'static str],
}

impl Applied {
    /// Name used in panic signatures: families with one root condition (checked on the final document as
    /// `Rules::derived`) are not split by variant.
    fn sig(&self) -> &str {
        ["matrix.ragged", "relation.special-id-dangling"].into_iter().find(|f| self.label.starts_with(f)).unwrap_or(self.label.as_str())
    }
}

// ---------------------------------------------------------------------------------------------
// reading (code under test)
// ---------------------------------------------------------------------------------------------

fn ser<T: Serialize>(v: &T) -> String {
    serde_json::to_string(v).unwrap_or_default()
}

fn codes_of(r: Result<vrp_core::models::Problem, MultiFormatError>) -> Vec<String> {
    match r {
        Ok(_) => vec![],
        Err(e) if e.errors.is_empty() => vec!["EMPTY-ERROR-LIST".to_string()],
        Err(e) => e.errors.iter().map(|e| e.code.clone()).collect(),
    }
}

/// Ok(codes) (empty = accepted) or Err(panic message).
fn read(d: &Doc, text: bool) -> Result<Vec<String>, String> {
    guard(|| {
        codes_of(match (text, d.approx) {
            (false, false) => (d.p.clone(), d.m.clone()).read_pragmatic(),
            (false, true) => d.p.clone().read_pragmatic(),
            (true, false) => (ser(&d.p), d.m.iter().map(ser).collect::<Vec<_>>()).read_pragmatic(),
            (true, true) => ser(&d.p).read_pragmatic(),
        })
    })
}

// ---------------------------------------------------------------------------------------------
// reference reading of the documented rules (three-valued)
// ---------------------------------------------------------------------------------------------

const ALL_RULES: [&str; 38] = [
    "E1100", "E1101", "E1102", "E1103", "E1104", "E1105", "E1106", "E1107", "E1200", "E1201", "E1202", "E1203", "E1204", "E1205", "E1206", "E1207", "E1300", "E1301", "E1302", "E1303", "E1304", "E1306", "E1307", "E1308", "E1500", "E1501",
    "E1502", "E1503", "E1504", "E1505", "E1600", "E1601", "E1602", "E1603", "E1604", "E1605", "E1606", "E1607",
];
const MALFORMED: [&str; 9] = ["", "not-a-date", "2020-01-01", "2020-13-01T00:00:00Z", "2020-02-30T00:00:00Z", "2020-01-01T25:00:00Z", "2020-01-01T00:00:00", "1577836800", "2020-01-01T00:00:00ZZ"];

#[derive(Clone, Copy, PartialEq, Debug)]
enum Tm {
    At(i64),
    Bad,
    Unknown,
}

/// Strict RFC3339 (upper case T/Z) => At; member of the clearly malformed list => Bad; else Unknown.
fn ptime(s: &str) -> Tm {
    let b = s.as_bytes();
    let dig = |i: usize| b.get(i).is_some_and(|c| c.is_ascii_digit());
    let num = |i: usize| ((b[i] - b'0') as i64) * 10 + (b[i + 1] - b'0') as i64;
    if b.len() >= 20 && [0, 1, 2, 3, 5, 6, 8, 9, 11, 12, 14, 15, 17, 18].iter().all(|i| dig(*i)) && b[4] == b'-' && b[7] == b'-' && b[10] == b'T' && b[13] == b':' && b[16] == b':' {
        let (y, mo, d, h, mi, se) = (num(0) * 100 + num(2), num(5), num(8), num(11), num(14), num(17));
        let dim = match mo {
            1 | 3 | 5 | 7 | 8 | 10 | 12 => 31,
            4 | 6 | 9 | 11 => 30,
            2 if y % 4 == 0 && (y % 100 != 0 || y % 400 == 0) => 29,
            2 => 28,
            _ => 0,
        };
        let mut k = 19;
        let mut frac_ok = true;
        if b[k] == b'.' {
            k += 1;
            let s0 = k;
            while dig(k) {
                k += 1;
            }
            frac_ok = k > s0;
        }
        let tail = &s[k..];
        let tz_ok = tail == "Z" || (tail.len() == 6 && (b[k] == b'+' || b[k] == b'-') && dig(k + 1) && dig(k + 2) && b[k + 3] == b':' && dig(k + 4) && dig(k + 5) && num(k + 1) <= 23 && num(k + 4) <= 59);
        if y >= 1 && d >= 1 && d <= dim && h <= 23 && mi <= 59 && se <= 59 && frac_ok && tz_ok {
            if let Some(t) = parse_time(s) {
                return Tm::At(t);
            }
        }
    }
    if MALFORMED.contains(&s) { Tm::Bad } else { Tm::Unknown }
}

#[derive(Default)]
struct Rules {
    broken: BTreeMap<&'static str, BTreeSet<String>>,
    unspec: BTreeSet<&'static str>,
    /// fault families whose defining condition holds on the document (possibly produced by a combination
    /// of other faults); used to attribute panics: sparse index set, dangling special relation ids
    derived: Vec<String>,
}

impl Rules {
    fn b(&mut self, code: &'static str, site: impl Into<String>) {
        self.broken.entry(code).or_default().insert(site.into());
    }
    fn u(&mut self, code: &'static str) {
        self.unspec.insert(code);
    }
}

fn nc(n: usize) -> &'static str {
    if n >= 3 { "n3+" } else { "n1-2" }
}

/// Time-window rules of E1103: (broken kinds, unspecified?, well-formed windows).
fn analyse(tws: &[Vec<String>], pairs: bool) -> (Vec<&'static str>, bool, Vec<(i64, i64)>) {
    let (mut broken, mut unspec, mut ok) = (vec![], tws.is_empty(), vec![]);
    for tw in tws {
        if tw.len() != 2 {
            broken.push("arity");
            continue;
        }
        match (ptime(&tw[0]), ptime(&tw[1])) {
            (Tm::Bad, _) | (_, Tm::Bad) => broken.push("malformed"),
            (Tm::At(a), Tm::At(b)) if a > b => broken.push("inverted"),
            (Tm::At(a), Tm::At(b)) => {
                unspec |= a == b; // docs: "start date is earlier than end date"; code accepts equality
                ok.push((a, b));
            }
            _ => unspec = true,
        }
    }
    for i in 0..ok.len() {
        for j in (i + 1)..ok.len() {
            let (a, b) = (ok[i], ok[j]);
            if a.0 < b.1 && b.0 < a.1 {
                if pairs {
                    broken.push("intersect");
                } else {
                    unspec = true;
                }
            } else if pairs && a.0 <= b.1 && b.0 <= a.1 {
                unspec = true; // touching windows
            }
        }
    }
    (broken, unspec, ok)
}

fn reserved(id: &str) -> bool {
    matches!(id, "departure" | "arrival" | "break" | "reload")
}

fn task_count(j: &api::Job) -> usize {
    [&j.pickups, &j.deliveries, &j.replacements, &j.services].iter().map(|t| t.as_ref().map_or(0, |t| t.len())).sum()
}

fn is_cost(o: &Obj) -> bool {
    matches!(o, Obj::MinimizeCost | Obj::MinimizeDistance | Obj::MinimizeDuration)
}

fn reference(d: &Doc) -> Rules {
    let mut r = Rules::default();
    let p = &d.p;
    // ---- E11xx jobs
    let mut id_count = HashMap::<&str, usize>::new();
    for j in &p.plan.jobs {
        *id_count.entry(j.id.as_str()).or_default() += 1;
    }
    if id_count.values().any(|c| *c > 1) {
        r.b("E1100", "jobs");
    }
    for j in &p.plan.jobs {
        let kinds = [("pickups", &j.pickups), ("deliveries", &j.deliveries), ("replacements", &j.replacements), ("services", &j.services)];
        if reserved(&j.id) {
            r.b("E1104", "jobs");
        }
        if task_count(j) == 0 {
            r.b("E1105", "jobs");
        }
        for (kind, tasks) in kinds.iter() {
            for t in tasks.iter().flatten() {
                match (&t.demand, *kind == "services") {
                    (None, false) => r.b("E1101", format!("{kind}:missing")),
                    (Some(dm), _) if dm.is_empty() => r.u("E1101"),
                    (Some(_), true) => r.b("E1101", "services:present"),
                    _ => {}
                }
                if t.demand.iter().flatten().any(|x| *x < 0) {
                    r.b("E1107", *kind);
                }
                for pl in &t.places {
                    if pl.duration < 0. {
                        r.b("E1106", *kind);
                    } else if pl.duration.is_sign_negative() {
                        r.u("E1106");
                    }
                    if let Some(tws) = &pl.times {
                        let (broken, unspec, _) = analyse(tws, true);
                        for w in broken {
                            r.b("E1103", format!("{kind}:{w}:{}", nc(tws.len())));
                        }
                        if unspec {
                            r.u("E1103");
                        }
                    }
                }
            }
        }
        if let (Some(pk), Some(dl)) = (j.pickups.as_ref().filter(|t| !t.is_empty()), j.deliveries.as_ref().filter(|t| !t.is_empty())) {
            let demands = pk.iter().chain(dl.iter()).map(|t| t.demand.clone()).collect::<Vec<_>>();
            let len = demands.iter().flatten().map(|dm| dm.len()).max().unwrap_or(0);
            if demands.iter().any(|dm| dm.as_ref().is_none_or(|dm| dm.len() != len)) {
                r.u("E1102");
            } else {
                let sum = |ts: &Vec<api::JobTask>| (0..len).map(|k| ts.iter().map(|t| t.demand.as_ref().unwrap()[k] as i64).sum::<i64>()).collect::<Vec<_>>();
                if sum(pk) != sum(dl) {
                    r.b("E1102", "jobs");
                }
            }
        }
    }
    // ---- E13xx vehicles
    let type_ids = p.fleet.vehicles.iter().map(|v| v.type_id.as_str()).collect::<Vec<_>>();
    if type_ids.iter().collect::<HashSet<_>>().len() < type_ids.len() {
        r.b("E1300", "vehicles");
    }
    let mut vid_count = HashMap::<&str, usize>::new();
    for id in p.fleet.vehicles.iter().flat_map(|v| v.vehicle_ids.iter()) {
        *vid_count.entry(id.as_str()).or_default() += 1;
    }
    if vid_count.values().any(|c| *c > 1) {
        r.b("E1301", "vehicles");
    }
    let resources = p.fleet.resources.iter().flatten().map(|api::VehicleResource::Reload { id, .. }| id.as_str()).collect::<Vec<_>>();
    if resources.iter().collect::<HashSet<_>>().len() < resources.len() {
        r.b("E1308", "duplicate-resource");
    }
    for v in &p.fleet.vehicles {
        if v.costs.distance == 0. && v.costs.time == 0. {
            r.b("E1306", "vehicles");
        }
        let n = v.shifts.len();
        if n == 0 {
            r.u("E1302"); // code rejects a type without shifts, docs are silent
        }
        let mut closed = vec![];
        for s in &v.shifts {
            let st = ptime(&s.start.earliest);
            let en = s.end.as_ref().map(|e| ptime(&e.latest));
            match (st, en) {
                (Tm::Bad, _) | (_, Some(Tm::Bad)) => r.b("E1302", format!("shift:malformed:{}", nc(n))),
                (Tm::At(a), Some(Tm::At(b))) if a > b => r.b("E1302", format!("shift:inverted:{}", nc(n))),
                (Tm::At(a), Some(Tm::At(b))) => {
                    if a == b {
                        r.u("E1302");
                    }
                    closed.push((a, b));
                }
                (Tm::At(a), None) => {
                    // how an open-ended shift intersects with others is not documented, unless it starts after all of them
                    let last = v.shifts.iter().filter(|o| !std::ptr::eq(*o, s)).all(|o| matches!(o.end.as_ref().map(|e| ptime(&e.latest)), Some(Tm::At(b)) if b < a));
                    if !last {
                        r.u("E1302");
                    }
                }
                _ => r.u("E1302"),
            }
            if let Some(l) = s.start.latest.as_ref() {
                // start.latest is not mentioned by any rule
                match (ptime(l), st, en) {
                    (Tm::At(l), Tm::At(a), en) if l >= a && en.is_none_or(|e| matches!(e, Tm::At(b) if l <= b)) => {}
                    _ => r.u("E1302"),
                }
            }
            if s.end.as_ref().and_then(|e| e.earliest.as_ref()).is_some_and(|e| !matches!(ptime(e), Tm::At(_))) {
                r.u("E1302");
            }
            let shift_tw = match (st, en) {
                (Tm::At(a), None) => Some((a, i64::MAX)),
                (Tm::At(a), Some(Tm::At(b))) if a <= b => Some((a, b)),
                _ => None,
            };
            let inside = |r: &mut Rules, code: &'static str, what: &str, ok: &[(i64, i64)], total: usize| match shift_tw {
                Some((a, b)) => {
                    for w in ok {
                        if w.1 < a || w.0 > b {
                            r.b(code, format!("{what}:outside-shift:{}", nc(total)));
                        } else if w.0 < a || w.1 > b {
                            r.u(code); // docs: "inside vehicle shift", code: intersects
                        }
                    }
                }
                None if !ok.is_empty() => r.u(code),
                None => {}
            };
            // E1303 / E1307 breaks
            if let Some(breaks) = &s.breaks {
                let mut tws = vec![];
                let (mut offset, mut required) = (false, 0);
                for br in breaks {
                    match br {
                        api::VehicleBreak::Optional { time: api::VehicleOptionalBreakTime::TimeWindow(tw), .. } => tws.push(tw.clone()),
                        api::VehicleBreak::Optional { time: api::VehicleOptionalBreakTime::TimeOffset(o), .. } => {
                            offset = true;
                            if o.len() != 2 || o[0] > o[1] || o[0] < 0. {
                                r.u("E1303");
                            }
                        }
                        api::VehicleBreak::Required { time, .. } => {
                            offset |= matches!(time, api::VehicleRequiredBreakTime::OffsetTime { .. });
                            required += 1;
                            r.u("E1303"); // required breaks: rule text only describes time windows
                        }
                    }
                }
                let (broken, unspec, ok) = analyse(&tws, true);
                for w in broken {
                    r.b("E1303", format!("break:{w}:{}", nc(tws.len() + required)));
                }
                if unspec && !tws.is_empty() {
                    r.u("E1303");
                }
                inside(&mut r, "E1303", "break", &ok, tws.len() + required);
                if offset {
                    match s.start.latest.as_ref() {
                        None => r.b("E1307", "latest-missing"),
                        Some(l) if *l == s.start.earliest => {}
                        Some(l) => match (ptime(l), st) {
                            (Tm::At(l), Tm::At(a)) if l != a => r.b("E1307", "latest-differs"),
                            _ => r.u("E1307"),
                        },
                    }
                }
            }
            // E1304 / E1308 reloads
            if let Some(reloads) = &s.reloads {
                let total = reloads.iter().map(|x| x.times.as_ref().map_or(0, |t| t.len())).sum::<usize>();
                for rl in reloads {
                    if let Some(tws) = &rl.times {
                        let (broken, unspec, ok) = analyse(tws, false);
                        for w in broken {
                            r.b("E1304", format!("reload:{w}:{}", nc(total)));
                        }
                        if unspec {
                            r.u("E1304");
                        }
                        inside(&mut r, "E1304", "reload", &ok, total);
                    }
                    if rl.resource_id.as_ref().is_some_and(|id| !resources.contains(&id.as_str())) {
                        r.b("E1308", "unknown-resource");
                    }
                }
            }
        }
        for i in 0..closed.len() {
            for j in (i + 1)..closed.len() {
                let (a, b) = (closed[i], closed[j]);
                if a.0 < b.1 && b.0 < a.1 {
                    r.b("E1302", format!("shift:intersect:{}", nc(n)));
                } else if a.0 <= b.1 && b.0 <= a.1 {
                    r.u("E1302");
                }
            }
        }
    }
    reference_relations(d, &mut r, &id_count, &vid_count);
    reference_routing(d, &mut r);
    reference_objectives(d, &mut r);
    r
}

fn reference_relations(d: &Doc, r: &mut Rules, id_count: &HashMap<&str, usize>, vid_count: &HashMap<&str, usize>) {
    let p = &d.p;
    let Some(relations) = p.plan.relations.as_ref() else { return };
    let job = |id: &str| p.plan.jobs.iter().find(|j| j.id == id);
    let mut assigned = HashMap::<&str, &str>::new();
    if p.plan.jobs.iter().any(|j| reserved(&j.id)) {
        // a plan job carrying a reserved id makes every mention of that id in a relation ambiguous
        for code in ["E1200", "E1201", "E1202", "E1203", "E1204", "E1205", "E1206", "E1207"] {
            r.u(code);
        }
    }
    for rel in relations {
        let real = rel.jobs.iter().filter(|id| !reserved(id)).collect::<Vec<_>>();
        if real.is_empty() {
            r.b("E1202", "relations");
        }
        let ambiguous_job = real.iter().any(|id| id_count.get(id.as_str()).is_some_and(|c| *c > 1));
        for id in real.iter() {
            match job(id) {
                None => r.b("E1200", "relations"),
                Some(j) => {
                    let multi = [&j.pickups, &j.deliveries, &j.replacements, &j.services].iter().flat_map(|t| t.iter().flatten()).any(|t| t.places.len() > 1 || t.places.iter().any(|pl| pl.times.as_ref().is_some_and(|t| t.len() > 1)));
                    if ambiguous_job {
                        r.u("E1203"); // which of the jobs sharing the id is meant is not defined
                    } else if multi && matches!(rel.type_field, api::RelationType::Any) {
                        r.u("E1203"); // docs: "strict or sequence relation"; code also rejects `any`
                    } else if multi {
                        r.b("E1203", "relations");
                    }
                    if ambiguous_job {
                        r.u("E1207");
                    } else if rel.jobs.iter().filter(|x| x == id).count() != task_count(j) {
                        r.b("E1207", "relations");
                    }
                }
            }
            if *assigned.entry(id.as_str()).or_insert(rel.vehicle_id.as_str()) != rel.vehicle_id.as_str() {
                r.b("E1204", "relations");
            }
        }
        match p.fleet.vehicles.iter().find(|v| v.vehicle_ids.contains(&rel.vehicle_id)) {
            None => r.b("E1201", "relations"),
            Some(_) if vid_count.get(rel.vehicle_id.as_str()).is_some_and(|c| *c > 1) => {
                r.u("E1205");
                r.u("E1206");
            }
            Some(v) => match (rel.shift_index, v.shifts.get(rel.shift_index.unwrap_or(0))) {
                (Some(_), None) => r.b("E1205", "relations"),
                (None, None) => r.u("E1205"),
                (_, Some(s)) => {
                    let optional = s.breaks.iter().flatten().filter(|b| matches!(b, api::VehicleBreak::Optional { .. })).count();
                    let count = |id: &str| rel.jobs.iter().filter(|x| *x == id).count();
                    if (s.breaks.is_some() && count("break") > optional) || s.reloads.as_ref().is_some_and(|x| count("reload") > x.len()) {
                        r.derived.push("relation.special-id-dangling".to_string());
                        // the docs do not say whether "more reserved ids than definitions" is E1206: either answer is accepted
                        r.u("E1206");
                    }
                    for id in rel.jobs.iter() {
                        let (missing, empty) = match id.as_str() {
                            "break" => (s.breaks.is_none(), s.breaks.as_ref().is_some_and(|b| b.is_empty())),
                            "reload" => (s.reloads.is_none(), s.reloads.as_ref().is_some_and(|b| b.is_empty())),
                            "arrival" => (s.end.is_none(), false),
                            _ => (false, false),
                        };
                        if missing {
                            r.b("E1206", id.clone());
                        } else if empty {
                            r.u("E1206");
                        }
                    }
                }
            },
        }
    }
}

fn all_locations(p: &api::Problem) -> Vec<Loc> {
    let mut pc = p.clone();
    let mut locs = vec![];
    for_each_location(&mut pc.plan, &mut pc.fleet.vehicles, &mut |l| locs.push(l.clone()));
    for s in p.fleet.vehicles.iter().flat_map(|v| v.shifts.iter()) {
        locs.extend(s.recharges.iter().flat_map(|rc| rc.stations.iter().map(|st| st.location.clone())));
    }
    locs
}

fn reference_routing(d: &Doc, r: &mut Rules) {
    let p = &d.p;
    let names = p.fleet.profiles.iter().map(|x| x.name.as_str()).collect::<Vec<_>>();
    if names.iter().collect::<HashSet<_>>().len() < names.len() {
        r.b("E1500", "profiles");
    }
    if names.is_empty() {
        r.b("E1501", "profiles");
    }
    let clustering = p.plan.clustering.iter().map(|api::Clustering::Vicinity { profile, .. }| ("clustering", profile.matrix.as_str()));
    for (site, name) in p.fleet.vehicles.iter().map(|v| ("vehicle", v.profile.matrix.as_str())).chain(clustering) {
        if !names.contains(&name) {
            r.b("E1505", site);
        }
    }
    let locs = all_locations(p);
    let indices = locs.iter().filter_map(|l| if let Loc::Reference { index } = l { Some(*index) } else { None }).collect::<BTreeSet<_>>();
    let geo = locs.iter().filter_map(|l| if let Loc::Coordinate { lat, lng } = l { Some((lat.to_bits(), lng.to_bits())) } else { None }).collect::<BTreeSet<_>>();
    let (has_idx, has_geo) = (!indices.is_empty(), !geo.is_empty());
    if has_idx && has_geo {
        r.b("E1502", "locations");
    }
    if has_idx && d.m.is_empty() {
        r.b("E1503", "matrices");
    }
    if !has_idx && !has_geo {
        r.u("E1504"); // a document without any index/geo location: code compares 1 with the matrix size
    }
    if d.m.is_empty() {
        return;
    }
    let sizes = d.m.iter().flat_map(|m| [m.distances.len(), m.travel_times.len()].into_iter().chain(m.error_codes.as_ref().map(|e| e.len()))).collect::<BTreeSet<_>>();
    let size = (*sizes.iter().next().unwrap() as f64).sqrt().round() as usize;
    if sizes.len() != 1 || size * size != *sizes.iter().next().unwrap() {
        r.derived.push("matrix.ragged".to_string());
    }
    if (has_idx && has_geo) || sizes.len() != 1 || size * size != *sizes.iter().next().unwrap() {
        r.u("E1504");
    } else {
        let (count, max) = if has_idx { (indices.len(), *indices.iter().next_back().unwrap()) } else { (geo.len(), geo.len().max(1) - 1) };
        if has_idx && count <= size && max >= size {
            r.derived.push(format!("matrix.sparse-index:{}", if max < size + 100 { "near" } else { "huge" }));
        }
        if count > size {
            r.b("E1504", "more-locations-than-matrix");
        } else if max > size {
            r.b("E1504", "sparse-index");
        } else if max == size || count < size {
            r.u("E1504"); // off-by-one wording / matrix larger than needed: code demands equality
        }
    }
}

fn reference_objectives(d: &Doc, r: &mut Rules) {
    let p = &d.p;
    let values = p.plan.jobs.iter().filter_map(|j| j.value).collect::<Vec<_>>();
    let orders = p.plan.jobs.iter().flat_map(|j| j.all_tasks_iter()).filter_map(|t| t.order).collect::<Vec<_>>();
    let non_positive = values.iter().any(|v| *v < 1.) || orders.iter().any(|o| *o < 1);
    let Some(objs) = p.objectives.as_ref() else {
        if non_positive {
            r.u("E1605"); // rule text is unconditional, section header scopes E16xx to the `objectives` property
        }
        return;
    };
    if non_positive {
        r.b("E1605", "jobs");
    }
    if objs.is_empty() {
        r.b("E1600", "objectives");
    }
    let nested = objs.iter().flat_map(|o| if let Obj::MultiObjective { objectives, .. } = o { objectives.clone() } else { vec![] }).collect::<Vec<_>>();
    let tag = |o: &Obj| std::mem::discriminant(o);
    let top = objs.iter().filter(|o| !matches!(o, Obj::MultiObjective { .. })).collect::<Vec<_>>();
    if top.iter().map(|o| tag(o)).collect::<HashSet<_>>().len() < top.len() {
        r.b("E1601", "objectives");
    } else if top.iter().map(|o| tag(o)).chain(nested.iter().map(tag)).collect::<HashSet<_>>().len() < top.len() + nested.len() {
        r.u("E1601");
    }
    if !objs.iter().chain(nested.iter()).any(is_cost) {
        r.b("E1602", "objectives");
    }
    let top_cost = objs.iter().filter(|o| is_cost(o)).count();
    if top_cost > 1 {
        r.b("E1606", "objectives");
    } else if top_cost + nested.iter().filter(|o| is_cost(o)).count() > 1 {
        r.u("E1606");
    }
    let is_value = |o: &Obj| matches!(o, Obj::MaximizeValue { .. });
    let (top_value, nested_value) = (objs.iter().any(is_value), nested.iter().any(is_value));
    if !values.iter().any(|v| *v > 0.) {
        if top_value && values.iter().all(|v| *v == 0.) {
            r.b("E1603", "objectives");
        } else if top_value || nested_value {
            r.u("E1603");
        }
    } else if !top_value {
        if nested_value || objs.is_empty() { r.u("E1607") } else { r.b("E1607", "objectives") }
    }
    if !values.is_empty() && !values.iter().any(|v| *v > 0.) && !top_value {
        r.u("E1607"); // "jobs with value set" vs code's value > 0
    }
    let (top_order, nested_order) = (objs.iter().any(|o| matches!(o, Obj::TourOrder)), nested.iter().any(|o| matches!(o, Obj::TourOrder)));
    if !orders.iter().any(|o| *o > 0) {
        if top_order && orders.iter().all(|o| *o == 0) {
            r.b("E1604", "objectives");
        } else if top_order || nested_order {
            r.u("E1604");
        }
    }
}

// ---------------------------------------------------------------------------------------------
// fault catalogue
// ---------------------------------------------------------------------------------------------

const FAMILIES: [&str; 51] = [
    "job.duplicate-id", "job.demand-missing", "job.service-demand", "job.unbalanced", "job.reserved-id", "job.empty", "job.negative-duration", "job.negative-demand",
    "tw.malformed", "tw.inverted", "tw.intersect", "tw.arity", "tw.outside-shift",
    "vehicle.duplicate-type-id", "vehicle.duplicate-id", "vehicle.zero-costs", "break.offset-rescheduling", "reload.resource",
    "relation.valid", "relation.unknown-job", "relation.unknown-vehicle", "relation.empty", "relation.multi-place-job", "relation.two-vehicles", "relation.bad-shift-index", "relation.special-id-undefined", "relation.incomplete-job", "relation.special-id-dangling", "relation.special-id-valid",
    "profile.duplicate", "profile.empty", "profile.unknown", "location.mixed", "matrix.none", "matrix.too-small", "matrix.too-large", "matrix.sparse-index", "matrix.ragged", "matrix.profile-mix",
    "objective.empty", "objective.duplicate", "objective.no-cost", "objective.value-redundant", "objective.order-redundant", "objective.non-positive", "objective.multi-cost", "objective.value-missing", "objective.exotic", "objective.nested",
    "misc.vector", "misc.scalar",
];
const MISC_MORE: [&str; 6] = ["misc.empty-collection", "misc.break-offset", "misc.required-break", "misc.shift-time", "misc.recharge", "misc.custom-location"];

fn tt(v: i64) -> String {
    fmt_time(T0 + v)
}

/// n disjoint windows [base + k*step, base + k*step + len] (relative to T0).
fn windows(n: usize, base: i64, step: i64, len: i64) -> Vec<Vec<String>> {
    (0..n as i64).map(|k| vec![tt(base + k * step), tt(base + k * step + len)]).collect()
}

/// Breaks window `w` of a list produced by `windows` (needs len >= 10, step >= 2*len).
fn corrupt(what: &str, tws: &mut [Vec<String>], w: usize, base: i64, step: i64, len: i64, sel: usize) {
    match what {
        "malformed" => tws[w][sel % 2] = MALFORMED[(sel / 2) % MALFORMED.len()].to_string(),
        "inverted" => tws[w].swap(0, 1),
        "arity" => match sel % 3 {
            0 => tws[w].truncate(1),
            1 => tws[w].push(tt(base + w as i64 * step + len + 1)),
            _ => tws[w].clear(),
        },
        "intersect" if w > 0 => tws[w] = vec![tt(base + (w as i64 - 1) * step + len / 5), tt(base + (w as i64 - 1) * step + len + len / 5)],
        "intersect" => tws[w] = vec![tt(base + step - len / 2), tt(base + step + len / 5)],
        _ => {}
    }
}

fn task_lists(j: &mut api::Job) -> [(&'static str, &mut Option<Vec<api::JobTask>>); 4] {
    [("pickups", &mut j.pickups), ("deliveries", &mut j.deliveries), ("replacements", &mut j.replacements), ("services", &mut j.services)]
}

fn any_location(p: &api::Problem) -> Option<Loc> {
    p.fleet.vehicles.iter().flat_map(|v| v.shifts.iter()).map(|s| s.start.location.clone()).next().or_else(|| all_locations(p).into_iter().next())
}

fn dims(p: &api::Problem) -> usize {
    p.fleet.vehicles.first().map_or(1, |v| v.capacity.len().clamp(1, 8))
}

/// Shift bounds relative to T0 (end of an open shift: start + 100000).
fn shift_span(s: &api::VehicleShift) -> Option<(i64, i64, bool)> {
    let Tm::At(a) = ptime(&s.start.earliest) else { return None };
    let b = match s.end.as_ref().map(|e| ptime(&e.latest)) {
        None => a + 100_000,
        Some(Tm::At(b)) => b,
        _ => return None,
    };
    (b - a >= 100).then_some((a - T0, b - T0, s.end.is_some()))
}

fn window_break(tw: Vec<String>) -> api::VehicleBreak {
    api::VehicleBreak::Optional { time: api::VehicleOptionalBreakTime::TimeWindow(tw), places: vec![api::VehicleOptionalBreakPlace { duration: 10., location: None, tag: None }], policy: None }
}

fn pick_shift(d: &mut Doc, sel: usize) -> Option<(usize, usize, &mut api::VehicleShift)> {
    let all = d.p.fleet.vehicles.iter().enumerate().flat_map(|(vi, v)| (0..v.shifts.len()).map(move |si| (vi, si))).collect::<Vec<_>>();
    let (vi, si) = *all.get(sel % all.len().max(1))?;
    Some((vi, si, &mut d.p.fleet.vehicles[vi].shifts[si]))
}

fn valid_objectives(p: &api::Problem) -> Vec<Obj> {
    let mut o = vec![Obj::MinimizeUnassigned { breaks: None }, Obj::MinimizeTours, Obj::MinimizeCost];
    if p.plan.jobs.iter().any(|j| j.value.is_some_and(|v| v > 0.)) {
        o.insert(0, Obj::MaximizeValue { breaks: None });
    }
    o
}

fn apply(d: &mut Doc, f: &FaultSel) -> Option<Applied> {
    let (a, b, c) = (f.a as usize, f.b as usize, f.c as usize);
    let (nj, nv) = (d.p.plan.jobs.len(), d.p.fleet.vehicles.len());
    let kind = f.kind.as_str();
    let done = |detail: &str, not_first: bool, allow: &'static [&'static str]| Some(Applied { label: if detail.is_empty() { kind.to_string() } else { format!("{kind}:{detail}") }, not_first, allow });
    // index of a job having a task with demand (pickup/delivery/replacement)
    let demand_job = |d: &Doc, sel: usize| {
        let v = d.p.plan.jobs.iter().enumerate().filter(|(_, j)| j.pickups.iter().chain(j.deliveries.iter()).chain(j.replacements.iter()).any(|t| !t.is_empty())).map(|(i, _)| i).collect::<Vec<_>>();
        v.get(sel % v.len().max(1)).copied()
    };
    match kind {
        // ---------------- jobs
        "job.duplicate-id" => {
            if nj == 0 {
                return None;
            }
            if nj == 1 {
                let j = d.p.plan.jobs[0].clone();
                d.p.plan.jobs.push(j);
            }
            let k = 1 + a % (d.p.plan.jobs.len() - 1);
            d.p.plan.jobs[k].id = d.p.plan.jobs[b % k].id.clone();
            done("", true, &[])
        }
        "job.demand-missing" | "job.negative-demand" => {
            let ji = demand_job(d, a)?;
            let mut lists = task_lists(&mut d.p.plan.jobs[ji]);
            let mut tasks = lists[..3].iter_mut().flat_map(|(k, t)| t.iter_mut().flatten().map(move |t| (*k, t))).collect::<Vec<_>>();
            let ti = b % tasks.len();
            let (site, task) = &mut tasks[ti];
            if kind == "job.demand-missing" {
                task.demand = None;
            } else {
                let dm = task.demand.get_or_insert_with(|| vec![1]);
                if dm.is_empty() {
                    dm.push(1);
                }
                let k = c % dm.len();
                dm[k] = -1 - (c % 7) as i32;
            }
            done(site, ji > 0 || ti > 0, &[])
        }
        "job.service-demand" => {
            let place = api::JobPlace { location: any_location(&d.p)?, duration: 1., times: None, tag: None };
            let dm = vec![1; dims(&d.p)];
            let j = d.p.plan.jobs.get_mut(a % nj.max(1))?;
            j.services.get_or_insert_with(Vec::new).push(api::JobTask { places: vec![place], demand: Some(dm), order: None });
            done("", a % nj > 0 || j.services.as_ref().unwrap().len() > 1, &[])
        }
        "job.unbalanced" => {
            let place = api::JobPlace { location: any_location(&d.p)?, duration: 1., times: None, tag: None };
            let dm = vec![2; dims(&d.p)];
            let j = d.p.plan.jobs.get_mut(a % nj.max(1))?;
            if !(j.pickups.as_ref().is_some_and(|t| !t.is_empty()) && j.deliveries.as_ref().is_some_and(|t| !t.is_empty())) {
                let task = api::JobTask { places: vec![place], demand: Some(dm), order: None };
                (j.pickups, j.deliveries, j.replacements, j.services) = (Some(vec![task.clone()]), Some(vec![task]), None, None);
            }
            let dl = j.deliveries.as_mut().unwrap().last_mut().unwrap();
            let dm = dl.demand.get_or_insert_with(|| vec![0]);
            if dm.is_empty() {
                dm.push(0);
            }
            let k = b % dm.len();
            dm[k] += 1 + (c % 3) as i32;
            done("", a % nj > 0 || k > 0, &[])
        }
        "job.reserved-id" => {
            d.p.plan.jobs.get_mut(a % nj.max(1))?.id = ["departure", "arrival", "break", "reload"][b % 4].to_string();
            done("", a % nj > 0, &[])
        }
        "job.empty" => {
            let j = d.p.plan.jobs.get_mut(a % nj.max(1))?;
            (j.pickups, j.deliveries, j.replacements, j.services) = ((b & 1 > 0).then(Vec::new), (b & 2 > 0).then(Vec::new), (b & 4 > 0).then(Vec::new), (b & 8 > 0).then(Vec::new));
            done("", a % nj > 0, &[])
        }
        "job.negative-duration" => {
            let ji = a % nj.max(1);
            let mut lists = task_lists(d.p.plan.jobs.get_mut(ji)?);
            let mut places = lists.iter_mut().flat_map(|(k, t)| { let k: &'static str = *k; t.iter_mut().flatten().flat_map(move |t| t.places.iter_mut().map(move |p| (k, p))) }).collect::<Vec<_>>();
            let pi = b % places.len().max(1);
            let (site, place) = places.get_mut(pi)?;
            place.duration = [-1., -0.5, -1e300, -30.][c % 4];
            done(site, ji > 0 || pi > 0, &[])
        }
        // ---------------- time windows at every site
        "tw.malformed" | "tw.inverted" | "tw.intersect" | "tw.arity" | "tw.outside-shift" => {
            let what = &kind[3..];
            let site = match what {
                "outside-shift" => 5 + a % 2,
                "arity" => [0, 1, 2, 3, 5, 6][a % 6],
                _ => a % 7,
            };
            let mut n = [1, 2, 3, 3, 4][c % 5];
            if what == "intersect" {
                n = n.max(2);
            }
            let w = b % n;
            let sel = c / 5;
            match site {
                0..=3 => {
                    let site_name = ["pickups", "deliveries", "replacements", "services"][site];
                    let mut tws = windows(n, 0, 1000, 500);
                    corrupt(what, &mut tws, w, 0, 1000, 500, a / 7);
                    let ji = sel % nj.max(1);
                    // keep the job's own location so that the set of used locations does not shrink
                    let location = d.p.plan.jobs.get(ji)?.all_tasks_iter().flat_map(|t| t.places.iter()).map(|p| p.location.clone()).next().or_else(|| any_location(&d.p))?;
                    let place = api::JobPlace { location, duration: 1., times: Some(tws), tag: None };
                    let task = api::JobTask { places: vec![place], demand: (site != 3).then(|| vec![1; dims(&d.p)]), order: None };
                    let j = d.p.plan.jobs.get_mut(ji)?;
                    (j.pickups, j.deliveries, j.replacements, j.services) = (None, None, None, None);
                    *task_lists(j)[site].1 = Some(vec![task]);
                    done(&format!("{site_name}:{}", nc(n)), w > 0 || ji > 0, &[])
                }
                4 => {
                    let vi = sel % nv.max(1);
                    let v = d.p.fleet.vehicles.get_mut(vi)?;
                    let mut template = v.shifts.first()?.clone();
                    (template.breaks, template.reloads, template.recharges, template.start.latest) = (None, None, None, None);
                    let mut tws = windows(n, 0, 100_000, 20_000);
                    corrupt(what, &mut tws, w, 0, 100_000, 20_000, a / 7);
                    v.shifts = tws
                        .into_iter()
                        .map(|tw| {
                            let mut s = template.clone();
                            s.start.earliest = tw[0].clone();
                            s.end = Some(api::ShiftEnd { earliest: None, latest: tw[1].clone(), location: template.end.as_ref().map_or(s.start.location.clone(), |e| e.location.clone()) });
                            s
                        })
                        .collect();
                    done(&format!("shift:{}", nc(n)), w > 0 || vi > 0, &[])
                }
                _ => {
                    let (vi, si, shift) = pick_shift(d, sel)?;
                    let (s0, s1, closed) = shift_span(shift)?;
                    let step = (s1 - s0) / (n as i64 + 1);
                    let (base, len) = (s0 + step / 4, step / 2);
                    let mut tws = windows(n, base, step, len);
                    corrupt(what, &mut tws, w, base, step, len, a / 7);
                    if what == "outside-shift" {
                        tws[w] = if closed { vec![tt(s1 + 1000), tt(s1 + 1500)] } else { vec![tt(s0 - 2000), tt(s0 - 1500)] };
                    }
                    if site == 5 {
                        shift.breaks = Some(tws.into_iter().map(window_break).collect());
                    } else {
                        let reload = |times: Vec<Vec<String>>| api::VehicleReload { location: shift.start.location.clone(), duration: 5., times: Some(times), tag: None, resource_id: None };
                        shift.reloads = Some(if (a / 7) % 2 == 0 { tws.into_iter().map(|tw| reload(vec![tw])).collect() } else { vec![reload(tws)] });
                    }
                    done(&format!("{}:{}", if site == 5 { "break" } else { "reload" }, nc(n)), w > 0 || vi > 0 || si > 0, &[])
                }
            }
        }
        // ---------------- vehicles
        "vehicle.duplicate-type-id" => {
            if nv == 0 {
                return None;
            }
            if nv == 1 {
                let mut v = d.p.fleet.vehicles[0].clone();
                v.vehicle_ids = v.vehicle_ids.iter().map(|id| format!("{id}_copy")).collect();
                d.p.fleet.vehicles.push(v);
            }
            let k = 1 + a % (d.p.fleet.vehicles.len().max(2) - 1);
            d.p.fleet.vehicles.get_mut(k)?.type_id = d.p.fleet.vehicles[b % k].type_id.clone();
            done("", true, &[])
        }
        "vehicle.duplicate-id" => {
            let ids = d.p.fleet.vehicles.iter().flat_map(|v| v.vehicle_ids.iter().cloned()).collect::<Vec<_>>();
            let id = ids.get(a % ids.len().max(1))?.clone();
            let vi = b % nv;
            d.p.fleet.vehicles[vi].vehicle_ids.push(id);
            done("", true, &[])
        }
        "vehicle.zero-costs" => {
            let v = d.p.fleet.vehicles.get_mut(a % nv.max(1))?;
            (v.costs.distance, v.costs.time) = (0., 0.);
            done("", a % nv > 0, &[])
        }
        "break.offset-rescheduling" => {
            let (vi, si, shift) = pick_shift(d, a)?;
            let (s0, _, _) = shift_span(shift)?;
            shift.start.latest = [None, Some(tt(s0 + 50)), Some(tt(s0 + 1))][b % 3].clone();
            let br = if c % 2 == 0 {
                api::VehicleBreak::Optional { time: api::VehicleOptionalBreakTime::TimeOffset(vec![10., 60.]), places: vec![api::VehicleOptionalBreakPlace { duration: 10., location: None, tag: None }], policy: None }
            } else {
                api::VehicleBreak::Required { time: api::VehicleRequiredBreakTime::OffsetTime { earliest: 10., latest: 60. }, duration: 10. }
            };
            shift.breaks.get_or_insert_with(Vec::new).push(br);
            done(if c % 2 == 0 { "optional" } else { "required" }, vi > 0 || si > 0, &[])
        }
        "reload.resource" => {
            if a % 2 == 0 {
                let res = d.p.fleet.resources.get_or_insert_with(Vec::new);
                if res.is_empty() {
                    res.push(api::VehicleResource::Reload { id: "resX".into(), capacity: vec![5] });
                }
                let copy = res[b % res.len()].clone();
                res.push(copy);
                done("duplicate", true, &[])
            } else {
                let (vi, si, shift) = pick_shift(d, b)?;
                let location = shift.start.location.clone();
                let reloads = shift.reloads.get_or_insert_with(Vec::new);
                if reloads.is_empty() {
                    reloads.push(api::VehicleReload { location, duration: 5., times: None, tag: None, resource_id: None });
                }
                let k = c % reloads.len();
                reloads[k].resource_id = Some("ghost_resource".into());
                done("unknown", vi > 0 || si > 0 || k > 0, &[])
            }
        }
        _ => apply_more(d, f),
    }
}

/// A relation valid by the documented rules: known vehicle/shift, simple jobs listed once per task.
fn valid_relation(p: &api::Problem, a: usize, b: usize, c: usize) -> Option<api::Relation> {
    let simple = p.plan.jobs.iter().filter(|j| !reserved(&j.id) && task_count(j) > 0 && p.plan.jobs.iter().filter(|x| x.id == j.id).count() == 1).filter(|j| j.all_tasks_iter().all(|t| t.places.len() == 1 && t.places[0].times.as_ref().is_none_or(|t| t.len() <= 1))).collect::<Vec<_>>();
    let vehicles = p.fleet.vehicles.iter().filter(|v| !v.shifts.is_empty()).flat_map(|v| v.vehicle_ids.iter().map(move |id| (id, v.shifts.len()))).collect::<Vec<_>>();
    let (vehicle_id, shifts) = *vehicles.get(b % vehicles.len().max(1))?;
    if simple.is_empty() {
        return None;
    }
    let mut jobs = vec![];
    for k in 0..(1 + c % 3).min(simple.len()) {
        let j = simple[(c / 3 + k) % simple.len()];
        if !jobs.contains(&j.id) {
            jobs.extend(std::iter::repeat_n(j.id.clone(), task_count(j)));
        }
    }
    if (c / 16) % 4 == 0 {
        jobs.insert(0, "departure".to_string());
    }
    let type_field = [api::RelationType::Any, api::RelationType::Sequence, api::RelationType::Strict][a % 3].clone();
    Some(api::Relation { type_field, jobs, vehicle_id: vehicle_id.clone(), shift_index: ((b / 8) % 2 == 0).then_some((b / 16) % shifts) })
}

fn apply_more(d: &mut Doc, f: &FaultSel) -> Option<Applied> {
    let (a, b, c) = (f.a as usize, f.b as usize, f.c as usize);
    let (nj, nv) = (d.p.plan.jobs.len(), d.p.fleet.vehicles.len());
    let kind = f.kind.as_str();
    let done = |detail: &str, not_first: bool, allow: &'static [&'static str]| Some(Applied { label: if detail.is_empty() { kind.to_string() } else { format!("{kind}:{detail}") }, not_first, allow });
    if kind.starts_with("relation.") {
        let mut rel = valid_relation(&d.p, a, b, c)?;
        let first_real = rel.jobs.iter().position(|id| !reserved(id))?;
        let shift_of = |d: &mut Doc, rel: &api::Relation| -> Option<(usize, usize)> {
            let vi = d.p.fleet.vehicles.iter().position(|v| v.vehicle_ids.contains(&rel.vehicle_id))?;
            Some((vi, rel.shift_index.unwrap_or(0)))
        };
        let mut detail = String::new();
        match kind {
            "relation.valid" => {}
            "relation.unknown-job" => rel.jobs.insert(1 + a % rel.jobs.len(), "ghost_job".into()),
            "relation.unknown-vehicle" => rel.vehicle_id = "ghost_vehicle".into(),
            "relation.empty" => rel.jobs = [vec![], vec!["departure".to_string()], vec!["departure".to_string(), "arrival".to_string()]][(a / 3) % 3].clone(),
            "relation.multi-place-job" => {
                let id = rel.jobs[first_real].clone();
                let j = d.p.plan.jobs.iter_mut().find(|j| j.id == id)?;
                let mut lists = task_lists(j);
                let task = lists.iter_mut().flat_map(|(_, t)| t.iter_mut().flatten()).next()?;
                if (a / 3) % 2 == 0 {
                    let copy = task.places[0].clone();
                    task.places.push(copy);
                } else {
                    task.places[0].times = Some(windows(2, 0, 1000, 500));
                }
                detail = format!("{:?}", rel.type_field).to_lowercase();
            }
            "relation.two-vehicles" => {
                let other = d.p.fleet.vehicles.iter().filter(|v| !v.shifts.is_empty()).flat_map(|v| v.vehicle_ids.iter()).find(|id| **id != rel.vehicle_id).cloned();
                let other = other.unwrap_or_else(|| {
                    let vi = d.p.fleet.vehicles.iter().position(|v| v.vehicle_ids.contains(&rel.vehicle_id)).unwrap_or(0);
                    d.p.fleet.vehicles[vi].vehicle_ids.push("extra_vehicle".into());
                    "extra_vehicle".into()
                });
                let mut second = rel.clone();
                (second.vehicle_id, second.shift_index) = (other, None);
                d.p.plan.relations.get_or_insert_with(Vec::new).push(rel.clone());
                rel = second;
            }
            "relation.bad-shift-index" => {
                let (vi, _) = shift_of(d, &rel)?;
                rel.shift_index = Some(d.p.fleet.vehicles[vi].shifts.len() + (a / 3) % 3);
            }
            "relation.special-id-undefined" => {
                let (vi, si) = shift_of(d, &rel)?;
                let s = d.p.fleet.vehicles[vi].shifts.get_mut(si)?;
                let special = ["break", "reload", "arrival"][(a / 3) % 3];
                match special {
                    "break" => s.breaks = None,
                    "reload" => s.reloads = None,
                    _ => s.end = None,
                }
                rel.jobs.push(special.to_string());
                detail = special.to_string();
            }
            "relation.special-id-valid" => {
                // VALID documents: the reserved id `break` names the optional break of the shift, also when required breaks are
                // listed next to it (before or after); `reload` names a defined reload
                let (vi, si) = shift_of(d, &rel)?;
                let s = d.p.fleet.vehicles[vi].shifts.get_mut(si)?;
                let (s0, s1, _) = shift_span(s)?;
                let required = || api::VehicleBreak::Required { time: api::VehicleRequiredBreakTime::OffsetTime { earliest: 10., latest: 20. }, duration: 5. };
                // (E1303: break windows of a shift must not intersect - the required one spans [s0+10, s0+25])
                let optional = || window_break(vec![tt(s0 + 40), tt((s0 + s1) / 2 + 40)]);
                match (a / 3) % 4 {
                    0 => s.breaks = Some(vec![optional()]),
                    1 => {
                        s.start.latest = Some(s.start.earliest.clone());
                        s.breaks = Some(vec![required(), optional()]);
                    }
                    2 => {
                        s.start.latest = Some(s.start.earliest.clone());
                        s.breaks = Some(vec![optional(), required()]);
                    }
                    _ => s.reloads = Some(vec![api::VehicleReload { location: s.start.location.clone(), duration: 0., times: None, tag: None, resource_id: None }]),
                }
                rel.jobs.push(if (a / 3) % 4 == 3 { "reload" } else { "break" }.to_string());
                detail = ["optional-break", "required-then-optional-break", "optional-then-required-break", "reload"][(a / 3) % 4].to_string();
            }
            "relation.incomplete-job" => {
                let id = rel.jobs[first_real].clone();
                if (a / 3) % 2 == 0 && rel.jobs.iter().filter(|x| **x == id).count() > 1 {
                    rel.jobs.remove(first_real);
                } else {
                    rel.jobs.push(id);
                }
            }
            _ => {
                // special ids whose shift property exists but does not provide (enough) conditional jobs
                let (vi, si) = shift_of(d, &rel)?;
                let s = d.p.fleet.vehicles[vi].shifts.get_mut(si)?;
                let (s0, s1, _) = shift_span(s)?;
                detail = ["empty-breaks", "empty-reloads", "more-ids-than-breaks", "required-break-only"][(a / 3) % 4].to_string();
                match (a / 3) % 4 {
                    0 => s.breaks = Some(vec![]),
                    1 => s.reloads = Some(vec![]),
                    2 => s.breaks = Some(vec![window_break(vec![tt(s0 + 10), tt((s0 + s1) / 2)])]),
                    _ => {
                        s.start.latest = Some(s.start.earliest.clone());
                        s.breaks = Some(vec![api::VehicleBreak::Required { time: api::VehicleRequiredBreakTime::OffsetTime { earliest: 10., latest: 20. }, duration: 5. }]);
                    }
                }
                let special = if (a / 3) % 4 == 1 { "reload" } else { "break" };
                rel.jobs.extend(std::iter::repeat_n(special.to_string(), if (a / 3) % 4 == 2 { 2 } else { 1 }));
            }
        }
        let rels = d.p.plan.relations.get_or_insert_with(Vec::new);
        rels.push(rel);
        return done(&detail, rels.len() > 1 || first_real > 0, &[]);
    }
    match kind {
        // ---------------- routing
        "profile.duplicate" => {
            let copy = d.p.fleet.profiles.get(a % d.p.fleet.profiles.len().max(1))?.clone();
            d.p.fleet.profiles.push(copy);
            done("", true, &[])
        }
        "profile.empty" => {
            d.p.fleet.profiles.clear();
            done("", false, &[])
        }
        "profile.unknown" => {
            if a % 3 == 0 {
                let matrix = if b % 2 == 0 { "ghost_profile".to_string() } else { d.p.fleet.profiles.first()?.name.clone() };
                d.p.plan.clustering = Some(api::Clustering::Vicinity {
                    profile: api::VehicleProfile { matrix, scale: None },
                    threshold: api::VicinityThresholdPolicy { duration: 10., distance: 10., min_shared_time: None, smallest_time_window: None, max_jobs_per_cluster: Some(2) },
                    visiting: api::VicinityVisitPolicy::Continue,
                    serving: api::VicinityServingPolicy::Original { parking: 0. },
                    filtering: None,
                });
                done(if b % 2 == 0 { "clustering" } else { "clustering-known" }, true, &["E0000"])
            } else {
                d.p.fleet.vehicles.get_mut(b % nv.max(1))?.profile.matrix = "ghost_profile".into();
                done("vehicle", b % nv > 0, &[])
            }
        }
        "location.mixed" => {
            let other = if d.approx { Loc::Reference { index: 0 } } else { Loc::Coordinate { lat: 52.5, lng: 13.4 } };
            let total = all_locations(&d.p).len();
            let (mut k, target) = (0, a % total.max(1));
            for_each_location(&mut d.p.plan, &mut d.p.fleet.vehicles, &mut |l| {
                if k == target {
                    *l = other.clone();
                }
                k += 1;
            });
            done("", target > 0, &["E0002"])
        }
        "matrix.none" | "matrix.too-small" | "matrix.too-large" | "matrix.sparse-index" | "matrix.ragged" | "matrix.profile-mix" if d.approx || d.m.is_empty() => None,
        "matrix.none" => {
            d.m.clear();
            done("", false, &[])
        }
        "matrix.too-small" | "matrix.too-large" => {
            let n = (d.m[0].distances.len() as f64).sqrt().round() as usize;
            let m = if kind == "matrix.too-small" { n.checked_sub(1 + (a % 2).min(n.saturating_sub(1)))? } else { n + 1 + a % 2 };
            let resize = |v: &Vec<i64>| (0..m * m).map(|k| if k / m < n && k % m < n { v.get((k / m) * n + k % m).copied().unwrap_or(7) } else { 7 }).collect::<Vec<_>>();
            for mx in d.m.iter_mut() {
                (mx.distances, mx.travel_times, mx.error_codes) = (resize(&mx.distances), resize(&mx.travel_times), mx.error_codes.as_ref().map(|e| resize(e).iter().map(|x| (*x == 1) as i64).collect()));
            }
            done("", false, &[])
        }
        "matrix.sparse-index" => {
            let n = (d.m[0].distances.len() as f64).sqrt().round() as usize;
            let index = n + [1, 2, 7, 1 << 20, 1 << 40][b % 5];
            let total = all_locations(&d.p).len();
            let (mut k, target) = (0, a % total.max(1));
            for_each_location(&mut d.p.plan, &mut d.p.fleet.vehicles, &mut |l| {
                if k == target {
                    *l = Loc::Reference { index };
                }
                k += 1;
            });
            done(if b % 5 < 3 { "near" } else { "huge" }, target > 0, &[])
        }
        "matrix.ragged" => {
            let k = a % d.m.len();
            match b % 4 {
                0 => d.m[k].travel_times.push(1),
                1 => {
                    d.m[k].distances.pop();
                    d.m[k].travel_times.pop();
                }
                2 => d.m[k].error_codes = Some(vec![0; d.m[k].distances.len() / 2 + 1]),
                _ => d.m[k].error_codes = Some(vec![1; d.m[k].distances.len() + 3]),
            }
            done(["times-longer", "non-square", "codes-shorter", "codes-longer"][b % 4], k > 0, &["E0002"])
        }
        "matrix.profile-mix" => {
            let k = a % d.m.len();
            match b % 4 {
                0 => d.m[k].profile = None,
                1 => d.m[k].profile = Some("ghost_profile".into()),
                2 => d.m[k].timestamp = Some(tt(0)),
                _ => d.m[k].timestamp = Some(MALFORMED[c % MALFORMED.len()].into()),
            }
            done(["no-profile", "unknown-profile", "timestamp", "timestamp-malformed"][b % 4], k > 0, &["E0002"])
        }
        // ---------------- objectives
        "objective.empty" => {
            d.p.objectives = Some(vec![]);
            done("", false, &[])
        }
        "objective.duplicate" | "objective.multi-cost" | "objective.exotic" | "objective.nested" | "objective.order-redundant" => {
            let mut o = valid_objectives(&d.p);
            let extra = match kind {
                "objective.duplicate" => o[a % o.len()].clone(),
                "objective.multi-cost" => [Obj::MinimizeDistance, Obj::MinimizeDuration][a % 2].clone(),
                "objective.order-redundant" => {
                    for j in d.p.plan.jobs.iter_mut() {
                        task_lists(j).iter_mut().flat_map(|(_, t)| t.iter_mut().flatten()).for_each(|t| t.order = None);
                    }
                    Obj::TourOrder
                }
                "objective.exotic" => [
                    Obj::MaximizeTours,
                    Obj::MinimizeArrivalTime,
                    Obj::BalanceMaxLoad,
                    Obj::BalanceActivities,
                    Obj::BalanceDistance,
                    Obj::BalanceDuration,
                    Obj::FastService,
                    Obj::CompactTour { job_radius: [0, 1, 3, 1000][c % 4] },
                    Obj::HierarchicalAreas { levels: c % 4 },
                ][a % 9]
                    .clone(),
                _ => {
                    let inner = vec![o.pop().unwrap(), Obj::MinimizeTours];
                    let multi = |objectives: Vec<Obj>, k: usize| Obj::MultiObjective { strategy: [api::MultiStrategy::Sum, api::MultiStrategy::WeightedSum { weights: vec![1.; objectives.len()] }, api::MultiStrategy::WeightedSum { weights: vec![1.] }][k % 3].clone(), objectives };
                    match a % 3 {
                        0 => multi(inner, c),
                        1 => {
                            o.push(Obj::MinimizeCost);
                            multi(inner, c)
                        }
                        _ => multi(vec![multi(inner, 0), Obj::MinimizeArrivalTime], c),
                    }
                }
            };
            let pos = b % (o.len() + 1);
            o.insert(pos, extra);
            d.p.objectives = Some(o);
            done(&if kind == "objective.exotic" { format!("{}", a % 9) } else if kind == "objective.nested" { format!("{}", a % 3) } else { String::new() }, pos > 0, if matches!(kind, "objective.exotic" | "objective.nested") { &["E0000"] } else { &[] })
        }
        "objective.no-cost" => {
            let mut o = valid_objectives(&d.p);
            o.retain(|x| !is_cost(x));
            d.p.objectives = Some(o);
            done("", true, &[])
        }
        "objective.value-redundant" => {
            d.p.plan.jobs.iter_mut().for_each(|j| j.value = None);
            let mut o = valid_objectives(&d.p);
            o.insert(a % (o.len() + 1), Obj::MaximizeValue { breaks: None });
            d.p.objectives = Some(o);
            done("", a % 4 > 0, &[])
        }
        "objective.non-positive" => {
            let ji = a % nj.max(1);
            let j = d.p.plan.jobs.get_mut(ji)?;
            match b % 4 {
                3 => task_lists(j).iter_mut().flat_map(|(_, t)| t.iter_mut().flatten()).next()?.order = Some([0, -2][c % 2]),
                k => j.value = Some([0., 0.5, -3.][k]),
            }
            if (b / 4) % 4 != 0 {
                d.p.objectives = Some(valid_objectives(&d.p));
            }
            done(["value-zero", "value-fraction", "value-negative", "order"][b % 4], ji > 0, &[])
        }
        "objective.value-missing" => {
            d.p.plan.jobs.get_mut(a % nj.max(1))?.value = Some(5.);
            d.p.objectives = Some(vec![Obj::MinimizeUnassigned { breaks: None }, Obj::MinimizeTours, Obj::MinimizeCost]);
            done("", a % nj > 0, &[])
        }
        _ => apply_misc(d, f),
    }
}

/// Schema-shaped values in fields no documented rule mentions (totality; acceptance where no rule is broken).
fn apply_misc(d: &mut Doc, f: &FaultSel) -> Option<Applied> {
    let (a, b, c) = (f.a as usize, f.b as usize, f.c as usize);
    let (nj, nv) = (d.p.plan.jobs.len(), d.p.fleet.vehicles.len());
    let kind = f.kind.as_str();
    let done = |detail: &str, not_first: bool, allow: &'static [&'static str]| Some(Applied { label: format!("{kind}:{detail}"), not_first, allow });
    let offset_break = |time: Vec<f64>| api::VehicleBreak::Optional { time: api::VehicleOptionalBreakTime::TimeOffset(time), places: vec![api::VehicleOptionalBreakPlace { duration: 10., location: None, tag: None }], policy: None };
    match kind {
        "misc.vector" => {
            if a % 2 == 0 {
                let vi = b % nv.max(1);
                d.p.fleet.vehicles.get_mut(vi)?.capacity = [vec![], vec![i32::MAX / 4], vec![-5], vec![1; 9], vec![0]][c % 5].clone();
                done(["capacity-empty", "capacity-huge", "capacity-negative", "capacity-9-dims", "capacity-zero"][c % 5], vi > 0, &[])
            } else {
                let jobs = d.p.plan.jobs.iter().enumerate().filter(|(_, j)| j.pickups.iter().chain(j.deliveries.iter()).chain(j.replacements.iter()).any(|t| !t.is_empty())).map(|(i, _)| i).collect::<Vec<_>>();
                let ji = *jobs.get(b % jobs.len().max(1))?;
                let mut lists = task_lists(&mut d.p.plan.jobs[ji]);
                let task = lists[..3].iter_mut().flat_map(|(_, t)| t.iter_mut().flatten()).last()?;
                let old = task.demand.clone().unwrap_or_default();
                task.demand = Some([vec![], vec![1; 9], vec![i32::MAX / 4], old.iter().copied().chain([1]).collect()][c % 4].clone());
                done(["demand-zero-length", "demand-9-dims", "demand-huge", "demand-extra-dim"][c % 4], ji > 0, &[])
            }
        }
        "misc.scalar" => {
            let vi = b % nv.max(1);
            let big = [0., -1., 1e308, 5e-324][c % 4];
            match a % 7 {
                0 => {
                    let mut lists = task_lists(d.p.plan.jobs.get_mut(b % nj.max(1))?);
                    lists.iter_mut().flat_map(|(_, t)| t.iter_mut().flatten()).flat_map(|t| t.places.iter_mut()).last()?.duration = [1e300, 5e-324, 1e9][c % 3];
                }
                1 => d.p.fleet.vehicles.get_mut(vi)?.limits = Some(api::VehicleLimits { max_distance: Some(big), max_duration: Some(big), tour_size: None }),
                2 => d.p.fleet.vehicles.get_mut(vi)?.limits = Some(api::VehicleLimits { max_distance: None, max_duration: None, tour_size: Some([0, 1, usize::MAX >> 1][c % 3]) }),
                3 => d.p.fleet.vehicles.get_mut(vi)?.profile.scale = Some(big),
                4 => d.p.fleet.vehicles.get_mut(vi)?.costs = api::VehicleCosts { fixed: Some([-5., 1e308][c % 2]), distance: [-1., 1e308][c % 2], time: [-1., 1e-300][c % 2] },
                5 => {
                    d.p.plan.jobs.get_mut(b % nj.max(1))?.value = Some(1e308);
                    d.p.objectives = None;
                }
                _ => {
                    let mi = b % d.m.len().max(1);
                    let m = d.m.get_mut(mi)?;
                    let k = c % m.distances.len().max(1);
                    *m.distances.get_mut(k)? = [i64::MAX, -7, 0][c % 3];
                    *m.travel_times.get_mut(k)? = [i64::MAX, -7, 0][(c / 3) % 3];
                }
            }
            done(["duration", "limits", "tour-size", "scale", "costs", "value", "matrix-cell"][a % 7], b % nv.max(1) > 0 || b % nj.max(1) > 0, &[])
        }
        "misc.empty-collection" => {
            let shift_sel = c;
            match a % 8 {
                0 => d.p.plan.jobs.clear(),
                1 => d.p.fleet.vehicles.clear(),
                2 => d.p.fleet.vehicles.get_mut(b % nv.max(1))?.vehicle_ids.clear(),
                3 => d.p.fleet.vehicles.get_mut(b % nv.max(1))?.shifts.clear(),
                4 | 5 => {
                    let mut lists = task_lists(d.p.plan.jobs.get_mut(b % nj.max(1))?);
                    let task = lists.iter_mut().flat_map(|(_, t)| t.iter_mut().flatten()).last()?;
                    if a % 8 == 4 {
                        task.places.clear();
                    } else {
                        task.places.last_mut()?.times = Some(vec![]);
                    }
                }
                6 => {
                    let (_, _, shift) = pick_shift(d, shift_sel)?;
                    let (s0, s1, _) = shift_span(shift)?;
                    let mut br = window_break(vec![tt(s0 + 10), tt((s0 + s1) / 2)]);
                    if let api::VehicleBreak::Optional { places, .. } = &mut br {
                        places.clear();
                    }
                    shift.breaks = Some(vec![br]);
                }
                _ => {
                    d.p.fleet.vehicles.get_mut(b % nv.max(1))?.skills = Some(vec![]);
                    d.p.plan.jobs.get_mut(c % nj.max(1))?.skills = Some(api::JobSkills { all_of: Some(vec![]), one_of: Some(vec![]), none_of: None });
                }
            }
            done(["jobs", "vehicles", "vehicle-ids", "shifts", "places", "times", "break-places", "skills"][a % 8], b % nv.max(1) > 0 || b % nj.max(1) > 0, &[])
        }
        "misc.break-offset" => {
            let (vi, si, shift) = pick_shift(d, b)?;
            shift.start.latest = Some(shift.start.earliest.clone());
            shift.breaks = Some(vec![offset_break([vec![10.], vec![10., 20., 30.], vec![-100., -10.], vec![500., 100.], vec![]][a % 5].clone())]);
            done(["arity-1", "arity-3", "negative", "inverted", "arity-0"][a % 5], vi > 0 || si > 0, &[])
        }
        "misc.required-break" => {
            let (vi, si, shift) = pick_shift(d, b)?;
            let (s0, s1, _) = shift_span(shift)?;
            shift.start.latest = Some(shift.start.earliest.clone());
            let mid = (s0 + s1) / 2;
            let time = match a % 4 {
                0 => api::VehicleRequiredBreakTime::ExactTime { earliest: tt(mid), latest: tt(mid + 10) },
                2 => api::VehicleRequiredBreakTime::ExactTime { earliest: MALFORMED[c % MALFORMED.len()].into(), latest: tt(mid + 10) },
                _ => api::VehicleRequiredBreakTime::OffsetTime { earliest: 10., latest: 20. },
            };
            shift.breaks = Some(vec![api::VehicleBreak::Required { time, duration: 5. }]);
            if a % 4 == 3 {
                shift.start.earliest = MALFORMED[c % MALFORMED.len()].into();
                shift.start.latest = Some(shift.start.earliest.clone());
            }
            done(["exact", "offset", "exact-malformed", "offset-with-malformed-shift-start"][a % 4], vi > 0 || si > 0, &[])
        }
        "misc.shift-time" => {
            let (vi, si, shift) = pick_shift(d, b)?;
            let (s0, s1, closed) = shift_span(shift)?;
            match a % 6 {
                0 => shift.start.latest = Some(MALFORMED[c % MALFORMED.len()].into()),
                1 => shift.start.latest = Some(tt(s0 - 100)),
                2 => shift.end.as_mut()?.earliest = Some(MALFORMED[c % MALFORMED.len()].into()),
                3 => shift.end.as_mut()?.earliest = Some(tt(s0 + 1)),
                4 => shift.start.earliest = shift.start.earliest.replace('Z', "+00:00"),
                _ => shift.end.as_mut()?.latest = if closed { tt(s1).replace('Z', ".000Z") } else { return None },
            }
            done(["start-latest-malformed", "start-latest-before-earliest", "end-earliest-malformed", "end-earliest", "offset-notation", "fraction"][a % 6], vi > 0 || si > 0, &[])
        }
        "misc.recharge" => {
            let (vi, si, shift) = pick_shift(d, b)?;
            let (s0, s1, _) = shift_span(shift)?;
            let times = match a % 3 {
                0 => None,
                1 => Some(vec![vec![tt(s0), MALFORMED[c % MALFORMED.len()].to_string()]]),
                _ => Some(vec![vec![tt(s1), tt(s0)]]),
            };
            shift.recharges = Some(api::VehicleRecharges { max_distance: 1000., stations: vec![api::JobPlace { location: shift.start.location.clone(), duration: 5., times, tag: None }] });
            done(["plain", "station-time-malformed", "station-time-inverted"][a % 3], vi > 0 || si > 0, &[])
        }
        "misc.custom-location" => {
            let total = all_locations(&d.p).len();
            let (mut k, target) = (0, a % total.max(1));
            for_each_location(&mut d.p.plan, &mut d.p.fleet.vehicles, &mut |l| {
                if k == target {
                    *l = Loc::Custom { r#type: CustomLocationType::Unknown };
                }
                k += 1;
            });
            done("unknown", target > 0, &[])
        }
        _ => None,
    }
}

// ---------------------------------------------------------------------------------------------
// sub-check 1: fault injection
// ---------------------------------------------------------------------------------------------

fn base_doc(case: &ValCase) -> Doc {
    let rendered = render(&case.spec);
    let mut d = Doc { p: rendered.problem, m: rendered.matrices, approx: case.geo };
    if case.geo {
        let coords = case.spec.coords.clone();
        for_each_location(&mut d.p.plan, &mut d.p.fleet.vehicles, &mut |l| {
            if let Loc::Reference { index } = l {
                let (x, y) = coords[*index % coords.len()];
                // distinct per index (indices were compacted by the renderer)
                *l = Loc::Coordinate { lat: 52. + x as f64 * 0.001 + *index as f64 * 0.0001, lng: 13. + y as f64 * 0.001 };
            }
        });
        d.m.clear();
    }
    d
}

fn build(case: &ValCase, only: Option<usize>) -> (Doc, Vec<Applied>) {
    let mut d = base_doc(case);
    let applied = case.faults.iter().enumerate().filter(|(i, _)| only.is_none_or(|o| o == *i)).filter_map(|(_, f)| apply(&mut d, f)).collect();
    (d, applied)
}

fn known(sig: &str, stats: &Stats) -> bool {
    let open = known_open(PROPERTY, sig);
    if open {
        stats.known_hit(sig);
    }
    open
}

fn judge(case: &ValCase, d: &Doc, applied: &[Applied], text: bool, stats: &Stats) -> Check {
    let form = if text { "json text" } else { "model" };
    // the text form is judged on what the text says (untagged enums may re-parse differently)
    let seen = if text {
        match serde_json::from_str::<api::Problem>(&ser(&d.p)) {
            Ok(p) => Doc { p, m: d.m.clone(), approx: d.approx },
            Err(_) => {
                stats.class("text.not-reparsable");
                return Ok(());
            }
        }
    } else {
        d.clone()
    };
    let rules = reference(&seen);
    let labels = applied.iter().map(|x| x.label.as_str()).collect::<Vec<_>>().join(" + ");
    let dump = || ser(&json!({"problem": d.p, "matrices": d.m, "read_with_matrices": !d.approx}));
    stats.eval();
    let codes = match read(d, text) {
        Ok(codes) => codes,
        Err(panic) => {
            stats.class("outcome.panic");
            // attribute to a single fault when one alone reproduces the panic
            let single = (0..case.faults.len()).filter(|_| applied.len() > 1).find_map(|i| {
                let (d1, a1) = build(case, Some(i));
                (a1.len() == 1 && read(&d1, text).is_err()).then(|| a1[0].sig().to_string())
            });
            // ... or to an applied fault whose own panic is an open known finding (family excluded from combinations)
            let single = single.or_else(|| applied.iter().filter(|_| applied.len() > 1).map(|x| x.sig().to_string()).find(|l| known_open(PROPERTY, &format!("validate:panic:{l}"))));
            // ... or to the sparse-index family when the faults together produced a sparse index set
            let single = single.or_else(|| rules.derived.first().filter(|_| applied.len() > 1).cloned());
            let sig = format!("validate:panic:{}", single.unwrap_or_else(|| if applied.is_empty() { "no-fault".to_string() } else { applied.iter().map(|x| x.sig()).collect::<Vec<_>>().join("+") }));
            if known(&sig, stats) {
                return Ok(());
            }
            return Err(Failure::new(sig, format!("read_pragmatic ({form}) panicked: {panic}\nfaults: {labels}\n{}", dump())));
        }
    };
    stats.class(if codes.is_empty() { "outcome.accepted" } else { "outcome.rejected" });
    if applied.is_empty() {
        ensure!(codes.is_empty(), "harness:generator-invalid", "generated base document was rejected with {codes:?}\n{}", dump());
    }
    for (code, sites) in rules.broken.iter() {
        stats.class(&format!("rule.{code}.broken"));
        if !codes.iter().any(|c| c == code) {
            for site in sites {
                let sig = format!("validate:accepted-broken:{code}:{site}");
                if !known(&sig, stats) {
                    return Err(Failure::new(sig, format!("documented rule {code} is broken at {site} but read_pragmatic ({form}) answered {}\nfaults: {labels}\n{}", if codes.is_empty() { "Ok".to_string() } else { format!("{codes:?}") }, dump())));
                }
            }
        }
    }
    for code in codes.iter() {
        stats.class(&format!("rule.{code}.reported"));
        let justified = rules.broken.contains_key(code.as_str()) || rules.unspec.contains(code.as_str()) || applied.iter().any(|x| x.allow.contains(&code.as_str()));
        if !justified {
            let sig = format!("validate:spurious-code:{code}");
            if !known(&sig, stats) {
                let why = if ALL_RULES.contains(&code.as_str()) { "no rule of that code is broken by the document" } else { "the code is not justified by any applied fault" };
                return Err(Failure::new(sig, format!("read_pragmatic ({form}) reported {codes:?}: {why}\nfaults: {labels}\n{}", dump())));
            }
        }
    }
    for code in rules.unspec.iter() {
        stats.class(&format!("unspecified.{code}"));
    }
    Ok(())
}

pub struct FaultProp;

impl Prop for FaultProp {
    type Case = ValCase;
    fn name(&self) -> &'static str {
        "validate_faults"
    }
    fn strategy(&self, tier: Tier) -> BoxedStrategy<ValCase> {
        let names = FAMILIES.iter().chain(MISC_MORE.iter()).map(|s| s.to_string()).collect::<Vec<_>>();
        let fault = (prop::sample::select(names), any::<u16>(), any::<u16>(), any::<u16>()).prop_map(|(kind, a, b, c)| FaultSel { kind, a, b, c });
        let faults = prop_oneof![6 => prop::collection::vec(fault.clone(), 1), 3 => prop::collection::vec(fault.clone(), 2), 1 => prop::collection::vec(fault, 3)];
        (problem_spec(tier.pick(6, 10)), prop::bool::weighted(0.15), faults).prop_map(|(spec, geo, faults)| ValCase { spec, geo, faults }).boxed()
    }
    fn cases(&self, tier: Tier) -> u32 {
        tier.pick(60_000, 3_000_000)
    }
    fn shards(&self, _tier: Tier) -> u32 {
        16
    }
    fn max_shrink_iters(&self) -> u32 {
        600
    }
    fn check(&self, case: &ValCase, stats: &Stats) -> Check {
        let base = base_doc(case);
        judge(case, &base, &[], false, stats)?;
        let (doc, applied) = build(case, None);
        for f in case.faults.iter() {
            stats.class(&format!("fault.{}", f.kind));
        }
        if applied.len() < case.faults.len() {
            stats.class("fault-not-applicable-to-document");
        }
        if applied.is_empty() {
            return Ok(());
        }
        for x in applied.iter() {
            stats.class(&format!("site.{}", x.label));
        }
        stats.class(&format!("faults.{}", applied.len()));
        stats.class(if case.geo { "form.geo-approximated" } else { "form.index-with-matrices" });
        if applied.iter().any(|x| x.not_first) {
            stats.nontrivial(hash_of(&format!("{case:?}")));
            stats.class("nontrivial");
        }
        stats.sample(3, || json!({"kind": "validate_faults", "faults": applied.iter().map(|x| x.label.clone()).collect::<Vec<_>>(), "geo": case.geo, "jobs": doc.p.plan.jobs.len()}));
        judge(case, &doc, &applied, false, stats)?;
        judge(case, &doc, &applied, true, stats)
    }
}

// ---------------------------------------------------------------------------------------------
// sub-check 2: syntactically broken / truncated / wrongly shaped JSON text
// ---------------------------------------------------------------------------------------------

#[derive(Clone, Debug, Serialize, Deserialize)]
pub struct JsonCase {
    pub spec: ProblemSpec,
    pub matrix: bool,
    pub mutation: u8,
    pub pos: u16,
}

pub struct JsonProp;

const REQUIRED_KEYS: [&str; 12] = ["\"plan\"", "\"fleet\"", "\"jobs\"", "\"vehicles\"", "\"profiles\"", "\"typeId\"", "\"vehicleIds\"", "\"costs\"", "\"shifts\"", "\"capacity\"", "\"earliest\"", "\"duration\""];

impl Prop for JsonProp {
    type Case = JsonCase;
    fn name(&self) -> &'static str {
        "validate_broken_json"
    }
    fn strategy(&self, _tier: Tier) -> BoxedStrategy<JsonCase> {
        (problem_spec(4), prop::bool::weighted(0.25), 0u8..4, any::<u16>()).prop_map(|(spec, matrix, mutation, pos)| JsonCase { spec, matrix, mutation, pos }).boxed()
    }
    fn cases(&self, tier: Tier) -> u32 {
        tier.pick(20_000, 1_000_000)
    }
    fn shards(&self, _tier: Tier) -> u32 {
        16
    }
    fn check(&self, c: &JsonCase, stats: &Stats) -> Check {
        let rendered = render(&c.spec);
        let mut problem = ser(&rendered.problem);
        let mut matrices = rendered.matrices.iter().map(ser).collect::<Vec<_>>();
        let target = if c.matrix { &mut matrices[0] } else { &mut problem };
        let original = target.clone();
        let name = match c.mutation {
            0 => {
                target.truncate(pick_idx(c.pos, original.len()));
                "truncated"
            }
            1 => {
                let structural = original.char_indices().filter(|(_, ch)| matches!(ch, '{' | '}' | '[' | ']' | '"')).map(|(i, _)| i).collect::<Vec<_>>();
                target.remove(structural[pick_idx(c.pos, structural.len())]);
                "structural-char-deleted"
            }
            2 => {
                let keys: Vec<&str> = if c.matrix { vec!["\"distances\"", "\"travelTimes\""] } else { REQUIRED_KEYS.iter().copied().filter(|k| original.contains(k)).collect() };
                *target = original.replacen(keys[pick_idx(c.pos, keys.len())], "\"zz\"", 1);
                "required-key-renamed"
            }
            _ => {
                let (from, to) = if c.matrix { ("\"distances\":[", "\"distances\":7,\"zz\":[") } else { [("\"jobs\":[", "\"jobs\":7,\"zz\":["), ("\"capacity\":[", "\"capacity\":\"x\",\"zz\":["), ("\"vehicles\":[", "\"vehicles\":{},\"zz\":[")][c.pos as usize % 3] };
                *target = original.replacen(from, to, 1);
                "wrong-type"
            }
        };
        ensure!(*target != original, "harness:json-mutation-noop", "mutation {name} did not change the text");
        let wellformed = serde_json::from_str::<serde_json::Value>(target).is_ok();
        ensure!(c.mutation >= 2 || !wellformed, "harness:json-mutation-wellformed", "mutation {name} left well-formed JSON: {target}");
        let expected = if c.matrix { "E0001" } else { "E0000" };
        let text = target.clone();
        stats.eval();
        let result = guard(|| codes_of((problem.clone(), matrices.clone()).read_pragmatic()));
        let codes = result.map_err(|p| Failure::new(format!("validate:panic:json:{name}"), format!("read_pragmatic panicked on broken JSON text: {p}\n{text}")))?;
        ensure!(codes == vec![expected.to_string()], format!("validate:json:{name}:{}", if codes.is_empty() { "accepted" } else { "wrong-code" }), "expected exactly [{expected}] for {name} JSON ({}), got {codes:?}\n{text}", if c.matrix { "matrix" } else { "problem" });
        if !c.matrix {
            // single-document form (approximated routing) goes through the same deserializer
            let codes = guard(|| codes_of(text.clone().read_pragmatic())).map_err(|p| Failure::new(format!("validate:panic:json:{name}"), format!("read_pragmatic (single text) panicked: {p}\n{text}")))?;
            ensure!(codes == vec!["E0000".to_string()], format!("validate:json:{name}:single-text"), "expected [E0000], got {codes:?}\n{text}");
        }
        stats.class(&format!("json.{name}"));
        stats.class(if c.matrix { "json.target-matrix" } else { "json.target-problem" });
        if wellformed {
            stats.class("json.wellformed-but-wrong-shape");
        }
        if c.pos > 0 {
            stats.nontrivial(hash_of(&format!("{c:?}")));
        }
        Ok(())
    }
}

pub fn property(_tier: Tier) -> PropertyDef {
    let mut required: Vec<&'static str> = vec![
        "nontrivial", "outcome.accepted", "outcome.rejected", "faults.1", "faults.2", "faults.3", "form.geo-approximated", "form.index-with-matrices",
        "json.truncated", "json.structural-char-deleted", "json.required-key-renamed", "json.wrong-type", "json.target-matrix", "json.target-problem",
    ];
    for f in FAMILIES.iter().chain(MISC_MORE.iter()) {
        required.push(Box::leak(format!("fault.{f}").into_boxed_str()));
    }
    for what in ["malformed", "inverted", "intersect"] {
        for site in ["pickups", "deliveries", "replacements", "services", "shift", "break", "reload"] {
            for n in ["n1-2", "n3+"] {
                required.push(Box::leak(format!("site.tw.{what}:{site}:{n}").into_boxed_str()));
            }
        }
    }
    for code in ALL_RULES {
        required.push(Box::leak(format!("rule.{code}.broken").into_boxed_str()));
    }
    PropertyDef {
        id: PROPERTY,
        level: "exploration",
        rule: "proptest: (validate_faults) a valid pragmatic document from the problem generator (3-9 locations, 1-6 jobs (thorough 10), 1-3 vehicle types, all generator features; 15% converted to geo coordinates and read without matrices) must be accepted; then 1-3 faults from a named catalogue of 56 families (every documented rule E1100-E1107, E1200-E1207, E1300-E1308, E1500-E1505, E1600-E1607: duplicate ids, missing/extra/negative demand, unbalanced pickup-delivery, malformed / inverted / intersecting / wrong-arity / outside-shift time windows at every site - pickups, deliveries, replacements, services, shifts, optional breaks, reloads - with 1-4 windows and every window index, reserved ids, empty jobs, relation faults, zero costs, offset break with rescheduling, resource ids, profiles, mixed locations, missing / too small / too large / sparse / ragged matrices, objective-list faults; plus schema-shaped values no rule mentions: empty/huge/negative/9-dim vectors, empty collections, extreme finite floats, wrong-arity break offsets, required breaks, start.latest / end.earliest, recharge stations, custom locations, exotic and nested objectives) are applied. Oracle per document, for the model form `(Problem, Vec<Matrix>)`/`Problem` and for the serialized text form: (a) no panic (fw::guard); (b) a reference reading of docs/src/concepts/pragmatic/errors/index.md evaluates every rule on the final document to Broken(site) / NotBroken / Unspecified: every Broken rule's code must be reported (else validate:accepted-broken:<code>:<site>), every reported code must belong to a Broken or Unspecified rule or be a generic code the applied fault allows (else validate:spurious-code:<code>); hence a document with no Broken and no Unspecified rule must be accepted. (validate_broken_json) truncated text, a deleted structural character, a renamed required key or a wrongly typed member in the problem or a matrix text must give exactly [E0000] / [E0001] and no panic. Non-trivial: >=1 fault applied and for at least one the faulted element is not the first of its collection (broken JSON: mutation position > 0). Distinct by case hash. Open known findings (known_findings.json) are counted per signature and excluded so the search continues behind them.",
        assumptions: vec![
            "the reference predicates in engines/validate.rs are a faithful three-valued reading of the error index; wherever the text is silent or visibly narrower/wider than the code (start == end windows, touching windows, partially overlapping break/reload vs shift, open-ended shifts among several, matrix larger than needed, E1203 on `any` relations, objectives nested in multi-objective, E1605 without an `objectives` property, empty `times`, zero-length demand, start.latest, end.earliest, required/offset breaks) the rule is Unspecified: counted (unspecified.<code>), never asserted",
            "date strings are taken from a strict RFC3339 generator or a fixed list of clearly malformed strings; other strings count as Unspecified",
            "only finite floats and integers within i32::MAX/4 are generated (the harness is built with overflow checks, which a release build of the library does not have)",
            "generic codes E0000/E0002 are accepted only for fault families that touch matrix/profile consistency or objective composition",
        ],
        props: vec![Box::new(FaultProp), Box::new(JsonProp)],
        extra: None,
        required_classes: required,
    }
}
