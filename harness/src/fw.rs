//! Framework: proptest driver, statistics, evidence/replay writer, known findings, stdout hygiene.

use proptest::strategy::{BoxedStrategy, Strategy};
use proptest::test_runner::{Config, RngAlgorithm, RngSeed, TestCaseError, TestError, TestRunner};
use serde::Serialize;
use serde::de::DeserializeOwned;
use serde_json::{Value, json};
use std::collections::{BTreeMap, HashSet};
use std::fmt::Debug;
use std::hash::{Hash, Hasher};
use std::io::Write;
use std::panic::{AssertUnwindSafe, catch_unwind};
use std::path::{Path, PathBuf};
use std::sync::atomic::{AtomicBool, AtomicU64, Ordering};
use std::sync::{Mutex, OnceLock};
use std::time::Instant;

#[derive(Clone, Copy, Debug, PartialEq, Eq)]
pub enum Tier {
    Quick,
    Thorough,
}

impl Tier {
    pub fn name(&self) -> &'static str {
        match self {
            Tier::Quick => "quick",
            Tier::Thorough => "thorough",
        }
    }
    /// Picks a value by tier.
    pub fn pick<T>(&self, quick: T, thorough: T) -> T {
        match self {
            Tier::Quick => quick,
            Tier::Thorough => thorough,
        }
    }
}

// ---------------------------------------------------------------------------------------------
// stdout hygiene: fd 1 -> /dev/null, harness lines go to a saved duplicate of the original stdout
// ---------------------------------------------------------------------------------------------

static OUT_FD: OnceLock<i32> = OnceLock::new();

pub fn init_stdio() {
    // debugging aid: VERIF_KEEP_STDOUT=1 keeps the library's own stdout output visible
    if std::env::var("VERIF_KEEP_STDOUT").is_ok() {
        return;
    }
    unsafe {
        let saved = libc::dup(1);
        let devnull = libc::open(c"/dev/null".as_ptr(), libc::O_WRONLY);
        if saved >= 0 && devnull >= 0 {
            libc::dup2(devnull, 1);
            libc::close(devnull);
            let _ = OUT_FD.set(saved);
        }
    }
}

pub fn out_line(line: &str) {
    let fd = OUT_FD.get().copied().unwrap_or(1);
    let data = format!("{line}\n");
    let bytes = data.as_bytes();
    let mut off = 0;
    while off < bytes.len() {
        let n = unsafe { libc::write(fd, bytes[off..].as_ptr() as *const libc::c_void, bytes.len() - off) };
        if n <= 0 {
            break;
        }
        off += n as usize;
    }
}

#[macro_export]
macro_rules! outln {
    ($($arg:tt)*) => { $crate::fw::out_line(&format!($($arg)*)) };
}

// ---------------------------------------------------------------------------------------------
// panic discipline
// ---------------------------------------------------------------------------------------------

thread_local! {
    static LAST_PANIC: std::cell::RefCell<Option<String>> = const { std::cell::RefCell::new(None) };
}

static LAST_PANIC_GLOBAL: Mutex<Option<String>> = Mutex::new(None);

pub fn init_panic_hook() {
    std::panic::set_hook(Box::new(|info| {
        let loc = info.location().map(|l| format!("{}:{}", l.file(), l.line())).unwrap_or_default();
        let msg = if let Some(s) = info.payload().downcast_ref::<&str>() {
            s.to_string()
        } else if let Some(s) = info.payload().downcast_ref::<String>() {
            s.clone()
        } else {
            "<non-string panic>".to_string()
        };
        if std::env::var("VERIF_BACKTRACE").is_ok() {
            eprintln!("PANIC {msg} @ {loc}\n{}", std::backtrace::Backtrace::force_capture());
        }
        // short backtrace of library frames (panics are rare, so the capture cost does not matter)
        let bt = std::backtrace::Backtrace::force_capture().to_string();
        let frames = bt
            .lines()
            .filter(|l| (l.contains("vrp_") || l.contains("rosomaxa::")) && !l.trim_start().starts_with("at "))
            .map(|l| l.trim().split_once(": ").map(|x| x.1).unwrap_or(l.trim()).to_string())
            .take(10)
            .collect::<Vec<_>>()
            .join(" <- ");
        let full = format!("{msg} @ {loc} [{frames}]");
        if let Ok(mut g) = LAST_PANIC_GLOBAL.lock() {
            *g = Some(full.clone());
        }
        LAST_PANIC.with(|p| *p.borrow_mut() = Some(full));
    }));
}

/// Runs closure catching panics; returns Err(panic message with location).
pub fn guard<T>(f: impl FnOnce() -> T) -> Result<T, String> {
    LAST_PANIC.with(|p| *p.borrow_mut() = None);
    match catch_unwind(AssertUnwindSafe(f)) {
        Ok(v) => Ok(v),
        Err(payload) => {
            // a panic inside a worker thread (rayon) is recorded by the hook in that thread: fall back to the global slot
            let from_hook = LAST_PANIC.with(|p| p.borrow_mut().take()).or_else(|| LAST_PANIC_GLOBAL.lock().ok().and_then(|mut g| g.take()));
            let msg = from_hook.unwrap_or_else(|| {
                if let Some(s) = payload.downcast_ref::<&str>() {
                    s.to_string()
                } else if let Some(s) = payload.downcast_ref::<String>() {
                    s.clone()
                } else {
                    "<panic>".to_string()
                }
            });
            Err(msg)
        }
    }
}

/// True when panic message comes from library code (under /repo) rather than the harness.
pub fn panic_in_repo(msg: &str) -> bool {
    msg.contains("/repo/") || msg.contains("rosomaxa/") || msg.contains("vrp-")
}

// ---------------------------------------------------------------------------------------------
// hashing helper
// ---------------------------------------------------------------------------------------------

pub fn hash_of<T: Hash + ?Sized>(v: &T) -> u64 {
    let mut h = std::collections::hash_map::DefaultHasher::new();
    v.hash(&mut h);
    h.finish()
}

pub fn hash_str(s: &str) -> u64 {
    hash_of(s)
}

pub fn mix(a: u64, b: u64) -> u64 {
    let mut x = a ^ b.wrapping_mul(0x9E37_79B9_7F4A_7C15);
    x ^= x >> 30;
    x = x.wrapping_mul(0xBF58_476D_1CE4_E5B9);
    x ^= x >> 27;
    x = x.wrapping_mul(0x94D0_49BB_1331_11EB);
    x ^ (x >> 31)
}

// ---------------------------------------------------------------------------------------------
// failures
// ---------------------------------------------------------------------------------------------

/// A failed check: signature identifies the failing class (used for known findings).
#[derive(Clone, Debug)]
pub struct Failure {
    pub signature: String,
    pub message: String,
}

impl Failure {
    pub fn new(signature: impl Into<String>, message: impl Into<String>) -> Self {
        Self { signature: signature.into(), message: message.into() }
    }
}

pub type Check = Result<(), Failure>;

#[macro_export]
macro_rules! ensure {
    ($cond:expr, $sig:expr, $($arg:tt)*) => {
        if !($cond) {
            return Err($crate::fw::Failure::new($sig, format!($($arg)*)));
        }
    };
}

// ---------------------------------------------------------------------------------------------
// statistics shared by engines
// ---------------------------------------------------------------------------------------------

#[derive(Default)]
pub struct Stats {
    pub evaluations: AtomicU64,
    nontrivial: Mutex<HashSet<u64>>,
    classes: Mutex<BTreeMap<String, u64>>,
    samples: Mutex<Vec<Value>>,
    known: Mutex<HashSet<String>>,
    frozen: AtomicBool,
}

impl Stats {
    pub fn new() -> Self {
        Self::default()
    }
    fn live(&self) -> bool {
        !self.frozen.load(Ordering::Relaxed)
    }
    pub fn eval(&self) {
        if self.live() {
            self.evaluations.fetch_add(1, Ordering::Relaxed);
        }
    }
    pub fn evals(&self, n: u64) {
        if self.live() {
            self.evaluations.fetch_add(n, Ordering::Relaxed);
        }
    }
    pub fn nontrivial(&self, hash: u64) {
        if self.live() {
            self.nontrivial.lock().unwrap().insert(hash);
        }
    }
    pub fn class(&self, name: &str) {
        self.class_n(name, 1);
    }
    pub fn class_n(&self, name: &str, n: u64) {
        if self.live() {
            *self.classes.lock().unwrap().entry(name.to_string()).or_insert(0) += n;
        }
    }
    /// Tracks a maximum instead of a count.
    pub fn class_max(&self, name: &str, v: u64) {
        if self.live() {
            let mut c = self.classes.lock().unwrap();
            let e = c.entry(name.to_string()).or_insert(0);
            *e = (*e).max(v);
        }
    }
    pub fn class_count(&self, name: &str) -> u64 {
        self.classes.lock().unwrap().get(name).copied().unwrap_or(0)
    }
    pub fn sample(&self, limit: usize, f: impl FnOnce() -> Value) {
        if self.live() {
            let mut s = self.samples.lock().unwrap();
            if s.len() < limit {
                s.push(f());
            }
        }
    }
    /// Records that an open known finding (by signature) was observed and excluded.
    pub fn known_hit(&self, signature: &str) {
        self.known.lock().unwrap().insert(signature.to_string());
        self.class(&format!("excluded_known.{signature}"));
    }
    pub fn known_hits(&self) -> Vec<String> {
        self.known.lock().unwrap().iter().cloned().collect()
    }
    pub fn freeze(&self, v: bool) {
        self.frozen.store(v, Ordering::Relaxed);
    }
    pub fn nontrivial_count(&self) -> u64 {
        self.nontrivial.lock().unwrap().len() as u64
    }
    pub fn classes(&self) -> BTreeMap<String, u64> {
        self.classes.lock().unwrap().clone()
    }
    pub fn samples(&self) -> Vec<Value> {
        self.samples.lock().unwrap().clone()
    }
}

// ---------------------------------------------------------------------------------------------
// property abstraction
// ---------------------------------------------------------------------------------------------

pub trait Prop: Sync + Send {
    type Case: Debug + Clone + Serialize + DeserializeOwned + Send + 'static;
    /// Sub-check name (unique within the harness), used in replay files.
    fn name(&self) -> &'static str;
    fn strategy(&self, tier: Tier) -> BoxedStrategy<Self::Case>;
    /// Number of cases (total over shards) for the tier.
    fn cases(&self, tier: Tier) -> u32;
    /// Preferred number of shards (threads).
    fn shards(&self, _tier: Tier) -> u32 {
        8
    }
    fn max_shrink_iters(&self) -> u32 {
        2000
    }
    fn check(&self, case: &Self::Case, stats: &Stats) -> Check;
}

/// Object-safe view.
pub trait DynProp: Sync + Send {
    fn name(&self) -> &'static str;
    fn run(&self, run: &RunCtx) -> Vec<Found>;
    fn replay(&self, case: &Value, stats: &Stats) -> Result<Check, String>;
}

#[derive(Clone, Debug)]
pub struct Found {
    pub prop: String,
    pub failure: Failure,
    pub case: Value,
}

pub struct RunCtx {
    pub property: String,
    pub tier: Tier,
    pub seed: u64,
    pub stats: Stats,
    pub start: Instant,
}

impl<P: Prop> DynProp for P {
    fn name(&self) -> &'static str {
        Prop::name(self)
    }

    fn run(&self, run: &RunCtx) -> Vec<Found> {
        if self.cases(run.tier) == 0 {
            // replay-only sub-check (used by corpus files)
            return vec![];
        }
        let total = self.cases(run.tier).max(1);
        let shards = self.shards(run.tier).clamp(1, total);
        let per = total.div_ceil(shards);
        let found: Mutex<Vec<Found>> = Mutex::new(vec![]);
        std::thread::scope(|scope| {
            for shard in 0..shards {
                let found = &found;
                scope.spawn(move || {
                    let seed = mix(mix(run.seed, hash_str(Prop::name(self))), shard as u64);
                    let config = Config {
                        cases: per,
                        failure_persistence: None,
                        rng_seed: RngSeed::Fixed(seed),
                        rng_algorithm: RngAlgorithm::ChaCha,
                        max_shrink_iters: self.max_shrink_iters(),
                        max_global_rejects: 1_000_000,
                        verbose: 0,
                        ..Config::default()
                    };
                    let mut runner = TestRunner::new(config);
                    let failed = AtomicBool::new(false);
                    let last_failure: Mutex<Option<Failure>> = Mutex::new(None);
                    // the first failing (unshrunk) case: used when the shrunk one does not reproduce (randomised code under test)
                    let first_failing: Mutex<Option<(P::Case, Failure)>> = Mutex::new(None);
                    // Stats are only counted until the first failure of this shard (proptest
                    // re-runs the closure while shrinking).
                    let local_frozen = AtomicBool::new(false);
                    let result = runner.run(&self.strategy(run.tier), |case| {
                        let counting = !local_frozen.load(Ordering::Relaxed);
                        let stats_ref: &Stats = &run.stats;
                        let scratch = Stats::new();
                        let stats = if counting { stats_ref } else { &scratch };
                        let res = guard(|| self.check(&case, stats));
                        let res = match res {
                            Ok(r) => r,
                            Err(panic) => Err(Failure::new(format!("panic:{}", panic_site(&panic)), format!("panic: {panic}"))),
                        };
                        match res {
                            Ok(()) => Ok(()),
                            Err(f) => {
                                local_frozen.store(true, Ordering::Relaxed);
                                failed.store(true, Ordering::Relaxed);
                                let msg = f.message.clone();
                                {
                                    let mut ff = first_failing.lock().unwrap();
                                    if ff.is_none() {
                                        *ff = Some((case.clone(), f.clone()));
                                    }
                                }
                                *last_failure.lock().unwrap() = Some(f);
                                Err(TestCaseError::fail(msg))
                            }
                        }
                    });
                    match result {
                        Ok(()) => {}
                        Err(TestError::Fail(_reason, case)) => {
                            // re-evaluate minimal case to get its exact failure
                            let scratch = Stats::new();
                            let res = guard(|| self.check(&case, &scratch));
                            let mut case = case;
                            let failure = match res {
                                Ok(Err(f)) => f,
                                Err(panic) => Failure::new(format!("panic:{}", panic_site(&panic)), format!("panic: {panic}")),
                                Ok(Ok(())) => {
                                    // shrunk case is flaky: report the first failing case as generated (with its failure)
                                    match first_failing.lock().unwrap().clone() {
                                        Some((orig, f)) => {
                                            case = orig;
                                            Failure::new(f.signature, format!("(randomised: shrunk case did not reproduce, this is the first failing case as generated) {}", f.message))
                                        }
                                        None => last_failure.lock().unwrap().clone().unwrap_or_else(|| Failure::new("unknown", "unknown")),
                                    }
                                }
                            };
                            found.lock().unwrap().push(Found {
                                prop: Prop::name(self).to_string(),
                                failure,
                                case: serde_json::to_value(&case).unwrap_or(Value::Null),
                            });
                        }
                        Err(TestError::Abort(reason)) => {
                            found.lock().unwrap().push(Found {
                                prop: Prop::name(self).to_string(),
                                failure: Failure::new("harness:abort", format!("proptest aborted: {reason}")),
                                case: Value::Null,
                            });
                        }
                    }
                });
            }
        });
        found.into_inner().unwrap()
    }

    fn replay(&self, case: &Value, stats: &Stats) -> Result<Check, String> {
        let case: P::Case = serde_json::from_value(case.clone()).map_err(|e| format!("cannot decode case: {e}"))?;
        Ok(match guard(|| self.check(&case, stats)) {
            Ok(r) => r,
            Err(panic) => Err(Failure::new(format!("panic:{}", panic_site(&panic)), format!("panic: {panic}"))),
        })
    }
}

/// Extracts "file:line" of a panic message produced by the hook.
pub fn panic_site(msg: &str) -> String {
    let tail = msg.rsplit(" @ ").next().unwrap_or("");
    tail.split(" [").next().unwrap_or(tail).to_string()
}

// ---------------------------------------------------------------------------------------------
// known findings
// ---------------------------------------------------------------------------------------------

#[derive(Clone, Debug, serde::Deserialize)]
pub struct KnownFinding {
    pub property: String,
    pub signature: String,
    pub status: String,
    #[serde(default)]
    pub commit: Option<String>,
    pub what: String,
}

pub fn load_known(root: &Path) -> Vec<KnownFinding> {
    let path = root.join("known_findings.json");
    match std::fs::read_to_string(&path) {
        Ok(text) => {
            let v: Value = serde_json::from_str(&text).expect("known_findings.json must parse");
            serde_json::from_value(v["findings"].clone()).expect("known_findings.json: findings[]")
        }
        Err(_) => vec![],
    }
}

/// Cached lookup used by engines to exclude open known findings from the campaign.
pub fn known_open(property: &str, signature: &str) -> bool {
    static KNOWN: OnceLock<Vec<KnownFinding>> = OnceLock::new();
    let known = KNOWN.get_or_init(|| load_known(&verif_root()));
    known.iter().any(|k| k.status == "open" && k.property == property && k.signature == signature)
}

pub fn is_known_open(known: &[KnownFinding], property: &str, signature: &str) -> Option<KnownFinding> {
    known.iter().find(|k| k.status == "open" && k.property == property && k.signature == signature).cloned()
}

// ---------------------------------------------------------------------------------------------
// evidence / verdict
// ---------------------------------------------------------------------------------------------

pub struct PropertyDef {
    pub id: &'static str,
    pub level: &'static str,
    pub rule: &'static str,
    pub assumptions: Vec<&'static str>,
    pub props: Vec<Box<dyn DynProp>>,
    /// extra hooks: run after generic props; may add to stats and return findings
    pub extra: Option<Box<dyn Fn(&RunCtx) -> Vec<Found> + Send + Sync>>,
    /// classes that must be non-zero (generator health)
    pub required_classes: Vec<&'static str>,
}

pub fn verif_root() -> PathBuf {
    std::env::var("VERIF_ROOT").map(PathBuf::from).unwrap_or_else(|_| PathBuf::from("/verif"))
}

fn write_replay(root: &Path, property: &str, seed: u64, idx: usize, found: &Found) -> PathBuf {
    let dir = root.join("replays");
    let _ = std::fs::create_dir_all(&dir);
    let path = dir.join(format!("{property}-{}-{seed}-{idx}.json", found.prop));
    let doc = json!({
        "property": property,
        "prop": found.prop,
        "seed": seed,
        "signature": found.failure.signature,
        "message": found.failure.message,
        "case": found.case,
    });
    let _ = std::fs::write(&path, serde_json::to_string_pretty(&doc).unwrap());
    path
}

/// Replays corpus + given file; returns findings.
fn replay_file(def: &PropertyDef, path: &Path, stats: &Stats) -> Vec<Found> {
    let Ok(text) = std::fs::read_to_string(path) else {
        return vec![Found {
            prop: "replay".into(),
            failure: Failure::new("harness:replay", format!("cannot read {}", path.display())),
            case: Value::Null,
        }];
    };
    let Ok(doc) = serde_json::from_str::<Value>(&text) else {
        return vec![Found {
            prop: "replay".into(),
            failure: Failure::new("harness:replay", format!("cannot parse {}", path.display())),
            case: Value::Null,
        }];
    };
    let prop_name = doc["prop"].as_str().unwrap_or("");
    let Some(prop) = def.props.iter().find(|p| p.name() == prop_name) else {
        return vec![];
    };
    // randomized code under test: re-run several times
    let repeats = doc["repeats"].as_u64().unwrap_or(3);
    for _ in 0..repeats {
        stats.eval();
        match prop.replay(&doc["case"], stats) {
            Ok(Ok(())) => {}
            Ok(Err(failure)) => {
                return vec![Found { prop: prop_name.to_string(), failure, case: doc["case"].clone() }];
            }
            Err(e) => {
                return vec![Found {
                    prop: prop_name.to_string(),
                    failure: Failure::new("harness:replay", e),
                    case: doc["case"].clone(),
                }];
            }
        }
    }
    vec![]
}

pub fn run_property(def: PropertyDef, tier: Tier, seed: u64, replay: Option<PathBuf>) -> i32 {
    let root = verif_root();
    let known = load_known(&root);
    let run = RunCtx { property: def.id.to_string(), tier, seed, stats: Stats::new(), start: Instant::now() };
    let mut found: Vec<Found> = vec![];

    if let Some(path) = replay.as_ref() {
        found.extend(replay_file(&def, path, &run.stats));
    } else {
        // corpus first (regression tier, bypasses generators)
        let corpus = root.join("corpus").join(def.id);
        if let Ok(rd) = std::fs::read_dir(&corpus) {
            let mut files = rd.filter_map(|e| e.ok()).map(|e| e.path()).collect::<Vec<_>>();
            files.sort();
            for f in files.iter().filter(|f| f.extension().is_some_and(|e| e == "json")) {
                run.stats.class("corpus_replayed");
                found.extend(replay_file(&def, f, &run.stats));
            }
        }
        // debugging aid (never set by registered commands): VERIF_ONLY=<sub-check> runs one sub-check and skips generator health
        let only = std::env::var("VERIF_ONLY").ok();
        for prop in def.props.iter().filter(|p| only.as_deref().is_none_or(|o| o == p.name())) {
            found.extend(prop.run(&run));
        }
        if let Some(extra) = def.extra.as_ref() {
            found.extend(extra(&run));
        }
    }

    // classify
    let mut violations: Vec<(Found, PathBuf)> = vec![];
    let mut known_hits: BTreeMap<String, KnownFinding> = BTreeMap::new();
    let mut inconclusive: Vec<String> = vec![];
    let mut seen_sigs: HashSet<(String, String)> = HashSet::new();
    for (idx, f) in found.iter().enumerate() {
        if !seen_sigs.insert((f.prop.clone(), f.failure.signature.clone())) {
            continue;
        }
        if f.failure.signature.starts_with("inconclusive:") {
            inconclusive.push(f.failure.message.clone());
        } else if let Some(k) = is_known_open(&known, def.id, &f.failure.signature) {
            known_hits.insert(k.signature.clone(), k);
        } else {
            let path = write_replay(&root, def.id, seed, idx, f);
            violations.push((f.clone(), path));
        }
    }

    for sig in run.stats.known_hits() {
        if let Some(k) = is_known_open(&known, def.id, &sig) {
            known_hits.insert(k.signature.clone(), k);
        }
    }

    // generator health
    let mut health: Vec<String> = vec![];
    if replay.is_none() && std::env::var("VERIF_ONLY").is_err() {
        for c in def.required_classes.iter() {
            if run.stats.class_count(c) == 0 {
                health.push(format!("required class '{c}' was never produced"));
            }
        }
    }

    let wall = run.start.elapsed().as_secs_f64();
    let evaluations = run.stats.evaluations.load(Ordering::Relaxed);
    let evidence = json!({
        "property_id": def.id,
        "tier": tier.name(),
        "seed": seed,
        "level": def.level,
        "coverage": {
            "evaluations": evaluations,
            "distinct_nontrivial": run.stats.nontrivial_count(),
            "rule": def.rule,
            "samples": run.stats.samples(),
            "classes": run.stats.classes(),
            "sub_checks": def.props.iter().map(|p| p.name()).collect::<Vec<_>>(),
            "known_findings_hit": known_hits.keys().collect::<Vec<_>>(),
            "generator_health": health,
            "mode": if replay.is_some() { "replay" } else { "campaign" },
        },
        "assumptions": def.assumptions,
        "wall_s": wall,
        "violations": violations.len(),
    });
    let evdir = root.join("evidence");
    let _ = std::fs::create_dir_all(&evdir);
    let evpath = evdir.join(format!("{}.json", def.id));
    if replay.is_none() {
        let mut f = std::fs::File::create(&evpath).expect("evidence file");
        let _ = f.write_all(serde_json::to_string_pretty(&evidence).unwrap().as_bytes());
    }

    for k in known_hits.values() {
        outln!("KNOWN-FINDING: property={} {} [{}]", def.id, k.what, k.signature);
    }
    for (f, path) in violations.iter() {
        outln!("VIOLATION property={} replay={}", def.id, path.display());
        outln!("  sub-check={} signature={}", f.prop, f.failure.signature);
        let msg: String = f.failure.message.chars().take(2000).collect();
        outln!("  {}", msg.replace('\n', "\n  "));
    }
    outln!(
        "{} {} seed={} evaluations={} nontrivial={} violations={} known={} wall={:.1}s",
        def.id,
        tier.name(),
        seed,
        evaluations,
        run.stats.nontrivial_count(),
        violations.len(),
        known_hits.len(),
        wall
    );
    if !violations.is_empty() {
        return 1;
    }
    if !inconclusive.is_empty() {
        for h in inconclusive.iter() {
            outln!("INCONCLUSIVE property={} {}", def.id, h);
        }
        return 2;
    }
    if !health.is_empty() {
        for h in health.iter() {
            outln!("INCONCLUSIVE property={} generator health: {}", def.id, h);
        }
        return 2;
    }
    0
}

// ---------------------------------------------------------------------------------------------
// small strategy helpers
// ---------------------------------------------------------------------------------------------

/// Monotone index mapping (shrinks towards 0).
pub fn pick_idx(raw: u16, len: usize) -> usize {
    if len == 0 {
        return 0;
    }
    ((raw as usize) * len) >> 16
}

pub fn boxed<S: Strategy + 'static>(s: S) -> BoxedStrategy<S::Value> {
    s.boxed()
}


