//! vcheck library: framework and engines (shared by the `vcheck` binary and the libFuzzer targets in /verif/fuzz).
#![allow(clippy::type_complexity, clippy::too_many_arguments)]

#[macro_use]
pub mod fw;
pub mod engines;
