//! vcheck: property-based verification harness for reinterpretcat/vrp.
#![allow(clippy::type_complexity, clippy::too_many_arguments)]

use vcheck::fw::Tier;
use vcheck::{engines, fw, outln};
use std::path::PathBuf;

fn main() {
    let args = std::env::args().skip(1).collect::<Vec<_>>();
    if args.is_empty() {
        eprintln!("usage: vcheck <ID> <quick|thorough> [--replay <file>]");
        std::process::exit(2);
    }
    fw::init_stdio();
    fw::init_panic_hook();

    let id = args[0].clone();
    if id == "dbg-json" {
        engines::e2e::debug_json(&args[1..]);
        return;
    }
    if id == "dbg-config" {
        // prints the solver configuration document of a saved e2e-style case
        let doc: serde_json::Value = serde_json::from_str(&std::fs::read_to_string(&args[1]).unwrap()).unwrap();
        let spec: engines::pgen::ConfigSpec = serde_json::from_value(doc["case"]["config"].clone()).unwrap();
        outln!("{}", engines::pgen::render_config(&spec));
        return;
    }
    if id == "dbg-resource" {
        engines::e2e::debug_resource(&args[1]);
        return;
    }
    if id == "dbg-ext" {
        engines::ext::debug_dump(&args[1], &args[2]);
        return;
    }
    if id == "dbg-sched" {
        engines::ext::debug_schedule(&args[1..]);
        return;
    }
    if id == "fuzz-stats" {
        // vcheck fuzz-stats <corpus dir> <evidence file> <executions> <findings>
        engines::fuzzing::corpus_stats(&args[1], &args[2], args[3].parse().unwrap_or(0), args[4].parse().unwrap_or(0));
        return;
    }
    if id == "dbg-e2e" {
        engines::e2e::debug_case(&args[1]);
        return;
    }
    let tier = match args.get(1).map(|s| s.as_str()) {
        Some("thorough") => Tier::Thorough,
        _ => match std::env::var("VERIF_TIER").ok().as_deref() {
            Some("thorough") if args.get(1).is_none() => Tier::Thorough,
            _ => Tier::Quick,
        },
    };
    let replay = args.iter().position(|a| a == "--replay").and_then(|i| args.get(i + 1)).map(PathBuf::from);
    let seed = std::env::var("VERIF_SEED").ok().and_then(|s| s.trim().parse::<i64>().ok()).map(|v| v as u64).unwrap_or(20260926);

    let Some(def) = engines::property(&id, tier) else {
        outln!("unknown property id {id}");
        std::process::exit(2);
    };
    let code = fw::run_property(def, tier, seed, replay);
    std::process::exit(code);
}
