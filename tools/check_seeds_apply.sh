#!/usr/bin/env bash
# verifies that every kept seeded change still applies to the current /repo tree
cd /repo || exit 2
for d in /verif/seeded/*/; do
  n=$(basename "$d")
  case "$n" in *obsolete*) continue;; esac
  if git apply --check "$d/patch.diff" 2>/dev/null; then echo "ok   $n"; else echo "FAIL $n"; fi
done
