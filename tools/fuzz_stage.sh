#!/usr/bin/env bash
# usage: tools/fuzz_stage.sh <C10|C11> <seed> [--build-only]
# Coverage-guided stage of the thorough tiers of C10 and C11: builds the libFuzzer target (cargo-fuzz, nightly, offline),
# runs a fixed-work campaign (jobs x runs, seed = VERIF_SEED) from an empty corpus plus the repository examples' decoding,
# and reports findings of the given property.  Exit: 0 nothing found / stage skipped, 1 finding (VIOLATION line printed).
# A build or tool failure is never a violation: the stage says so and exits 0 (the proptest stage has already decided).
set -u
ID="$1"; SEED="$2"
ROOT="$(cd "$(dirname "${BASH_SOURCE[0]}")/.." && pwd)"
FZ="$ROOT/fuzz"; RUN="$FZ/corpus_run/$ID"; BIN="$FZ/target/x86_64-unknown-linux-gnu/release/pragmatic_values"
JOBS="${VERIF_FUZZ_JOBS:-12}"; RUNS="${VERIF_FUZZ_RUNS:-8000}"
cp "$ROOT/harness/Cargo.lock" "$FZ/Cargo.lock" 2>/dev/null
if ! (cd "$FZ" && RUSTFLAGS="--cfg reinterpretcat_vrp_verif" CARGO_NET_OFFLINE=true cargo +nightly fuzz build --fuzz-dir "$FZ" -s none pragmatic_values >"$FZ/build.log" 2>&1); then
  tail -n 5 "$FZ/build.log"; echo "NOTE fuzz stage skipped: target did not build (not a violation)"; [ "${3:-}" = "--build-only" ] && exit 3; exit 0
fi
[ "${3:-}" = "--build-only" ] && exit 0
rm -rf "$RUN"; mkdir -p "$RUN/corpus" "$RUN/artifacts" "$ROOT/replays"
[ "$SEED" = "0" ] && SEED=1
(cd "$RUN" && "$BIN" corpus -jobs="$JOBS" -workers="$JOBS" -runs="$RUNS" -seed="$SEED" -max_len=64 -len_control=0 -artifact_prefix="$RUN/artifacts/" >"$RUN/campaign.log" 2>&1)
EXECS=$(grep -ho "Done [0-9]* runs" "$RUN"/fuzz-*.log 2>/dev/null | awk '{s+=$2} END{print s+0}')
FOUND=0; RC=0
for a in "$RUN"/artifacts/*; do
  [ -f "$a" ] || continue
  # re-decide the saved input alone (fresh process): which property does it belong to?
  out=$("$BIN" "$a" 2>&1 | grep -m1 "^FINDING" || true)
  case "$out" in
    "FINDING $ID"*) FOUND=$((FOUND+1)); dst="$ROOT/replays/fuzz-$ID-$(basename "$a")"; cp "$a" "$dst"
       echo "VIOLATION property=$ID replay=$dst"; echo "  sub-check=fuzz:pragmatic_values ${out:0:600}"; RC=1;;
    "FINDING "*) echo "NOTE fuzz stage: input $(basename "$a") is a finding of another property: ${out:0:200}";;
    *) echo "NOTE fuzz stage: artifact $(basename "$a") does not reproduce from the saved input (ignored)";;
  esac
done
"$ROOT/harness/target/release/vcheck" fuzz-stats "$RUN/corpus" "$ROOT/evidence/$ID.json" "$EXECS" "$FOUND" | cut -c1-600
exit $RC
