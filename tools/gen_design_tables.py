#!/usr/bin/env python3
"""Regenerates the data-driven sections of DESIGN.md (findings, seeded changes) between marker comments."""
import json, os, re, glob, textwrap

ROOT = os.path.dirname(os.path.dirname(os.path.abspath(__file__)))


def wrap(text, indent="  "):
    return "\n".join(textwrap.wrap(text, 98, initial_indent=indent, subsequent_indent=indent))


def findings():
    d = json.load(open(os.path.join(ROOT, "known_findings.json")))["findings"]
    out = []
    fixed = [f for f in d if f["status"] == "fixed"]
    opened = [f for f in d if f["status"] == "open"]
    # group fixed entries by commit (one root cause = one commit)
    by_commit = {}
    for f in fixed:
        by_commit.setdefault(f.get("commit") or "?", []).append(f)
    out.append(f"### 12.1 Repaired in /repo ({len(by_commit)} `fix:` commits)\n")
    out.append("One line per commit: properties whose checks found or observe it, what failed. The full text and the exact\n"
               "signatures are in `known_findings.json` (`status: fixed`); reproductions are in `corpus/<id>/` where the\n"
               "failing input is a document or a shrunk case.\n")
    for commit, fs in by_commit.items():
        props = sorted({f["property"] for f in fs})
        what = fs[0]["what"]
        what = re.sub(r"^fixed: property=\S+ \S+( \+ \S+)? ", "", what)
        what = re.sub(r"^\[[A-Z0-9]+\] ", "", what)
        out.append(f"* `{commit}` ({', '.join(props)}; {len(fs)} signature{'s' if len(fs) > 1 else ''})\n" + wrap(what[:700] + ("..." if len(what) > 700 else ""), "  "))
    out.append("")
    # open
    by_sig = {}
    for f in opened:
        by_sig.setdefault(f["signature"], []).append(f)
    out.append(f"### 12.2 Open findings ({len(by_sig)} signatures, printed as `KNOWN-FINDING` lines when hit)\n")
    for sig, fs in by_sig.items():
        props = sorted({f["property"] for f in fs})
        what = max((f["what"] for f in fs), key=len)
        out.append(f"* `{sig}` ({', '.join(props)})\n" + wrap(what[:1200] + ("..." if len(what) > 1200 else ""), "  "))
    return "\n".join(out) + "\n"


def seeds():
    rows = []
    for d in sorted(glob.glob(os.path.join(ROOT, "seeded", "*"))):
        name = os.path.basename(d)
        meta_path = os.path.join(d, "meta.json")
        if not os.path.exists(meta_path):
            continue
        m = json.load(open(meta_path))
        files = m.get("files") or []
        if isinstance(files, str):
            files = [files]
        site = ", ".join(os.path.basename(f) for f in files)[:60]
        det = (m.get("detected") or "").replace("|", "/")
        caught = "no" if det.startswith("NOT") else "yes"
        if "obsolete" in name:
            caught = "n/a"
            det = det or "see README.md in the directory"
        breaks = (m.get("breaks") or m.get("summary") or "")
        breaks = re.sub(r"\s+", " ", str(breaks))[:160].replace("|", "/")
        rows.append(f"| {name} | {site} | {breaks} | {caught} | {det[:230]} |")
    head = "| seed | changed file(s) | what the change breaks (agent's words, shortened) | caught | by |\n|---|---|---|---|---|\n"
    return head + "\n".join(rows) + "\n"


def measured():
    rows = []
    for f in sorted(glob.glob(os.path.join(ROOT, "evidence", "C*.json"))):
        e = json.load(open(f))
        cov = e.get("coverage", {})
        rows.append(f"| {e.get('property_id')} | {e.get('tier')} | {cov.get('evaluations', e.get('evaluations'))} | {cov.get('distinct_nontrivial', e.get('distinct_nontrivial'))} | {len(cov.get('sub_checks', []))} | {e.get('wall_s', 0):.0f} s | {len(cov.get('known_findings_hit', []))} |")
    head = "| id | tier of the last run | evaluations | distinct non-trivial | sub-checks | wall (16 cores) | known findings hit |\n|---|---|---|---|---|---|---|\n"
    return head + "\n".join(rows) + "\n"


def splice(text, tag, body):
    begin, end = f"<!-- BEGIN:{tag} -->", f"<!-- END:{tag} -->"
    if begin not in text:
        return text
    i, j = text.index(begin) + len(begin), text.index(end)
    return text[:i] + "\n" + body + text[j:]


if __name__ == "__main__":
    p = os.path.join(ROOT, "DESIGN.md")
    s = open(p).read()
    s = splice(s, "findings", findings())
    s = splice(s, "seeds", seeds())
    s = splice(s, "measured", measured())
    open(p, "w").write(s)
    print("DESIGN.md tables regenerated")
