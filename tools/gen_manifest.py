#!/usr/bin/env python3
"""Generates /verif/MANIFEST.json from the table below (single source of truth)."""
import json, os, subprocess

ROOT = os.path.dirname(os.path.dirname(os.path.abspath(__file__)))

# id -> dict(engine, category, technique, text, note, design_ref) ; absent => not_applicable with reason
CHECKS = {
    "C06": dict(
        engine="insert", category="exploration",
        technique="property-based testing with two oracles: (a) carried-out placements judged by the independent reference model R (soundness, all features), (b) small-scope brute-force enumeration of every (leg, place, window) by an independent step-by-step simulation (soundness and completeness of exhaustive best insertion for single-task jobs)",
        text="States are solver-reachable (cheapest insertion on generated pragmatic problems stopped after a generated number of insertions). Every waiting job x every tour x every InsertionPosition::Concrete(p) and Any is evaluated through the public eval_job_insertion_in_route with LegSelection::Exhaustive; accepted placements are carried out through InsertionHeuristic::process and judged by R; on problems restricted to windows, shift times and capacity the Any answer must succeed iff a brute-force simulation finds a feasible triple and must return one of them; windows are also placed exactly on, one second before, and degenerate at reachable arrival times. Found and repaired two defects (last job of an open tour rejected when service would end after its window; a window after shift end hid the other places of a job).",
        note="Trusted: reference model R and the simulations in harness/src/engines/insert.rs and insert_core.rs (the latter: core-API tours with a shifted departure and TimeSpan::Offset windows of the candidate job; plus a direct matrix check of the legs around a placed activity). Per-position completeness of Concrete(p) and completeness for multi-task jobs are not claimed by the property and are counted only.",
        design_ref="4/C06"),
    "C20": dict(
        engine="insert", category="exploration",
        technique="property-based metamorphic testing: quoted insertion cost vs realised change of each objective layer after carrying out the same insertion through the shipped apply/finalise path",
        text="On solver-reachable states of generated pragmatic problems (no breaks/reloads/soft order) with explicit objective lists drawn from five orders of minimize-unassigned / minimize-tours / minimize-distance or minimize-cost (+ maximize-value when jobs carry values), the InsertionSuccess quoted by eval_job_insertion_in_route for (tour, job, position) triples - single and multi-task jobs, existing and new tours, open and closed - is carried out and fitness_k(after)-fitness_k(before) must equal the quote for every additive layer (1e-6 relative); the cost layer is asserted only without waiting time before and after. The fitness realised by the Any answer must be lexicographically minimal among all accepted positions.",
        note="Trusted: GoalContext::fitness as the definition of the objective value (its consistency with the bare tours is C05's subject). Non-additive objectives are outside the statement.",
        design_ref="4/C20"),
    "C10": dict(
        engine="validate", category="exploration",
        technique="property-based fault injection over valid documents with an independent executable model of the documented validation rules (differential oracle on the exact code set), plus totality (no panic) over value-mutated documents; thorough tier additionally: coverage-guided fuzzing (libFuzzer target pragmatic_values, structure-aware value mutation of the repository's example problems, totality oracle inside the target)",
        text="Valid problems from the by-construction generator are turned into JSON values and broken by 1-3 generated faults out of ~90 kinds covering every documented rule (ids, windows, demands, tasks, vehicles, shifts, breaks, reloads, relations, matrices, profiles, objectives) plus undocumented-but-well-formed value faults (malformed dates, wrong arities, empty collections, sparse indices, ragged matrices); the reader must return Ok or Err(codes) without panicking, and the code set must equal the set computed by the harness' own rule model; the third-of-three element and rarely read fields (services, replacements, second shift, required breaks) are targeted on purpose. Found ten defect families in the validator (recorded in known_findings.json, several repaired).",
        note="Trusted: the rule model in harness/src/engines/validate.rs, derived from docs/src/concepts/pragmatic/errors/index.md. Rules whose documented wording is ambiguous are counted, not asserted (listed in DESIGN.md).",
        design_ref="4/C10"),
    "C12": dict(
        engine="checker", category="exploration",
        technique="property-based mutation (fault-injection) testing of the checker: solver outputs certified by the reference model as positives, single-breach mutants certified by the reference model as negatives, relations derived from the solution",
        text="Generated problems are solved; when the independent reference model R finds nothing the checker must accept the solution (also with limits lowered to exactly the used amount); then every single-breach mutant from the listed classes is injected at every applicable site and, when R reports the intended rule family on the mutant, the checker must reject it. Relations read off the solution must be accepted and visibly contradicted relations rejected. Found thirteen checker defects (recorded in known_findings.json, several repaired).",
        note="Trusted: reference model R for certifying positives and negatives. Mutants R cannot decide (loads at closing arrival stops, first-stop arrival without explicit departure) are counted, not asserted.",
        design_ref="4/C12"),
    "C11": dict(
        engine="roundtrip", category="exploration",
        technique="property-based round-trip testing (ser/parse/ser idempotence, field-by-field equality, expectation trees), initial-solution reconstruction equality, CSV table model equality, structural JSON mutation; thorough tier additionally: coverage-guided fuzzing (libFuzzer target pragmatic_values: ser/parse/ser idempotence on every mutated example document the parser accepts)",
        text="An every-optional-field generator and the valid-problem generator produce problem, matrix and solution documents (all Options, untagged/tagged variants, aliases, extreme floats and strings); ser(parse(ser(d))) == ser(d) with numbers within 1 ULP, parse(ser(d)) == d field by field and every set field present under its documented name; solver-written solutions are read back with read_init_solution and compared per vehicle shift (job, place tag, location, order) and unassigned set; generated CSV tables are imported and every cell is found again in a problem that passes validation; mutated raw JSON accepted by the parser must obey the law. Found and fixed four defects.",
        note="Trusted: expectation trees built by the generators; explicit null counts as absent; required breaks / clustering are outside the documented init-reader surface.",
        design_ref="4/C11"),
    "C13": dict(
        engine="scientific", category="exploration",
        technique="property-based round-trip testing: generated instance model -> printed in the three published text layouts -> parsed -> compared field by field; solution write/read round trip",
        text="Instance models (customers with duplicate/depot coordinates, binding demands, windows, service times, Li&Lim pairs, TSPLIB depot ids and decimal spellings, several separator styles) are printed by harness printers and parsed by the three readers; the returned core problem is compared with the model (ids, coordinates, demand kind and magnitude, windows, durations, fleet, capacity, all pairwise euclidean distances, rounded or not); solutions are written and read back as initial solutions; a behavioural sub-check solves the parsed problem and re-checks capacity/pairing/time on the routes. Found and fixed the Li&Lim demand defect.",
        note="Trusted: harness printers follow the layouts of the example files; time feasibility asserted only on metric instances.",
        design_ref="4/C13"),
    "C14": dict(
        engine="model", category="exploration",
        technique="stateful property-based testing (proptest op sequences) against Vec/Set reference models",
        text="Random and small-scope operation sequences over Tour, Registry, RegistryContext and RouteContext are compared with reference models after every step; shrunk counterexamples are replay files. Gives 'held on everything explored' for histories up to 40 ops; the structures are small and sequential, so model comparison over many histories is the fitting level.",
        note="Trusted: the reference models in harness/src/engines/model.rs; identity of jobs/actors by pointer as in the code. Insert indices restricted to the callers' domain.",
        design_ref="4/C14"),
    "C01": dict(
        engine="e2e", category="exploration",
        technique="property-based end-to-end testing: generated problems x solver configs judged by an independent reference model (differential oracle)",
        text="Valid pragmatic problems are generated by construction over the full feature surface (all task kinds, multi-place, multi-window, multi-dimensional demand, skills, groups, compatibility, order, value, limits, breaks, reloads, shared resources, scaled/multiple profiles, unreachable pairs, non-metric matrices) and solved under generated solver configurations (all populations, hyper-heuristics, operator lists, initial methods, thread layouts); every returned solution document is judged by the reference model R, which re-derives schedules and loads from the problem data alone. A second sub-check (e2e_relations_*) first solves the problem lightly, reads relations off that witness solution (any / sequence / strict, departure and arrival anchors, up to two per tour, multi-task jobs in `any`), adds them to the problem and solves again under the generated configuration: R then also judges relation pinning (vehicle, order, contiguity, anchors). Found and fixed a state-wiping defect that disabled time/limit constraints, a shared-resource overdraw in one dimension, and recorded an open reachability finding.",
        note="Trusted: reference model R (harness/src/engines/refmodel.rs). Interleavings and termination moments are sampled. Sub-check construction_reachability judges insertion-only solutions, which the open known finding on reachability (removals) cannot explain. Required breaks / clustering / recharge / time-dependent matrices are not generated for this property (no time replay for them in R); relations are derived only for witness tours without reloads and with departure at the earliest start (else the listed order is not itself feasible, which the documentation demands of user relations).",
        design_ref="4/C01, 3"),
    "C02": dict(
        engine="e2e", category="exploration",
        technique="property-based end-to-end testing with an exact partition/multiset bookkeeping oracle over job ids, tasks, vehicle shifts and markers",
        text="Same generated problems x configs as C01; the oracle is a pure bookkeeping model: every job complete in exactly one tour or exactly once unassigned with a reason, no foreign or duplicate ids, tours name existing vehicle shifts used once and serve a job, break/reload activities map injectively to definitions of that vehicle shift. Found and fixed an empty-tour defect and a repair panic.",
        note="Trusted: the bookkeeping part of R. The generator forces infeasible-by-design jobs so the unassigned path is populated. Sub-check e2e_ext_conservation extends the problems with vicinity clustering (with/without filtering policy), required breaks and witness-derived relations and applies the bookkeeping rules only (restricted semantics). Two open known findings, both from required breaks together with departure rescheduling: solver panic in the solution writer (solve:panic:format_time@required-break) and one required break reported in two stops (conservation:required-break-reported-twice).",
        design_ref="4/C02"),
    "C03": dict(
        engine="e2e", category="exploration",
        technique="property-based end-to-end testing: replay of schedule/load/distance/cost from problem data and visiting order (reference model) compared with the reported numbers",
        text="Same generated problems x configs as C01; R replays arrival/departure, activity intervals, per-stop load and distance, per-tour statistic split and cost, overall sums and place tags from the problem data and the reported visiting order and compares them with the document (1 unit tolerance on integral data). Found and fixed a misreported place tag.",
        note="Trusted: replay part of R; data is generated integral (even durations with .5 scales) so comparisons are near exact; arrival-stop load is unspecified by the docs and not compared.",
        design_ref="4/C03"),
    "C04": dict(
        engine="ops", category="exploration",
        technique="stateful property-based testing: generated operator histories over all shipped ruin/recreate/local/search operators with an invariant checked after every step and a parent snapshot comparison",
        text="States built from generated pragmatic problems are driven through generated histories of operators taken from all shipped ones via their public constructors (9 ruins, 11 recreates, 7 local operators, 8 search operators incl. decomposition, redistribution, infeasible search with repair and LKH). After every step the invariant Inv (job placement partition, registry bookkeeping, multi-job wholeness and order, duplicate activities, R-feasibility and conservation of the assigned part) and parent-unchanged (deep structural snapshot) are asserted. Found and fixed the LKH pending-break defect and a swap-star panic; two open findings (repair accepts infeasible routes, removals on non-metric data).",
        note="Trusted: Inv predicates in harness/src/engines/ops.rs and R. Local/search operators are only applied to finalized states (callers' precondition). Every 4th history runs on a problem with relations read off a witness solution, so the pinned-jobs clause is exercised through R's relation rules (vehicle, order, contiguity, anchors); marker jobs (breaks, reloads) must live in exactly one place too. Operators run in a 1-thread pool. Found and fixed nine operator-level defects (see DESIGN 12).",
        design_ref="4/C04"),
    "C05": dict(
        engine="ops", category="exploration",
        technique="stateful property-based testing with a recomputation oracle: cached route/solution state (digest hook) vs state recomputed from bare tours at every hand-over point",
        text="Same operator histories as C04; at every hand-over point (initial construction, output of each recreate, local operator, search operator) the context is stripped to bare tours and the state is recomputed the way the code base itself does (goal.accept_route_state per route, then goal.accept_solution_state); schedules, every route-state key (through the verif_digest hook), tour-derived solution-state keys, fitness and the fixpoint condition are compared, and identical tours must compare Equal. Found and fixed a stale compatibility tag and a non-fixpoint finalisation.",
        note="Trusted: recomputation through the public goal API; opaque state types are compared for presence only; shared-resource availability compared on complete contexts and up to trailing empty entries; the comparison is made at hand-over points (every recreate is a sequence of insertions followed by a hand-over); the per-insertion observer hook is used for tracing only.",
        design_ref="4/C05"),
    "C07": dict(
        engine="interrupt", category="fault_enumeration",
        technique="crash-point enumeration with a counting Quota (fault injection at every poll index) + reference-model oracle on each returned solution",
        text="For generated problems and solver setups a counting Quota measures the polls N of an uninterrupted run; the solve is then repeated with the quota firing at every poll index k in 0..=min(N,24) plus sampled k up to N. Every run must return Ok with a solution that passes the C01-C03 oracles of R, and the reported generation count must not exceed maxGenerations. The poll index is the deterministic substitute for wall-clock interruption moments.",
        note="Trusted: R; exact only for single-thread layouts (with several threads the k-th poll is schedule dependent); maxTime moments are not enumerated. Open C01/C02 findings are excluded by signature.",
        design_ref="4/C07"),
    "C08": dict(
        engine="population", category="exploration",
        technique="stateful (model-based) property testing of population histories against a best-so-far reference model (proptest)",
        text="Generated histories of add/add_all/on_generation/select/ranked over Greedy, Elitism and Rosomaxa populations (generated sizes and phase-driving statistics) are compared after every step with a reference model that remembers the best individual ever offered; sortedness, size bounds, membership, selection non-emptiness, the improvement flag and phase monotonicity are asserted. Found and fixed Greedy::add_all dropping later batch members.",
        note="Trusted: the best-so-far model and the lexicographic harness objective in harness/src/engines/population.rs; rosomaxa initial_size >= 4.",
        design_ref="4/C08"),
    "C09": dict(
        engine="order", category="exploration",
        technique="property-based testing of order laws over generated triples (proptest) with a lexicographic specification oracle",
        text="Generated triples of insertion-cost vectors (lengths 0-8, +-0, denormals, huge values, shared prefixes) and of synthetic solutions under goals built with the public GoalBuilder (single layers and dominance layers) are checked for reflexivity, antisymmetry, transitivity, agreement with the lexicographic specification, sort safety and add/sub inversion. Order laws are universally quantified algebraic laws, which random triples with targeted value classes attack directly.",
        note="Trusted: the numeric lexicographic specification in harness/src/engines/order.rs; both readings of per-component order (+0==-0 numeric, IEEE total order) are accepted for InsertionCost; NaN excluded.",
        design_ref="4/C09"),
    "C15": dict(
        engine="parallel", category="exploration",
        technique="property-based differential testing: parallel evaluate_all under rayon pools of 1..16 threads vs an explicit sequential no-pruning minimum; full solves under generated thread layouts judged by the reference model",
        text="On generated states (cheapest insertion stopped after k insertions) with exact-metric data and minimize-distance, PositionInsertionEvaluator::evaluate_all is executed inside thread pools of 1,2,3,4,7,8,16 threads (3 repetitions, permuted job/route slices) and must return exactly the minimal cost vector of an explicit sequential loop; full solves under 1-3 pools x 1-4 threads and the default layout must satisfy the C01-C03 oracles.",
        note="Trusted: explicit minimum loop; equality asserted only under its premise (metric data, deterministic selection, <=2-task jobs); interleavings sampled by repetition.",
        design_ref="4/C15"),
    "C16": dict(
        engine="routing", category="exploration",
        technique="property-based differential testing of routing providers against a direct specification (proptest)",
        text="Generated matrix sets whose entries encode (matrix, from, to), passed in permuted order with scaled profiles and unsorted timestamps, are queried exhaustively/randomly and compared with a direct specification of indexing, scaling, bracketing and interpolation; named classes of inconsistent sets must be rejected at build time; the pragmatic reader's profile mapping and errorCodes handling and the coordinate approximation are checked the same way.",
        note="Trusted: the specification functions in harness/src/engines/routing.rs; matrix timestamps whole seconds; queries only for profiles that have data.",
        design_ref="4/C16"),
    "C17": dict(
        engine="algos", category="exploration",
        technique="property-based testing of algorithm contracts with independent validity predicates (proptest)",
        text="LKH re-sequencing, DBSCAN and (hierarchical) k-medoids are run on generated geometry with many ties/duplicates/collinear points and their outputs are validated by independent predicates (permutation/start/cost, disjointness/core/density-reachability by BFS, partition/nearest-medoid). Termination is bounded by a deterministic work bound. Found and fixed three defects (see known_findings.json).",
        note="Trusted: the validity predicates in harness/src/engines/algos.rs; LKH adjacency built like the shipped caller; k in 1..=n; liveness only bounded (1e7 cost evaluations).",
        design_ref="4/C17"),
    "C18": dict(
        engine="numerics", category="exploration",
        technique="property-based testing of numeric invariants over generated reward / fitness / statistics histories with a recording sampler and independent CV computation",
        text="Reward histories (0, denormals ... 1e6) drive SlotMachine through a recording DistributionSampler that validates every gamma/normal argument; arg-max and weighted selection over tie-heavy vectors; DynamicSelective over a scripted harness context with telemetry parsed for rewards and learning state; termination estimates over extreme limits; MinVariation against an independent CV computation; math helpers and Remedian. Found and fixed the opposite-sign relative-distance defect.",
        note="Trusted: invariant predicates in harness/src/engines/numerics.rs; several under-specified zones are counted (classes *.unasserted) instead of asserted.",
        design_ref="4/C18"),
    "C19": dict(
        engine="gsom", category="exploration",
        technique="stateful property-based testing of the growing self-organising map: well-formedness predicate after every operation of generated histories",
        text="Generated input streams (clustered, duplicated, outliers, constant, one varying dimension) and network configs drive Network::new/store_batch/smooth/compact/set_learning_rate and the Rosomaxa population through phase-driving statistics; after every call the map must be well formed (unique coordinates == keys, exact lookup, finite weights/errors/mse, storage within capacity, compaction bounds), phases only forward, elite bounded. Found and fixed a node-error overflow on long streams.",
        note="Trusted: WF predicate in harness/src/engines/gsom.rs; Network::new is not reproducible run to run (std HashMap order), so replays of long-stream findings are probabilistic.",
        design_ref="4/C19"),
}

PENDING_REASON = "check not built yet in this round (planned in DESIGN.md; property-based testing applies)"

def main():
    props = [json.loads(l) for l in open(os.path.join(ROOT, "properties.jsonl"))]
    ids = [p["id"] for p in props]
    try:
        commits = subprocess.check_output(["git", "-C", "/repo", "log", "--format=%H %s", "--grep=^verif hook"], text=True).strip().splitlines()
    except Exception:
        commits = []
    engines = {}
    checks = []
    not_applicable = []
    for pid in ids:
        c = CHECKS.get(pid)
        if not c:
            not_applicable.append({"property_id": pid, "reason": PENDING_REASON})
            continue
        engines.setdefault(c["engine"], []).append(pid)
        checks.append({
            "property_id": pid,
            "quick_cmd": f"./check {pid} quick",
            "thorough_cmd": f"./check {pid} thorough",
            "evidence_file": f"/verif/evidence/{pid}.json",
            "replay_cmd_template": f"./check {pid} quick --replay {{path}}",
            "engine": c["engine"],
            "level_claimed": {"category": c["category"], "text": c["text"], "design_ref": c["design_ref"]},
            "level_note": c["note"],
            "technique": c["technique"],
        })
    manifest = {
        "version": 1,
        "setup_cmd": "./check --setup",
        "hooks": {
            "guard": "--cfg reinterpretcat_vrp_verif",
            "enable": "harness/.cargo/config.toml sets build.rustflags = [\"--cfg\", \"reinterpretcat_vrp_verif\"]; the harness depends on /repo crates by path, so every ./check rebuilds them from /repo's working tree with hooks on",
            "baseline_off_cmd": "cd /repo && cargo test --workspace --no-fail-fast --offline",
            "source_commits": [c.split()[0] for c in commits],
            "add_only": True,
        },
        "engines": [
            {"name": name, "path": f"harness/src/engines/{name}.rs", "serves_properties": pids,
             "kind_free_text": "proptest-driven engine inside the single vcheck binary"}
            for name, pids in sorted(engines.items())
        ],
        "checks": checks,
        "notes": "One harness binary (harness/, bin vcheck) driven by ./check <ID> <quick|thorough> [--replay f]. Exit 0 held / 1 VIOLATION / 2 inconclusive. All random choices derive from VERIF_SEED through proptest (ChaCha, fixed seed per shard). known_findings.json lists recorded defects.",
        "not_applicable": not_applicable,
    }
    with open(os.path.join(ROOT, "MANIFEST.json"), "w") as f:
        json.dump(manifest, f, indent=1)
        f.write("\n")
    try:
        import jsonschema
        jsonschema.validate(manifest, json.load(open("/root/.vp/MANIFEST.schema.json")))
        print("MANIFEST.json valid;", len(checks), "checks,", len(not_applicable), "not_applicable")
    except ImportError:
        print("written (jsonschema not available for validation)")

if __name__ == "__main__":
    main()
