#!/usr/bin/env python3
"""Generates /verif/MANIFEST.json from the table below (single source of truth)."""
import json, os, subprocess

ROOT = os.path.dirname(os.path.dirname(os.path.abspath(__file__)))

# id -> dict(engine, category, technique, text, note, design_ref) ; absent => not_applicable with reason
CHECKS = {
    "C14": dict(
        engine="model", category="exploration",
        technique="stateful property-based testing (proptest op sequences) against Vec/Set reference models",
        text="Random and small-scope operation sequences over Tour, Registry, RegistryContext and RouteContext are compared with reference models after every step; shrunk counterexamples are replay files. Gives 'held on everything explored' for histories up to 40 ops; the structures are small and sequential, so model comparison over many histories is the fitting level.",
        note="Trusted: the reference models in harness/src/engines/model.rs; identity of jobs/actors by pointer as in the code. Insert indices restricted to the callers' domain.",
        design_ref="4/C14"),
}

PENDING_REASON = "check not built yet in this round (planned in DESIGN.md; property-based testing applies)"

def main():
    props = [json.loads(l) for l in open(os.path.join(ROOT, "properties.jsonl"))]
    ids = [p["id"] for p in props]
    try:
        commits = subprocess.check_output(["git", "-C", "/repo", "log", "--format=%H %s", "--grep=^verif hook"], text=True).strip().splitlines()
    except Exception:
        commits = []
    engines = {}
    checks = []
    not_applicable = []
    for pid in ids:
        c = CHECKS.get(pid)
        if not c:
            not_applicable.append({"property_id": pid, "reason": PENDING_REASON})
            continue
        engines.setdefault(c["engine"], []).append(pid)
        checks.append({
            "property_id": pid,
            "quick_cmd": f"./check {pid} quick",
            "thorough_cmd": f"./check {pid} thorough",
            "evidence_file": f"/verif/evidence/{pid}.json",
            "replay_cmd_template": f"./check {pid} quick --replay {{path}}",
            "engine": c["engine"],
            "level_claimed": {"category": c["category"], "text": c["text"], "design_ref": c["design_ref"]},
            "level_note": c["note"],
            "technique": c["technique"],
        })
    manifest = {
        "version": 1,
        "setup_cmd": "./check --setup",
        "hooks": {
            "guard": "--cfg reinterpretcat_vrp_verif",
            "enable": "harness/.cargo/config.toml sets build.rustflags = [\"--cfg\", \"reinterpretcat_vrp_verif\"]; the harness depends on /repo crates by path, so every ./check rebuilds them from /repo's working tree with hooks on",
            "baseline_off_cmd": "cd /repo && cargo test --workspace --no-fail-fast --offline",
            "source_commits": [c.split()[0] for c in commits],
            "add_only": True,
        },
        "engines": [
            {"name": name, "path": f"harness/src/engines/{name}.rs", "serves_properties": pids,
             "kind_free_text": "proptest-driven engine inside the single vcheck binary"}
            for name, pids in sorted(engines.items())
        ],
        "checks": checks,
        "notes": "One harness binary (harness/, bin vcheck) driven by ./check <ID> <quick|thorough> [--replay f]. Exit 0 held / 1 VIOLATION / 2 inconclusive. All random choices derive from VERIF_SEED through proptest (ChaCha, fixed seed per shard). known_findings.json lists recorded defects.",
        "not_applicable": not_applicable,
    }
    with open(os.path.join(ROOT, "MANIFEST.json"), "w") as f:
        json.dump(manifest, f, indent=1)
        f.write("\n")
    try:
        import jsonschema
        jsonschema.validate(manifest, json.load(open("/root/.vp/MANIFEST.schema.json")))
        print("MANIFEST.json valid;", len(checks), "checks,", len(not_applicable), "not_applicable")
    except ImportError:
        print("written (jsonschema not available for validation)")

if __name__ == "__main__":
    main()
