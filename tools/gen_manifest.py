#!/usr/bin/env python3
"""Generates /verif/MANIFEST.json from the table below (single source of truth)."""
import json, os, subprocess

ROOT = os.path.dirname(os.path.dirname(os.path.abspath(__file__)))

# id -> dict(engine, category, technique, text, note, design_ref) ; absent => not_applicable with reason
CHECKS = {
    "C14": dict(
        engine="model", category="exploration",
        technique="stateful property-based testing (proptest op sequences) against Vec/Set reference models",
        text="Random and small-scope operation sequences over Tour, Registry, RegistryContext and RouteContext are compared with reference models after every step; shrunk counterexamples are replay files. Gives 'held on everything explored' for histories up to 40 ops; the structures are small and sequential, so model comparison over many histories is the fitting level.",
        note="Trusted: the reference models in harness/src/engines/model.rs; identity of jobs/actors by pointer as in the code. Insert indices restricted to the callers' domain.",
        design_ref="4/C14"),
    "C08": dict(
        engine="population", category="exploration",
        technique="stateful (model-based) property testing of population histories against a best-so-far reference model (proptest)",
        text="Generated histories of add/add_all/on_generation/select/ranked over Greedy, Elitism and Rosomaxa populations (generated sizes and phase-driving statistics) are compared after every step with a reference model that remembers the best individual ever offered; sortedness, size bounds, membership, selection non-emptiness, the improvement flag and phase monotonicity are asserted. Found and fixed Greedy::add_all dropping later batch members.",
        note="Trusted: the best-so-far model and the lexicographic harness objective in harness/src/engines/population.rs; rosomaxa initial_size >= 4.",
        design_ref="4/C08"),
    "C09": dict(
        engine="order", category="exploration",
        technique="property-based testing of order laws over generated triples (proptest) with a lexicographic specification oracle",
        text="Generated triples of insertion-cost vectors (lengths 0-8, +-0, denormals, huge values, shared prefixes) and of synthetic solutions under goals built with the public GoalBuilder (single layers and dominance layers) are checked for reflexivity, antisymmetry, transitivity, agreement with the lexicographic specification, sort safety and add/sub inversion. Order laws are universally quantified algebraic laws, which random triples with targeted value classes attack directly.",
        note="Trusted: the numeric lexicographic specification in harness/src/engines/order.rs; both readings of per-component order (+0==-0 numeric, IEEE total order) are accepted for InsertionCost; NaN excluded.",
        design_ref="4/C09"),
    "C16": dict(
        engine="routing", category="exploration",
        technique="property-based differential testing of routing providers against a direct specification (proptest)",
        text="Generated matrix sets whose entries encode (matrix, from, to), passed in permuted order with scaled profiles and unsorted timestamps, are queried exhaustively/randomly and compared with a direct specification of indexing, scaling, bracketing and interpolation; named classes of inconsistent sets must be rejected at build time; the pragmatic reader's profile mapping and errorCodes handling and the coordinate approximation are checked the same way.",
        note="Trusted: the specification functions in harness/src/engines/routing.rs; matrix timestamps whole seconds; queries only for profiles that have data.",
        design_ref="4/C16"),
    "C17": dict(
        engine="algos", category="exploration",
        technique="property-based testing of algorithm contracts with independent validity predicates (proptest)",
        text="LKH re-sequencing, DBSCAN and (hierarchical) k-medoids are run on generated geometry with many ties/duplicates/collinear points and their outputs are validated by independent predicates (permutation/start/cost, disjointness/core/density-reachability by BFS, partition/nearest-medoid). Termination is bounded by a deterministic work bound. Found and fixed three defects (see known_findings.json).",
        note="Trusted: the validity predicates in harness/src/engines/algos.rs; LKH adjacency built like the shipped caller; k in 1..=n; liveness only bounded (1e7 cost evaluations).",
        design_ref="4/C17"),
}

PENDING_REASON = "check not built yet in this round (planned in DESIGN.md; property-based testing applies)"

def main():
    props = [json.loads(l) for l in open(os.path.join(ROOT, "properties.jsonl"))]
    ids = [p["id"] for p in props]
    try:
        commits = subprocess.check_output(["git", "-C", "/repo", "log", "--format=%H %s", "--grep=^verif hook"], text=True).strip().splitlines()
    except Exception:
        commits = []
    engines = {}
    checks = []
    not_applicable = []
    for pid in ids:
        c = CHECKS.get(pid)
        if not c:
            not_applicable.append({"property_id": pid, "reason": PENDING_REASON})
            continue
        engines.setdefault(c["engine"], []).append(pid)
        checks.append({
            "property_id": pid,
            "quick_cmd": f"./check {pid} quick",
            "thorough_cmd": f"./check {pid} thorough",
            "evidence_file": f"/verif/evidence/{pid}.json",
            "replay_cmd_template": f"./check {pid} quick --replay {{path}}",
            "engine": c["engine"],
            "level_claimed": {"category": c["category"], "text": c["text"], "design_ref": c["design_ref"]},
            "level_note": c["note"],
            "technique": c["technique"],
        })
    manifest = {
        "version": 1,
        "setup_cmd": "./check --setup",
        "hooks": {
            "guard": "--cfg reinterpretcat_vrp_verif",
            "enable": "harness/.cargo/config.toml sets build.rustflags = [\"--cfg\", \"reinterpretcat_vrp_verif\"]; the harness depends on /repo crates by path, so every ./check rebuilds them from /repo's working tree with hooks on",
            "baseline_off_cmd": "cd /repo && cargo test --workspace --no-fail-fast --offline",
            "source_commits": [c.split()[0] for c in commits],
            "add_only": True,
        },
        "engines": [
            {"name": name, "path": f"harness/src/engines/{name}.rs", "serves_properties": pids,
             "kind_free_text": "proptest-driven engine inside the single vcheck binary"}
            for name, pids in sorted(engines.items())
        ],
        "checks": checks,
        "notes": "One harness binary (harness/, bin vcheck) driven by ./check <ID> <quick|thorough> [--replay f]. Exit 0 held / 1 VIOLATION / 2 inconclusive. All random choices derive from VERIF_SEED through proptest (ChaCha, fixed seed per shard). known_findings.json lists recorded defects.",
        "not_applicable": not_applicable,
    }
    with open(os.path.join(ROOT, "MANIFEST.json"), "w") as f:
        json.dump(manifest, f, indent=1)
        f.write("\n")
    try:
        import jsonschema
        jsonschema.validate(manifest, json.load(open("/root/.vp/MANIFEST.schema.json")))
        print("MANIFEST.json valid;", len(checks), "checks,", len(not_applicable), "not_applicable")
    except ImportError:
        print("written (jsonschema not available for validation)")

if __name__ == "__main__":
    main()
