#!/usr/bin/env bash
# usage: tools/keep_seed.sh <worktree> <n> <ID> "<detected by: ...>" [<number under /verif/seeded>]
set -eu
WT="$1"; N="$2"; ID="$3"; DET="$4"
DN="${5:-$N}"; SRC="$WT/SEEDED/$N"; DST="/verif/seeded/$ID-$DN"
grep -q "SUMMARY demo_clean_rc=0 demo_mutant_rc=101" "$SRC/verify.log" || { echo "not verified: $SRC"; exit 1; }
mkdir -p "$DST"
cp "$SRC/patch.diff" "$DST/patch.diff"
rm -rf "$DST/demo"; cp -r "$SRC/demo" "$DST/demo"
python3 - "$SRC" "$DST" "$ID" "$DET" <<'PY'
import json,sys
src,dst,pid,det=sys.argv[1:5]
try: meta=json.load(open(src+'/meta.json'))
except Exception as e: meta={"note":"agent meta.json unreadable: %s"%e}
log=open(src+'/verify.log').read()
summary=[l for l in log.splitlines() if l.startswith('SUMMARY')][-1]
suite=[l for l in log.splitlines() if 'FAILED' in l or 'failed;' in l and ' 0 failed' not in l]
out={"property":pid,"breaks":meta.get("summary"),"needs_to_manifest":meta.get("needs_to_manifest"),"files":meta.get("files"),
 "agent_reported":meta.get("verified"),
 "confirmed_by_me":{"ran":"tools/verify_seed.sh (demo on clean code, demo with change, cargo test --workspace --offline --no-fail-fast with change) in the agent's scratch worktree",
   "result":summary,"suite_failures_with_change":suite},
 "detected":det}
json.dump(out,open(dst+'/meta.json','w'),indent=1)
PY
echo "kept $DST"
