#!/usr/bin/env bash
# private build that is independent of engine files other agents are editing
set -e
mkdir -p /tmp/hb
rsync -a --delete --exclude target /verif/harness/ /tmp/hb/
for m in validate roundtrip checker; do
  if ! grep -q "STABLE-ENGINE" /tmp/hb/src/engines/$m.rs; then
cat > /tmp/hb/src/engines/$m.rs <<EOT
//! stub
use crate::fw::*;
pub fn property(_tier: Tier) -> PropertyDef {
    PropertyDef { id: "STUB", level: "exploration", rule: "stub", assumptions: vec![], props: vec![], extra: None, required_classes: vec!["stub.never"] }
}
EOT
  fi
done
cd /tmp/hb && cargo build --release 2>&1 | grep -E "^error" -A14 | head -${1:-60}
