#!/usr/bin/env bash
# usage: tools/run_all_quick.sh <seed>...   -- runs every quick check once per seed, prints one line each
# VCHECK_BIN=<frozen binary> skips the rebuild (for background runs while the harness is being edited)
# TIER=thorough runs the thorough tier instead
cd /verif
for s in "$@"; do
  for id in C01 C02 C03 C04 C05 C06 C07 C08 C09 C10 C11 C12 C13 C14 C15 C16 C17 C18 C19 C20; do
    if [ -n "${VCHECK_BIN:-}" ]; then out=$(VERIF_ROOT=/verif VERIF_SEED=$s "$VCHECK_BIN" $id ${TIER:-quick} 2>&1); rc=$?
    else out=$(VERIF_SEED=$s ./check $id ${TIER:-quick} 2>&1); rc=$?; fi
    echo "seed=$s $id rc=$rc $(echo "$out" | grep -c '^VIOLATION') violations; $(echo "$out" | tail -1 | cut -c1-160)"
    echo "$out" | grep -A2 '^VIOLATION' | cut -c1-400
  done
done
