#!/usr/bin/env bash
# Applies every kept seeded change to /repo in turn, runs the quick check of its property and undoes it.
# Prints one line per seed: "<seed> exit=<rc> expected=<caught|missed> <first signature>".  /repo must be clean.
cd /repo || exit 2
if ! git diff --quiet; then echo "/repo has uncommitted changes"; exit 2; fi
for d in /verif/seeded/*/; do
  n=$(basename "$d"); case "$n" in *obsolete*) continue;; esac
  [ -n "${ONLY:-}" ] && [[ "$n" != $ONLY ]] && continue
  id=${n%%-*}
  exp=$(python3 -c "import json,sys;m=json.load(open('$d/meta.json'));print('missed' if (m.get('detected') or '').startswith('NOT') else 'caught')")
  git apply "$d/patch.diff" || { echo "$n patch does not apply"; continue; }
  out=$(cd /verif && ./check "$id" quick 2>&1); rc=$?
  git checkout -- .
  sig=$(echo "$out" | grep -m1 -o 'signature=[^ ]*')
  status=ok; { [ "$exp" = caught ] && [ $rc -ne 1 ]; } && status=UNEXPECTED; { [ "$exp" = missed ] && [ $rc -ne 0 ]; } && status=now-caught
  echo "$n exit=$rc expected=$exp $status $sig"
done
