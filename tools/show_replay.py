#!/usr/bin/env python3
import json,sys
T0=1577836800
def ts(s):
    import datetime
    return int(datetime.datetime.strptime(s,'%Y-%m-%dT%H:%M:%SZ').replace(tzinfo=datetime.timezone.utc).timestamp())-T0
d=json.load(open(sys.argv[1]))
m=d['message']
i=m.index('--- problem+matrices:'); j=m.index('--- solution:')
print(m[:i])
pm=json.loads(m[i+len('--- problem+matrices:'):j]); sol=json.loads(m[j+len('--- solution:'):])
P=pm['problem']
def tw(x): return [[ts(a),ts(b)] for a,b in x] if x else None
print("objectives", P.get('objectives'))
for jb in P['plan']['jobs']:
    out=[]
    for k in ('pickups','deliveries','replacements','services'):
        for t in jb.get(k) or []:
            out.append((k[:3], t.get('demand'), t.get('order'), [(p['location']['index'],p['duration'],tw(p.get('times')),p.get('tag')) for p in t['places']]))
    print(jb['id'], {k:jb[k] for k in ('skills','group','compatibility','value') if k in jb}, out)
for v in P['fleet']['vehicles']:
    print(v['typeId'], v['vehicleIds'], v['profile'], 'cap',v['capacity'], 'costs',v['costs'], 'limits',v.get('limits'), 'skills',v.get('skills'))
    for s in v['shifts']:
        st=s['start']; en=s.get('end')
        print('   shift start',st['location']['index'],ts(st['earliest']), ts(st['latest']) if st.get('latest') else None, 'end', (en['location']['index'], ts(en['latest'])) if en else None)
        for b in s.get('breaks') or []: print('      break', b['time'] if isinstance(b['time'][0],(int,float)) else [ts(x) for x in b['time']], b['places'], b.get('policy'))
        for r in s.get('reloads') or []: print('      reload', r['location']['index'], r['duration'], tw(r.get('times')), r.get('tag'), r.get('resourceId'))
print('resources', P['fleet'].get('resources'))
for mt in pm['matrices']:
    n=int(len(mt['distances'])**0.5)
    print('matrix',mt['profile'],'n',n)
    for r in range(n): print('   d',mt['distances'][r*n:(r+1)*n],' t',mt['travelTimes'][r*n:(r+1)*n], ' e',(mt.get('errorCodes') or [0]*n*n)[r*n:(r+1)*n])
for ti,t in enumerate(sol['tours']):
    print('TOUR',ti,t['vehicleId'],'shift',t['shiftIndex'],t['statistic'])
    for s in t['stops']:
        print('   stop loc',s['location']['index'],'arr',ts(s['time']['arrival']),'dep',ts(s['time']['departure']),'dist',s['distance'],'load',s['load'])
        for a in s['activities']:
            print('        ',a['jobId'],a['type'],a.get('jobTag'),(ts(a['time']['start']),ts(a['time']['end'])) if a.get('time') else None, a.get('location'))
print('unassigned',[(u['jobId'],[r['code'] for r in u['reasons']]) for u in sol.get('unassigned') or []])
print('violations',sol.get('violations'))
