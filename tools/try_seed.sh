#!/usr/bin/env bash
# usage: tools/try_seed.sh <patch.diff> <ID> [tier]  -- applies a seeded change to /repo, runs the check, reverts
set -u
PATCH="$1"; ID="$2"; TIER="${3:-quick}"
cd /repo || exit 2
if ! git diff --quiet; then echo "/repo has uncommitted changes"; exit 2; fi
git apply "$PATCH" || { echo "patch does not apply"; exit 2; }
cd /verif && ./check "$ID" "$TIER" | cut -c1-600 | head -20
RC=${PIPESTATUS[0]}
git -C /repo checkout -- . 
echo "try_seed: $PATCH on $ID -> exit $RC"
exit 0
