#!/usr/bin/env bash
# usage: tools/verify_seed.sh <worktree> <n>
# Confirms a seeded change independently: demo passes on clean code, fails with the change,
# workspace builds and the existing test suite passes with the change. Writes <seed>/verify.log
set -u
WT="$1"; N="$2"; SEED="$WT/SEEDED/$N"
LOG="$SEED/verify.log"; : > "$LOG"
cd "$WT" || exit 2
git checkout -q -- . 2>/dev/null
DEMO=$(ls "$SEED"/demo/*.rs | head -1)
NAME=$(basename "$DEMO" .rs)
CRATE=$(grep -oE "(vrp-core|vrp-pragmatic|vrp-scientific|vrp-cli|rosomaxa)/tests" "$SEED/demo/RUN.md" | head -1 | cut -d/ -f1)
[ -z "$CRATE" ] && { echo "cannot determine crate" | tee -a "$LOG"; exit 2; }
cp "$DEMO" "$CRATE/tests/$NAME.rs"
echo "== demo on clean code ($CRATE --test $NAME)" >> "$LOG"
cargo test -p "$CRATE" --offline -j 6 --test "$NAME" >> "$LOG" 2>&1; RC_CLEAN=$?
git apply "$SEED/patch.diff" || { echo "patch does not apply" | tee -a "$LOG"; rm -f "$CRATE/tests/$NAME.rs"; exit 2; }
echo "== demo with change" >> "$LOG"
cargo test -p "$CRATE" --offline -j 6 --test "$NAME" >> "$LOG" 2>&1; RC_MUT=$?
rm -f "$CRATE/tests/$NAME.rs"
echo "== workspace suite with change" >> "$LOG"
timeout 1800 cargo test --workspace --offline -j 6 --no-fail-fast > "$SEED/suite_with_change.log" 2>&1; RC_SUITE=$?
grep -E "^test result|FAILED|failed" "$SEED/suite_with_change.log" >> "$LOG"
git checkout -q -- .
echo "SUMMARY demo_clean_rc=$RC_CLEAN demo_mutant_rc=$RC_MUT suite_rc=$RC_SUITE" | tee -a "$LOG"
